"""C20: generated t2data models (as JSON-able specs), their construction through the public
PyTOUGH API, and the abstract object / wire serialisation shared with coq/C20/Drv.v."""
import hashlib, io, contextlib, os, math

SECTIONS = ['SIMUL', 'ROCKS', 'PARAM', 'MOMOP', 'START', 'NOVER', 'RPCAP', 'LINEQ', 'SOLVR', 'MULTI', 'TIMES', 'SELEC', 'DIFFU',
            'ELEME', 'CONNE', 'MESHM', 'GENER', 'SHORT', 'FOFT', 'COFT', 'GOFT', 'INCON', 'INDOM']
MODELLED = {'SIMUL', 'ROCKS', 'LINEQ', 'SOLVR', 'MULTI', 'GENER', 'SHORT', 'FOFT', 'COFT', 'GOFT'}

TOUGH2_TYPES = ['HEAT', 'WATE', 'AIR ', 'MASS', 'DELV', 'COM1', 'COM2', 'COM3', 'COM4', 'COM5']
CONVERTIBLE = ['CO2 ']
AUTOUGH2_ONLY = ['FEED', 'HLOS', 'MAKE', 'POWR', 'TOST', 'VOL.', 'WBRE', 'WFLO', 'XIN2', 'DELG', 'DELS', 'DELT', 'DELW', 'DMAK', 'DMAT',
                 'TMAK', 'RECH', 'IMAK', 'XINJ', 'FINJ', 'PINJ', 'RINJ', 'MASD', 'TRAC', 'NACL', 'CO2', 'mass', ' COM']
SIMULATORS = ['AUTOUGH2.2EW', 'AUTOUGH2.2EWC', 'AUTOUGH2  EW', 'AUTOUGH2.2  EWAV', 'MULKOM    EW', 'AUTOUGH2', 'AUTOUGH2.2', 'MULKOM', 'EW',
              'AUTOUGH2.2EWT', 'AUTOUGH2.2EWTD', 'AUTOUGH2.2W', 'XYZ']
FILENAMES = ['', 'model.dat', 'MODEL', 'model', 'Model.DAT', 'x.data', 'm', 'M.Dat', 'run.DAT', 'Zdat']

_geo_cache = {}


def quiet():
    return contextlib.redirect_stdout(io.StringIO())


def make_geo(g):
    key = (g['nx'], g['ny'], g['nz'], g['atmos_type'], g['convention'], g.get('block_order'), tuple(g.get('split', ())))
    if key not in _geo_cache:
        import mulgrids
        with quiet():
            geo = mulgrids.mulgrid().rectangular([10.] * g['nx'], [12.] * g['ny'], [5.] * g['nz'], convention=g['convention'],
                                                 atmos_type=g['atmos_type'], block_order=g.get('block_order'))
            cols = [c.name for c in geo.columnlist]
            for k in g.get('split', ()):                    # quadrilateral column -> two triangles (6-node blocks for the dmplex order)
                c = geo.column[cols[k % len(cols)]]
                if c.num_nodes == 4: geo.split_column(c.name, c.node[0].name)
            if g.get('split'): geo.setup_block_name_index(); geo.setup_block_connection_name_index()
        _geo_cache[key] = geo
    return _geo_cache[key]


def geom_wire(geo):
    """the geometry op of the driver: order tag, atmosphere block names, underground (name:nodes) in layer/column order"""
    natm = geo.num_atmosphere_blocks
    atm = []
    if geo.num_layers > 0:
        if geo.atmosphere_type == 0: atm = [geo.block_name(geo.layerlist[0].name, geo.atmosphere_column_name)]
        elif geo.atmosphere_type == 1: atm = [geo.block_name(geo.layerlist[0].name, c.name) for c in geo.columnlist]
    und = [(geo.block_name(l.name, c.name), 2 * c.num_nodes) for l in geo.layerlist[1:] for c in geo.columnlist if c.surface > l.bottom]
    return ['bnl', geo.block_order or 'none', ','.join(hx(n) for n in atm), ','.join('%s:%d' % (hx(n), k) for n, k in und)]


# ------------------------------------------------------------------ spec generation (conversions)
def pick_digit(rng):
    r = rng.random()
    if r < 0.45: return 0
    if r < 0.75: return rng.choice([1, 2])
    return rng.randint(0, 9)


def gen_geo_spec(rng, small=True):
    return {'nx': rng.randint(1, 3), 'ny': rng.randint(1, 2), 'nz': rng.randint(1, 3), 'atmos_type': rng.choice([0, 1, 2]),
            'convention': rng.choice([0, 0, 1, 2]), 'block_order': rng.choice([None, None, 'layer_column', 'dmplex'])}


def gen_conv_spec(rng, i):
    """One conversion model.  Index i drives the systematic part (option digit sweep, section subsets)."""
    flavour = 'AUTOUGH2' if (i % 5) in (0, 1, 2) else 'TOUGH2'
    geo = gen_geo_spec(rng)
    nblk = geo['nx'] * geo['ny'] * geo['nz'] + {0: 1, 1: geo['nx'] * geo['ny'], 2: 0}[geo['atmos_type']]
    s = {'kind': 'conv', 'geo': geo, 'flavour': flavour,
         'simulator': rng.choice(SIMULATORS) if flavour == 'AUTOUGH2' else '',
         'filename': rng.choice(FILENAMES), 'prep': rng.choice(['fresh', 'fresh', 'written', 'reread'])}
    # option digits: systematic sweep (position (i mod 24)+1 takes digit (i // 24) mod 10), the rest biased random
    opts = [pick_digit(rng) for _ in range(24)]
    opts[i % 24] = (i // 24) % 10
    if rng.random() < 0.5: opts[20] = rng.randint(0, 9)          # MOP(21)
    for k in (9, 11, 21, 22, 23):                                 # MOP(10), (12), (22..24)
        if rng.random() < 0.4: opts[k] = rng.choice([0, 1, 2, 2, 3, 9])
    s['options'] = opts
    # sections: every subset of the optional ones is reachable; bit pattern from i plus noise
    bits = (i * 2654435761 + rng.getrandbits(16)) & 0xffff
    s['flags'] = {k: bool(bits >> j & 1) for j, k in enumerate(['start', 'noversion', 'times', 'selection', 'diffusion', 'rpcap', 'incon', 'indom', 'momop'])}
    if bits >> 9 & 1:
        m = {}
        if rng.random() < 0.8: m.update({'num_components': 1, 'num_equations': 2, 'num_phases': 2, 'num_secondary_parameters': 6})
        if rng.random() < 0.3: m['num_inc'] = rng.choice([None, 3])
        if flavour == 'AUTOUGH2' and rng.random() < 0.7 or rng.random() < 0.15: m['eos'] = rng.choice(['EW', 'EWC', 'EWAV', 'EW  ', 'W'])
        s['multi'] = m
    else: s['multi'] = None
    lineq = {'type': rng.choice([0, 1, 2, 3, 4, 5]), 'epsilon': rng.choice([None, 1e-10]), 'max_iterations': rng.choice([None, 300]),
             'gauss': rng.choice([None, 1]), 'num_orthog': rng.choice([None, 20])}
    solver = {'type': rng.choice([0, 1, 2, 3, 4, 5, 6, 7, 8, 9]), 'z_precond': rng.choice(['Z1', 'Z0']), 'o_precond': 'O0',
              'relative_max_iterations': 0.1, 'closure': 1e-6}
    if rng.random() < 0.25: solver.pop('type')
    if flavour == 'AUTOUGH2':
        s['lineq'] = lineq if bits >> 10 & 1 else None
        s['solver'] = solver if rng.random() < 0.1 else None
    else:
        s['solver'] = solver if bits >> 10 & 1 else None
        s['lineq'] = lineq if rng.random() < 0.1 else None
    # rock types
    s['rocks'] = [{'name': 'rock%d' % k, 'porosity': rng.choice([0.05, 0.1, 0.25, 0.3]), 'conductivity': rng.choice([1.5, 2.0, 2.5, 0.7])}
                  for k in range(rng.randint(0, 2))]
    s['rock_seed'] = rng.getrandbits(16)
    # generators
    ngen = rng.choice([0, 1, 2, 3, 4, 5, 6])
    gens = []
    pool_names = ['gen 1', 'gen 2', 'abc12', 'wel 7', 'inj 3']
    for k in range(ngen):
        r = rng.random()
        if r < 0.12 and gens:
            gens.append({'same_as': rng.randrange(len(gens))})       # the same object added twice
            continue
        cls = rng.random()
        if cls < 0.4: t = rng.choice(TOUGH2_TYPES)
        elif cls < 0.55: t = rng.choice(CONVERTIBLE)
        else: t = rng.choice(AUTOUGH2_ONLY)
        blk = rng.randrange(nblk) if rng.random() < 0.9 else -1        # -1: a block name that is not in the grid
        name = rng.choice(pool_names)
        if gens and rng.random() < 0.2:                                # duplicated (block, name) key, different object
            prev = [g for g in gens if 'same_as' not in g]
            if prev: p = rng.choice(prev); blk, name = p['block'], p['name']
        g = {'name': name, 'block': blk, 'type': t, 'gx': rng.choice([0.0, 1.5, -2.0, 10.0]), 'ex': rng.choice([0.0, 1.0e5, 8.4e4]),
             'hg': rng.choice([0.0, -1.0, -2.0, 1.0e5, None]), 'fg': rng.choice([0.0, 1.0, -1.0]), 'ltab': rng.choice([0, 1, 0, 0])}
        if rng.random() < 0.15:
            n = rng.choice([2, 3, 5])
            g.update({'ltab': n, 'time': [float(j) * 10. for j in range(n)], 'rate': [float(j) + 1. for j in range(n)]})
            if rng.random() < 0.5: g.update({'itab': 'e', 'enthalpy': [1.0e5 + j for j in range(n)]})
        gens.append(g)
    s['gens'] = gens
    ncon_hint = 8
    def some(n, k): return [rng.randrange(n) for _ in range(rng.randint(0, k))] if n else []
    # short output / history requests: both kinds may be present whatever the flavour
    def short_spec():
        so = {}
        if rng.random() < 0.5: so['frequency'] = rng.choice([0, 2, 5, None])
        if rng.random() < 0.6: so['block'] = some(nblk, 3)
        if rng.random() < 0.5: so['connection'] = some(ncon_hint, 2)
        if rng.random() < 0.6: so['generator'] = some(len(gens), 4)
        return so
    def hist_spec():
        def blk_items(k):
            out = []
            for _ in range(rng.randint(0, k)):
                r = rng.random()
                if r < 0.6: out.append(['obj', rng.randrange(nblk)])
                elif r < 0.85: out.append(['name', rng.randrange(nblk)])
                else: out.append(['badname', 'zz%3d' % rng.randint(1, 99)])
            return out
        def con_items(k):
            out = []
            for _ in range(rng.randint(0, k)):
                r = rng.random()
                if r < 0.6: out.append(['obj', rng.randrange(ncon_hint)])
                elif r < 0.8: out.append(['tuple', rng.randrange(ncon_hint)])
                elif r < 0.9: out.append(['rtuple', rng.randrange(ncon_hint)])
                else: out.append(['badtuple', ['zz  1', 'zz  2']])
            return out
        return {'block': blk_items(3), 'connection': con_items(2), 'generator': blk_items(3)}
    if flavour == 'AUTOUGH2':
        s['short'] = short_spec() if bits >> 11 & 1 else None
        s['hist'] = hist_spec() if rng.random() < 0.15 else None
    else:
        s['hist'] = hist_spec() if bits >> 11 & 1 else None
        s['short'] = short_spec() if rng.random() < 0.15 else None
    # a TOUGH2 file whose FOFT / COFT / GOFT sections precede ELEME (the history lists are then read as bare names)
    if flavour == 'TOUGH2' and s['hist'] is not None and rng.random() < 0.35: s['prep'] = 'histfirst'
    # operation
    r = rng.random()
    if r < 0.2:
        s['op'] = {'kind': 'st', 'value': rng.choice(['TOUGH2', 'AUTOUGH2', 'TOUGH2', 'AUTOUGH2', 'TOUGH3'])}
    elif flavour == 'AUTOUGH2' and r < 0.9 or r > 0.95:
        s['op'] = {'kind': 't2', 'MP': rng.random() < 0.4}
    else:
        s['op'] = {'kind': 'au', 'MP': rng.random() < 0.4, 'simulator': rng.choice(['AUTOUGH2.2', 'AUTOUGH2.2', 'AUTOUGH2', 'MULKOM', 'AUTOUGH2.2.1', '']),
                   'eos': rng.choice(['EW', 'EW', 'EWC', 'EWAV', 'W', ''])}
    return s


# ------------------------------------------------------------------ construction through the public API
def block_name(dat, idx):
    if idx < 0 or not dat.grid.blocklist: return 'qq%3d' % (-idx if idx < 0 else 1)
    return dat.grid.blocklist[idx % len(dat.grid.blocklist)].name


def build_conv(spec, tmpdir):
    """-> (dat, geo).  Everything is set through public attributes / methods of t2data, t2grid."""
    import t2data as T, t2grids as G
    geo = make_geo(spec['geo'])
    with quiet():
        dat = T.t2data()
        dat.grid = G.t2grid().fromgeo(geo)
    dat.title = 'c20 model'
    dat.simulator = spec['simulator']
    dat.filename = spec['filename']
    for k, d in enumerate(spec['options']): dat.parameter['option'][k + 1] = d
    dat.parameter.update({'max_timesteps': 10, 'tstop': 1.e9, 'const_timestep': 1.e5, 'gravity': 9.8, 'default_incons': [1.0e5, 20.0]})
    f = spec['flags']
    if f['start']: dat.start = True
    if f['noversion']: dat.noversion = True
    if f['times']: dat.output_times = {'num_times_specified': 2, 'time': [1.e5, 2.e5]}
    if f['selection']: dat.selection = {'integer': [1] + [0] * 15, 'float': [0.5] * 8}
    if f['diffusion']: dat.diffusion = [[-1.e-6, -1.e-6], [-1.e-6, -1.e-6]]
    if f['rpcap']:
        dat.relative_permeability = {'type': 1, 'parameters': [0.1, 0.0, 0.9, 0.7]}
        dat.capillarity = {'type': 1, 'parameters': [0.0, 0.0, 1.0]}
    if f['momop']: dat.more_option[2] = 1
    if spec['multi'] is not None: dat.multi = dict(spec['multi'])
    if spec['lineq'] is not None: dat.lineq = dict(spec['lineq'])
    if spec['solver'] is not None: dat.solver = dict(spec['solver'])
    import random
    rr = random.Random(spec['rock_seed'])
    for r in spec['rocks']:
        dat.grid.add_rocktype(G.rocktype(name=r['name'], porosity=r['porosity'], conductivity=r['conductivity']))
    if spec['rocks']:
        for blk in dat.grid.blocklist:
            if rr.random() < 0.6: blk.rocktype = dat.grid.rocktypelist[rr.randrange(len(dat.grid.rocktypelist))]
    if f['incon'] and dat.grid.blocklist: dat.incon = {dat.grid.blocklist[-1].name: [None, [2.0e5, 30.0]]}
    if f['indom']: dat.indom = {'dfalt': [1.5e5, 25.0]}
    objs = []
    for g in spec['gens']:
        if 'same_as' in g:
            o = objs[g['same_as']]
        else:
            kw = {k: g[k] for k in ('name', 'type', 'gx', 'ex', 'hg', 'fg', 'ltab') if k in g}
            for k in ('time', 'rate', 'enthalpy', 'itab'):
                if k in g: kw[k] = list(g[k]) if isinstance(g[k], list) else g[k]
            o = T.t2generator(block=block_name(dat, g['block']), **kw)
        objs.append(o)
        dat.add_generator(o)
    cons = dat.grid.connectionlist
    if spec.get('short') is not None:
        so = {}
        sp = spec['short']
        if 'frequency' in sp: so['frequency'] = sp['frequency']
        if 'block' in sp: so['block'] = [dat.grid.blocklist[i % len(dat.grid.blocklist)] for i in sp['block']]
        if 'connection' in sp: so['connection'] = [cons[i % len(cons)] for i in sp['connection']] if cons else []
        if 'generator' in sp: so['generator'] = [objs[i % len(objs)] for i in sp['generator']] if objs else []
        dat.short_output = so
    if spec.get('hist') is not None:
        h = spec['hist']
        def bitem(it):
            if it[0] == 'obj': return dat.grid.blocklist[it[1] % len(dat.grid.blocklist)]
            if it[0] == 'name': return dat.grid.blocklist[it[1] % len(dat.grid.blocklist)].name
            return it[1]
        def citem(it):
            if it[0] == 'badtuple' or not cons: return tuple(it[1]) if it[0] == 'badtuple' else ('zz  1', 'zz  2')
            c = cons[it[1] % len(cons)]
            names = tuple(b.name for b in c.block)
            return c if it[0] == 'obj' else names if it[0] == 'tuple' else names[::-1]
        dat.history_block = [bitem(x) for x in h['block']]
        dat.history_connection = [citem(x) for x in h['connection']]
        dat.history_generator = [bitem(x) for x in h['generator']]
    if spec['prep'] in ('written', 'reread', 'histfirst'):
        keep = dat.filename
        path = os.path.join(tmpdir, 'prep.dat')
        with quiet():
            dat.write(path)
            if spec['prep'] == 'histfirst': move_history_first(path)
            if spec['prep'] != 'written':
                dat = T.t2data(path)
        dat.filename = keep
    return dat, geo


def move_history_first(path):
    """moves the FOFT, COFT and GOFT sections of a data file to just before ELEME"""
    lines = open(path).read().split('\n')
    moved, rest, i = [], [], 0
    while i < len(lines):
        if lines[i][:5].strip() in ('FOFT', 'COFT', 'GOFT'):
            while i < len(lines) and lines[i].strip():
                moved.append(lines[i]); i += 1
            if i < len(lines): moved.append(lines[i]); i += 1
        else:
            rest.append(lines[i]); i += 1
    heads = [l[:5] for l in rest]
    if 'ELEME' in heads and moved:
        k = heads.index('ELEME')
        open(path, 'w').write('\n'.join(rest[:k] + moved + rest[k:]))


# ------------------------------------------------------------------ abstract object + wire format
def hx(s):
    return 'x' + s.encode('latin-1').hex()


def digest(*vals):
    h = hashlib.blake2b(repr(vals).encode(), digest_size=5).digest()
    return int.from_bytes(h, 'big')


def is_int(v):
    import numpy as np
    return isinstance(v, (int, np.integer)) and not isinstance(v, (bool, np.bool_))


def enc_val(v):
    if v is None: return 'N'
    if is_int(v): return 'I%d' % int(v)
    if isinstance(v, str): return 'S' + v.encode('latin-1').hex()
    return 'O'


def enc_dict(d):
    return ','.join('%s:%s' % (hx(k), enc_val(v)) for k, v in d.items())


def seq(x):
    return [] if x is None else list(x)


class Abstractor:
    """Numbers generator objects by identity at first sight and remembers the rock baselines, so that the
    object after the operation is described in the same terms as before it."""
    def __init__(self, dat):
        import t2data as T
        self.T = T
        self.ids = {}
        self.objs = []
        for g in self.walk_gens(dat): self.gid(g)
        self.rock0 = [(rt, rt.conductivity) for rt in dat.grid.rocktypelist]

    def walk_gens(self, dat):
        T = self.T
        for g in dat.generatorlist: yield g
        for g in dat.generator.values(): yield g
        so = dat.short_output if isinstance(dat.short_output, dict) else {}
        for g in seq(so.get('generator')):
            if isinstance(g, T.t2generator): yield g
        for g in seq(dat.history_generator):
            if isinstance(g, T.t2generator): yield g

    def gid(self, g):
        k = id(g)
        if k not in self.ids:
            self.ids[k] = len(self.objs); self.objs.append(g)
        return self.ids[k]

    def item(self, dat, it):
        import t2grids as G
        T = self.T
        if isinstance(it, G.t2block): return 'B' + it.name.encode('latin-1').hex()
        if isinstance(it, str): return 'N' + it.encode('latin-1').hex()
        if isinstance(it, G.t2connection): return 'C' + '.'.join(b.name.encode('latin-1').hex() for b in it.block)
        if isinstance(it, tuple) and len(it) == 2 and all(isinstance(x, str) for x in it): return 'T' + '.'.join(x.encode('latin-1').hex() for x in it)
        if isinstance(it, T.t2generator): return 'G%d' % self.gid(it)
        raise ValueError('item outside the abstract object: %r' % (it,))

    def items(self, dat, l):
        return ','.join(self.item(dat, x) for x in l)

    def gen(self, g):
        sg = lambda v: 'N' if v is None or not isinstance(v, (int, float)) else '%d' % ((v > 0) - (v < 0))
        lt = '%d' % int(g.ltab) if is_int(g.ltab) else 'N'
        rest = digest(g.nseq, g.nadd, g.nads, g.ltab, g.itab, g.gx, g.ex, g.hg, g.fg, list(g.time), list(g.rate), list(g.enthalpy))
        return ':'.join([hx(g.block), hx(g.name), hx(g.type), lt, sg(g.hg), '%d' % rest])

    def rock(self, i, rt):
        scaled = 99
        if i < len(self.rock0) and self.rock0[i][0] is rt:
            c = self.rock0[i][1]
            for k in range(4):
                if rt.conductivity == c: scaled = k; break
                c = c * (1. - rt.porosity)
        rest = digest(rt.nad, rt.density, rt.porosity, [float(x) for x in rt.permeability], rt.specific_heat, rt.compressibility,
                      rt.expansivity, rt.dry_conductivity, rt.tortuosity, sorted(rt.relative_permeability.items(), key=str), sorted(rt.capillarity.items(), key=str))
        return ':'.join([hx(rt.name), '%d' % scaled, '%d' % rest])

    def fields(self, dat):
        """the 18 data fields of the wire format"""
        so = dat.short_output
        if not isinstance(so, dict): raise ValueError('short_output is not a dict')
        extra = set(so) - {'frequency', 'block', 'connection', 'generator'}
        if extra: raise ValueError('short_output keys outside the abstract object: %r' % extra)
        opts = [int(x) for x in dat.parameter['option']]
        if len(opts) != 25: raise ValueError('option array of length %d' % len(opts))
        present = dat.present_sections
        other = [k for k in present if k not in MODELLED]
        sh = ';'.join([enc_val(so['frequency']) if 'frequency' in so else '-'] +
                      [self.items(dat, so[k]) if k in so else '-' for k in ('block', 'connection', 'generator')])
        for g in self.walk_gens(dat): self.gid(g)
        vol = lambda v: '%d:%d' % float(v).as_integer_ratio()
        f = [hx(dat.simulator), hx(dat.filename), ','.join(hx(s) for s in dat._sections), ','.join(hx(s) for s in other),
             enc_dict(dat.multi), enc_dict(dat.lineq), enc_dict(dat.solver), ','.join('%d' % o for o in opts),
             None,
             ','.join('%d' % self.gid(g) for g in dat.generatorlist),
             ','.join('%s:%s:%d' % (hx(k[0]), hx(k[1]), self.gid(g)) for k, g in dat.generator.items()),
             sh, self.items(dat, dat.history_block), self.items(dat, dat.history_connection), self.items(dat, dat.history_generator),
             ','.join(self.rock(i, rt) for i, rt in enumerate(dat.grid.rocktypelist)),
             ','.join('%s:%s:%s' % (hx(b.name), hx(b.rocktype.name), vol(b.volume)) for b in dat.grid.blocklist),
             ','.join('%s:%s' % (hx(c.block[0].name), hx(c.block[1].name)) for c in dat.grid.connectionlist)]
        f[8] = ','.join(self.gen(g) for g in self.objs)
        return f


def exn_name(e):
    n = type(e).__name__
    return n if n in ('ValueError', 'TypeError', 'IndexError', 'KeyError', 'ZeroDivisionError', 'AttributeError', 'OverflowError') else 'Exception'


FIELD_NAMES = ['simulator', 'filename', '_sections', 'other present sections', 'multi', 'lineq', 'solver', 'option digits', 'generator objects',
               'generatorlist', 'generator dict', 'short_output', 'history_block', 'history_connection', 'history_generator', 'rock types',
               'grid blocks', 'grid connections']


def explain(model_line, impl_line):
    """which fields differ (for the disagreement record)"""
    a, b = model_line.split('\t'), impl_line.split('\t')
    if a[0] != b[0] or len(a) != len(b): return 'model: %s | implementation: %s' % (model_line[:300], impl_line[:300])
    out = []
    for i, (x, y) in enumerate(zip(a[1:], b[1:])):
        if x != y: out.append('%s: model %s | implementation %s' % (FIELD_NAMES[i] if i < len(FIELD_NAMES) else 'field %d' % i, x[:200], y[:200]))
    return '; '.join(out)


# ------------------------------------------------------------------ export (Waiwera JSON) models
SUPPORTED_EOS = ['W', 'EW', 'EWC', 'EWAV', 'EWT', 'EWTD']
EXPORT_TYPES = ['MASS', 'MASD', 'HEAT', 'COM1', 'COM2', 'COM3', 'WATE', 'AIR ', 'TRAC', 'NACL', 'DELV', 'DELG', 'DELS', 'DELT', 'DELW', 'DMAK',
                'DMAT', 'RECH', 'IMAK', 'XINJ', 'FINJ', 'PINJ', 'RINJ', 'TMAK']
UNSUPPORTED_EXPORT = ['CO2 ', 'FEED', 'HLOS', 'MAKE', 'POWR', 'TOST', 'VOL.', 'WBRE', 'WFLO', 'XIN2']
VOLUMES = [0.0, 1.0e25, 1.0e30, 1.0e50, -1.0, 9.9e24, 1.0e20, 1.0e-3]


def gen_export_spec(rng, i):
    geo = {'nx': rng.randint(1, 4), 'ny': rng.randint(1, 3), 'nz': rng.randint(1, 4), 'atmos_type': [0, 1, 2][i % 3],
           'convention': rng.choice([0, 0, 1, 2]), 'block_order': [None, 'layer_column', 'dmplex'][(i // 3) % 3]}
    nund = geo['nx'] * geo['ny'] * geo['nz']
    natm = {0: 1, 1: geo['nx'] * geo['ny'], 2: 0}[geo['atmos_type']]
    nblk = nund + natm
    route = ['explicit', 'multi', 'simulator', 'index', 'simulator', 'multi', 'explicit', 'none'][(i // 9) % 8]
    names = SUPPORTED_EOS + ['EWA', 'XX']
    name = names[(i // 72) % len(names)] if rng.random() < 0.8 else rng.choice(names)
    s = {'kind': 'export', 'geo': geo, 'route': route, 'eos_name': name, 'eos_arg': None, 'multi': None, 'simulator': ''}
    if route == 'explicit':
        s['eos_arg'] = name
        if rng.random() < 0.4: s['simulator'] = 'AUTOUGH2.2' + rng.choice(SUPPORTED_EOS)
        if rng.random() < 0.4: s['multi'] = {'eos': rng.choice(SUPPORTED_EOS), 'num_components': 1}
    elif route == 'index':
        s['eos_arg'] = rng.choice([1, 2, 3, 4, 0, 5])
    elif route == 'multi':
        s['multi'] = {'num_components': 1, 'num_equations': 2, 'num_phases': 2, 'num_secondary_parameters': 6,
                      'eos': name + rng.choice(['', '', ' ', '   '])}
        if rng.random() < 0.5: s['simulator'] = rng.choice(['AUTOUGH2.2', 'AUTOUGH2  ']) + rng.choice(SUPPORTED_EOS)
    elif route == 'simulator':
        form = rng.random()
        base = rng.choice(['AUTOUGH2.2', 'AUTOUGH2', 'MULKOM', 'AUTOUGH2.2.1', 'NEW'])
        s['simulator'] = (base.ljust(10) + name) if form < 0.5 else (base + name) if form < 0.8 else (base.ljust(10) + name + '  ')
        m = rng.random()
        if m < 0.35: s['multi'] = None
        elif m < 0.6: s['multi'] = {'num_components': 1, 'num_equations': 2, 'num_phases': 2, 'num_secondary_parameters': 6}
        elif m < 0.75: s['multi'] = {'num_components': 1, 'eos': ''}
        elif m < 0.85: s['multi'] = {'num_components': 1, 'eos': None}
        elif m < 0.95: s['multi'] = {'num_components': 1, 'eos': '  '}
        else: s['multi'] = {'num_components': 1, 'eos': rng.choice(SUPPORTED_EOS)}
    else:
        s['simulator'] = rng.choice(['', 'AUTOUGH2.2', 'AUTOUGH2.2XYZ'])
        s['multi'] = rng.choice([None, {'num_components': 1}])
    s['ninc'] = 4 if rng.random() < 0.93 else rng.choice([0, 1, 2])
    s['diffusion'] = 'uniform' if rng.random() < 0.8 else rng.choice(['mixed', 'positive'])
    s['atmos_volume'] = rng.choice([1.0e25, 1.0e25, 1.0e25, 1.0e20, 1.0e30])
    s['rocks'] = [{'name': 'rock%d' % k, 'porosity': 0.1, 'conductivity': 2.0} for k in range(rng.randint(0, 3))]
    s['rock_seed'] = rng.getrandbits(16)
    s['volumes'] = [[rng.randrange(nblk), rng.choice(VOLUMES)] for _ in range(rng.choice([0, 0, 1, 2, 3]))]
    s['extra_blocks'] = [{'name': 'bdy%2d' % (k + 1), 'volume': rng.choice([0.0, 1.0e30, 1.0e50, 1.0e25]), 'to': rng.randrange(nund), 'rock': rng.randrange(4)}
                         for k in range(rng.choice([0, 0, 1, 2]))]
    gens = []
    pool = ['gen 1', 'gen 2', 'wel 1', '', 'abc12']
    for k in range(rng.choice([0, 1, 2, 3, 4, 6])):
        r = rng.random()
        if r < 0.08 and gens:
            gens.append({'same_as': rng.randrange(len(gens))}); continue
        t = rng.choice(EXPORT_TYPES) if rng.random() < 0.93 else rng.choice(UNSUPPORTED_EXPORT)
        where = rng.random()
        blk = rng.randrange(natm, nblk) if where < 0.75 else (rng.randrange(natm) if natm and where < 0.9 else -1)
        name = rng.choice(pool)
        prev = [g for g in gens if 'same_as' not in g]
        if prev and rng.random() < 0.25:
            p = rng.choice(prev); name = p['name']
            if rng.random() < 0.5: blk = p['block']
        hg = rng.choice([-1.0, -2.0, 1.0e5, 0.0, 2.5])
        if t in ('TMAK', 'DELG', 'DELS', 'DELT', 'DELW', 'DMAK', 'DMAT', 'RECH') and rng.random() < 0.15: hg = None
        if t == 'TMAK' and rng.random() < 0.6: hg = rng.choice([-1.0, -2.0])
        g = {'name': name, 'block': blk, 'type': t, 'gx': rng.choice([0.0, 1.5, -2.0, 10.0]), 'ex': rng.choice([0.0, 1.0e5, 8.4e4]),
             'hg': hg, 'fg': rng.choice([0.0, 1.0, -1.0]), 'ltab': rng.choice([0, 1, 0, 2, None]) if t == 'DELV' else rng.choice([0, 1])}
        if t not in ('DELV', 'TMAK', 'FINJ', 'PINJ', 'RINJ', 'IMAK', 'XINJ', 'RECH') and rng.random() < 0.15:
            n = rng.choice([2, 3])
            g.update({'ltab': n, 'time': [float(j) * 10. for j in range(n)], 'rate': [float(j) + 1. for j in range(n)]})
        gens.append(g)
    s['gens'] = gens
    # triangular columns (6-node blocks), INCON / INDOM entries (value k stands for primaries [1e5 + 1e4 k, 20 + k, ...])
    if rng.random() < 0.35: geo['split'] = [rng.randrange(6) for _ in range(rng.choice([1, 1, 2]))]
    r = rng.random()
    s['incon'] = [[rng.randrange(nblk) if rng.random() < 0.9 else -1, rng.choice([1, 2, 3])] for _ in range(rng.choice([1, 2, 3]))] if r < 0.4 else []
    s['indom'] = [[rng.randrange(4), rng.choice([4, 5])] for _ in range(rng.choice([1, 2]))] if 0.25 < r < 0.6 else []
    return s


def value_vector(k, n=4):
    return [1.0e5 + 1.0e4 * k, 20.0 + k, 0.5e4, 1.0e-6][:n]


def value_id(p):
    return int(round((float(p) - 1.0e5) / 1.0e4))


def build_export(spec):
    """-> (dat, geo, kwargs of json())"""
    import t2data as T, t2grids as G, numpy as np, random
    geo = make_geo(spec['geo'])
    with quiet():
        dat = T.t2data()
        dat.grid = G.t2grid().fromgeo(geo)
    dat.title = 'c20 export'
    dat.filename = 'model.dat'
    dat.simulator = spec['simulator']
    if spec['multi'] is not None: dat.multi = dict(spec['multi'])
    dat.parameter.update({'max_timesteps': 10, 'tstop': 1.e9, 'const_timestep': 1.e5, 'gravity': 9.8, 'print_interval': 5,
                          'default_incons': [1.0e5, 20.0, 0.5e4, 1.0e-6][:spec['ninc']]})
    dat.diffusion = {'uniform': [[-1.e-6, -1.e-6], [-1.e-6, -1.e-6]], 'mixed': [[1.e-5, 1.e-6], [1.e-6, 1.e-5]],
                     'positive': [[1.e-6, 1.e-6], [1.e-6, 1.e-6]]}[spec['diffusion']]
    rr = random.Random(spec['rock_seed'])
    for r in spec['rocks']:
        dat.grid.add_rocktype(G.rocktype(name=r['name'], porosity=r['porosity'], conductivity=r['conductivity']))
    if spec['rocks']:
        for blk in dat.grid.blocklist:
            if rr.random() < 0.7: blk.rocktype = dat.grid.rocktypelist[rr.randrange(len(dat.grid.rocktypelist))]
    nb = len(dat.grid.blocklist)
    for idx, v in spec['volumes']: dat.grid.blocklist[idx % nb].volume = v
    natm = geo.num_atmosphere_blocks
    und = dat.grid.blocklist[natm:]
    for e in spec['extra_blocks']:
        inner = und[e['to'] % len(und)]
        centre = np.array(inner.centre) + np.array([-7.0, 0.0, 0.0])
        blk = G.t2block(e['name'], e['volume'], dat.grid.rocktypelist[e['rock'] % len(dat.grid.rocktypelist)], centre=centre)
        dat.grid.add_block(blk)
        dat.grid.add_connection(G.t2connection([blk, inner], 1, [1.e-9, 5.0], 60.0, 0.0))
    objs = []
    for g in spec['gens']:
        if 'same_as' in g: o = objs[g['same_as']]
        else:
            kw = {k: g[k] for k in ('name', 'type', 'gx', 'ex', 'hg', 'fg', 'ltab')}
            for k in ('time', 'rate'):
                if k in g: kw[k] = list(g[k])
            o = T.t2generator(block=block_name(dat, g['block']), **kw)
        objs.append(o); dat.add_generator(o)
    nv = max(spec['ninc'], 2)
    for idx, k in spec.get('incon', []):
        dat.incon[block_name(dat, idx)] = [None, value_vector(k, nv)]
    for ridx, k in spec.get('indom', []):
        if dat.grid.rocktypelist: dat.indom[dat.grid.rocktypelist[ridx % len(dat.grid.rocktypelist)].name] = value_vector(k, nv)
    return dat, geo, {'atmos_volume': spec['atmos_volume'], 'eos': spec['eos_arg'], 'mesh_coords': 'xyz'}


def qz(v):
    return '%d/%d' % float(v).as_integer_ratio()


def source_fields(ab, ctx3):
    """wire fields of the full-source op: numeric attributes of every generator object (heap order), tracer flag,
    number of equations, MOP(12)"""
    def one(g):
        return '~'.join([qz(g.gx), qz(g.ex), qz(g.fg), 'N' if g.hg is None else qz(g.hg),
                         '|'.join(qz(t) for t in g.time), '|'.join(qz(t) for t in g.rate), '|'.join(qz(t) for t in g.enthalpy)])
    tracer, numeq, mop12 = ctx3
    return [','.join(one(g) for g in ab.objs), '1' if tracer else '0', '%d' % numeq, '%d' % mop12]


def canon_json(v):
    """JSON value -> nested python with exact fractions (ints and floats alike)"""
    from fractions import Fraction
    import numpy as np
    if isinstance(v, dict): return {k: canon_json(x) for k, x in v.items()}
    if isinstance(v, (list, tuple, np.ndarray)): return [canon_json(x) for x in v]
    if v is None or isinstance(v, str): return v
    if isinstance(v, (bool, np.bool_)): return bool(v)
    return Fraction(float(v)) if isinstance(v, (float, np.floating)) else Fraction(int(v))


def parse_model_json(text):
    """the driver's rendering of a list of sources -> the same nested python"""
    from fractions import Fraction
    pos = [0]
    def val():
        c = text[pos[0]]
        if c == '{':
            pos[0] += 1; d = {}
            while text[pos[0]] != '}':
                j = text.index('=', pos[0]); k = bytes.fromhex(text[pos[0]:j]).decode('latin-1'); pos[0] = j + 1
                d[k] = val()
                if text[pos[0]] == ',': pos[0] += 1
            pos[0] += 1; return d
        if c == '[':
            pos[0] += 1; l = []
            while text[pos[0]] != ']':
                l.append(val())
                if text[pos[0]] == ',': pos[0] += 1
            pos[0] += 1; return l
        j = pos[0] + 1
        while j < len(text) and text[j] not in ',]};': j += 1
        tok = text[pos[0]:j]; pos[0] = j
        if tok == 'N': return None
        if tok[0] == 'q': n, d = tok[1:].split('/'); return Fraction(int(n), int(d))
        if tok[0] == 'i': return Fraction(int(tok[1:]))
        if tok[0] == 's': return bytes.fromhex(tok[1:]).decode('latin-1')
        raise ValueError('token %r' % tok)
    out = []
    while pos[0] < len(text):
        out.append(val())
        if pos[0] < len(text) and text[pos[0]] == ';': pos[0] += 1
    return out


def export_fields(dat, geo, spec):
    """the six extra wire fields of the export operations"""
    import numpy as np
    e = spec['eos_arg']
    d = np.array(dat.diffusion)
    try: dok = bool(d.size and np.all(d < 0) and np.allclose(d, d[0][0]))
    except Exception: dok = False
    return [','.join(hx(n) for n in geo.block_name_list), '%d' % geo.num_atmosphere_blocks, '%d:%d' % float(spec['atmos_volume']).as_integer_ratio(),
            '-' if e is None else ('I%d' % e if isinstance(e, int) else 'S' + e.encode('latin-1').hex()),
            '%d' % len(dat.parameter['default_incons']), '1' if dok else '0', '0',
            ','.join('%s:%d' % (hx(k), value_id(v[0])) for k, v in dat.indom.items()),
            ','.join('%s:%d' % (hx(k), value_id(v[1][0])) for k, v in dat.incon.items())]


def run_export(dat, geo, kw):
    """json() through the public entry point; when it raises, the three pieces the property names are
    obtained from the (public) helper methods.  -> dict(full, eos, rocks, srcs) of result lines."""
    res = {'full': True}
    try:
        with quiet(): j = dat.json(geo, 'mesh.exo', **kw)
    except Exception as e:
        import sys, traceback
        res['full'] = False; res['json_error'] = '%s: %s' % (type(e).__name__, str(e)[:80]); j = None
        res['json_exc'] = type(e).__name__
        fr = traceback.extract_tb(sys.exc_info()[2])[-1]
        res['json_where'], res['json_line'] = fr.name, (fr.line or '')
    def cells_line(types): return 'OK\t' + ';'.join(','.join('%d' % c for c in t['cells']) for t in types)
    def src_line(srcs): return 'OK\t' + ','.join('%s:%s' % (hx(s['name']), 'N' if s.get('cell') is None else '%d' % s['cell']) for s in srcs)
    def init_line(ini, n):
        """one value id per underground block (a uniform 'primary' vector expanded)"""
        if 'primary' not in ini: return None
        p = ini['primary']
        rows = [p] * n if (len(p) == 0 or not isinstance(p[0], (list, tuple))) else p
        return 'OK\t' + ','.join('%d' % value_id(r[0]) for r in rows)
    def bdy_pairs(bl):
        """sorted (value id, interior cell) pairs over all faces of all boundaries (merging of boundaries and faces aside)"""
        out = []
        for bc in bl:
            faces = bc['faces'] if isinstance(bc['faces'], list) else [bc['faces']]
            for f in faces: out += [(value_id(bc['primary'][0]), int(c)) for c in f['cells']]
        return sorted(out)
    nund = len(geo.block_name_list) - geo.num_atmosphere_blocks
    res['init'] = res['bdy'] = None
    if j is not None:
        res['eos'] = 'OK\t%s\t%d' % (hx(j['eos']['name']), 1 if 'tracer' in j else 0)
        res['rocks'] = cells_line(j['rock']['types'])
        res['srcs'] = src_line(j.get('source', []))
        res['src_full'] = canon_json(j.get('source', []))
        res['src_ctx'] = ('tracer' in j, {'w': 1, 'we': 2, 'wce': 3, 'wae': 3}[j['eos']['name']], int(dat.parameter['option'][12]))
        res['init'] = init_line(j.get('initial', {}), nund)
        res['bdy'] = bdy_pairs(j.get('boundaries', []))
        res['json'] = j
        return res
    eosname, tracer = 'we', None
    try:
        with quiet(): ej, tracer = dat.eos_json(kw['eos'])
        eosname = ej['eos']['name']
        res['eos'] = 'OK\t%s\t%d' % (hx(eosname), 1 if tracer else 0)
    except Exception as e: res['eos'] = 'RAISE ' + exn_name(e)
    try:
        with quiet(): rj = dat.rocks_json(geo, kw['atmos_volume'], 'xyz')
        res['rocks'] = cells_line(rj['rock']['types'])
    except Exception as e: res['rocks'] = 'RAISE ' + exn_name(e)
    try:
        res['src_ctx'] = (bool(tracer), {'w': 1, 'we': 2, 'wce': 3, 'wae': 3}[eosname], int(dat.parameter['option'][12]))
        with quiet(): gj = dat.generators_json(geo, eosname, tracer)
        res['srcs'] = src_line(gj.get('source', []))
        res['src_full'] = canon_json(gj.get('source', []))
    except Exception as e: res['srcs'] = 'RAISE ' + exn_name(e); res['src_full'] = 'RAISE ' + exn_name(e)
    # initial conditions and boundaries: only a KeyError is the bookkeeping's own; anything else (short primaries,
    # missing centres, ...) leaves the piece uncompared
    try:
        with quiet(): eff = dat.effective_incons(None)
    except Exception: return res
    try:
        with quiet(): ij = dat.initial_json(geo, eff, eosname, tracer)
        res['init'] = init_line(ij.get('initial', {}), nund)
    except KeyError: res['init'] = 'RAISE KeyError'
    except Exception: pass
    try:
        with quiet(): bj = dat.boundaries_json(geo, eff, kw['atmos_volume'], eosname, 'xyz', tracer)
        res['bdy'] = bdy_pairs(bj.get('boundaries', []))
    except KeyError: res['bdy'] = 'RAISE KeyError'
    except Exception: pass
    return res
