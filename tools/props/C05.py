"""C05 -- listing tables hold exactly the numbers printed in the listing file.

tie: H, at two levels.
LINE level: the functions of t2listing.py that turn printed rows into cells (start_of_values,
parse_table_line, read_table_line_TOUGH2/AUTOUGH2, key_from_line) are hand-modelled in
coq/C05/Model.v; every call the real reader makes to them while opening and stepping through the
shipped listings (and value-perturbed copies) is captured from outside and replayed through the
extracted model.
FILE level: the whole reader (setup_pos, read_header, setup_table, next_table, setup_tables,
read_table, skip_table, read_tables, set_index; TOUGH2 family, TOUGH+ and AUTOUGH2) is hand-modelled
over a list of lines in coq/C05/Reader.v; t2listing(file, skip_tables) followed by index = i (positive
and negative) is run on the real reader and on the extracted model for every shipped listing, skipped
subsets, value-perturbed copies and the demonstration listing of Witness2.v, and table structures and
every cell are compared.  The listings are abstracted by an independent scan (c05_file.tag_lines) into
the generative shape of the whole-file theorem and the verified checker CheckT2.file_check decides
which of them the theorem applies to.
The oracle (c05_oracle.py) reads the files independently (Fortran token rule = the Coq specification
`fortran_tokens`, tied to its Python twin on every row) and evaluates the property statement on what
the reader exposes, at every result time reached by index, negative index, first/last, next/prev and
the time and step setters."""
import os, sys, json, struct, time, random, multiprocessing
import vf

HERE = os.path.dirname(os.path.abspath(__file__))
if HERE not in sys.path: sys.path.insert(0, HERE)
import c05_worker as W
import c05_oracle as O
import c05_file as F

FILE_CORR = 'open_listing+set_index(Coq Reader.v)-vs-t2listing'

NEG2 = 'start_of_values:fixed-point-first-number-then-signed-number'


def listing_files(repo):
    root = os.path.join(repo, 'tests', 'listing')
    out = []
    for d, _, fs in os.walk(root):
        for f in fs:
            if f.endswith('.npy') or f.endswith('~'): continue
            out.append(os.path.join(d, f))
    out.sort()
    return root, out


def make_jobs(ctx, files, root, deep=False):
    th = ctx.thorough or deep
    jobs = []
    if not deep:
        for f in files:
            jobs.append(dict(src=f, rel=os.path.relpath(f, root), subs=None, seed=0, times='all',
                             skips=64 if th else 16, addr_stride=1, tok_stride=1))
    if not deep:
        # the statement again, in a process that has used the other fixed-format readers first and with listings of the other
        # simulators open at the same time (each job runs in a process of its own)
        for f in files:
            rel = os.path.relpath(f, root)
            comp = [c for c in W.COMPANIONS if c != rel and os.path.exists(os.path.join(root, c))]
            random.Random(ctx.rng.randrange(1 << 30)).shuffle(comp)
            jobs.append(dict(src=f, rel=rel, subs=None, seed=0, times='all', skips=4 if th else 2, addr_stride=11, tok_stride=1000,
                             interference={'prelude': True, 'companions': comp}))
    plan = [('directed15', 2 if th else 1), ('directed-neg2', 2 if th else 1), ('dup-rows', 4 if th else 2), ('short-rows', 4 if th else 2), ('first-rows', 6 if th else 2),
            ('layout', 8 if th else 3), ('random', 70 if th else 7)]
    for f in files:
        rel = os.path.relpath(f, root)
        for mode, n in plan:
            for k in range(n):
                jobs.append(dict(src=f, rel=rel, subs=mode, seed=ctx.rng.randrange(1 << 30), times='all',
                                 skips=0, addr_stride=37, tok_stride=23, only_changed=True))
    return jobs


def model_canon(line):
    """canonical form of a model result line, comparable with the implementation side"""
    if line.startswith('V '):
        out = []
        body = line[2:]
        for t in (body.split(';') if body else []):
            if t.startswith('F '):
                _, ng, m, e = t.split(' ')
                out.append(W.fbits(float('%s%se%s' % ('-' if ng == '1' else '', m, e))))      # CPython strtod
            elif t.startswith('INF '): out.append(W.fbits(float('-inf' if t[4] == '1' else 'inf')))
            elif t == 'NAN': out.append('nan')
            else: out.append('?' + t)
        return 'V ' + ';'.join(out)
    return line


def correspond(ctx, exe, results):
    names = {'sov': 'start_of_values', 'ptl': 'parse_table_line', 'rt2': 'read_table_line_TOUGH2',
             'ra2': 'read_table_line_AUTOUGH2', 'kfl': 'key_from_line', 'tok': 'fortran_tokens(Coq)-vs-oracle-tokenizer'}
    seen, cases = set(), []
    for r in results:
        for c, e in r['cases'] + r['tok']:
            if c in seen: continue
            seen.add(c); cases.append((c, e, r['rel'], r.get('subs')))
    out = vf.run_driver(exe, [c[0] for c in cases])
    cnt = {}
    for (c, e, rel, subs), o in zip(cases, out):
        k = c[:3]
        cnt[k] = cnt.get(k, 0) + 1
        m = model_canon(o)
        if e.startswith('RAISE ') and m.startswith('RAISE '): e, m = 'RAISE', 'RAISE'
        if m != e:
            f = c.split('\t')
            ctx.disagreement(names[k], {'file': rel, 'subs': subs, 'kind': k, 'line': bytes.fromhex(f[1]).decode('latin-1'), 'args': f[2:]}, o, e)
    for k, n in cnt.items(): ctx.corr_cases(names[k], n)
    return cnt


def collect(ctx, results):
    tot = {}
    for r in results:
        st = r['stats']
        for k, v in st.items(): tot[k] = tot.get(k, 0) + v
        ctx.count((r['rel'], json.dumps(r.get('subs'))), nontrivial=bool(st.get('opened') or st.get('open_raises')))
        ctx.evaluations += st.get('rows', 0)
        for f in r['failures']:
            ctx.failure(f['oracle'], f['key'], f['input'], f['observed'], f['required'])
        if r.get('subs') and len(ctx.samples) < 6 and st.get('opened'):
            ctx.sample({'file': r['rel'], 'substitutions': r['subs'][:3], 'rows_checked': st.get('rows', 0)})
    return tot


def file_level(ctx, exe, files, root, results):
    """the whole reader against the extracted model, on shipped listings, the demonstration listing of Witness2.v and
    value-perturbed copies; and membership of the TOUGH2-family listings in the class of the whole-file theorem"""
    th = ctx.thorough
    jobs = []
    sims = {}
    for r in results:
        for k in r['stats']:
            if k.startswith('sim_'): sims[r['rel']] = k[4:]
    demo, err = W.run_exe(exe, ['demo\t-', 'demo\tA', 'demo\tP'])
    if demo is None or len(demo) != 3 or not all(demo):
        ctx.proof_failures.append({'kind': 'proof', 'name': 'demo-listing', 'detail': 'the driver did not return the demonstration listings: ' + err})
    else:
        jobs.append(dict(rel='(Witness2.v demo listing)', lines=demo[0].split(','), skips='all', fchk=True, exe=exe, sim='TOUGH2', size=0, demo=True))
        jobs.append(dict(rel='(Witness3.v AUTOUGH2 demo listing)', lines=demo[1].split(','), skips='all', fchk=True, exe=exe, sim='AUTOUGH2', size=0, demo=True))
        jobs.append(dict(rel='(Witness4.v TOUGH+ demo listing)', lines=demo[2].split(','), skips='all', fchk=True, exe=exe, sim='TOUGH+', size=0, demo=True))
    for f in files:
        rel = os.path.relpath(f, root)
        size = os.path.getsize(f)
        fam = True
        jobs.append(dict(rel=rel, src=f, skips='all' if th else ('some' if size < 400000 else 'none'), fchk=fam, exe=exe, sim=sims.get(rel), size=size))
    # value-perturbed copies (substitution lists found by the first pass), smaller files first
    var = [r for r in results if r.get('variant') and r.get('subs')]
    per_file = {}
    for r in var:
        k = per_file.get(r['rel'], 0)
        if k >= (6 if th else 1): continue
        src = os.path.join(root, r['rel'])
        if not th and os.path.getsize(src) >= 400000: continue
        per_file[r['rel']] = k + 1
        jobs.append(dict(rel=r['rel'], src=src, subs=r['subs'], skips='none', fchk=False, exe=exe, sim=sims.get(r['rel']), size=os.path.getsize(src)))
    jobs.sort(key=lambda j: -j['size'])
    with multiprocessing.Pool(vf.NPROC) as pool:
        out = pool.map(W.file_job, jobs, chunksize=1)
    ncase = cells = visits = 0
    inclass, outclass, general = [], {}, []
    for j, r in zip(jobs, out):
        if r['error']:
            ctx.proof_failures.append({'kind': 'correspondence', 'name': FILE_CORR, 'detail': '%s: %s' % (r['rel'], r['error'])})
            continue
        for run in r['runs']:
            ncase += 1
            if run['ndiffs']:
                d = run['diffs'][0]
                ctx.disagreement(FILE_CORR, {'file': None if j.get('demo') else r['rel'], 'subs': r['subs'], 'skip': run['skip'], 'indices': run['idxs'], 'what': d[0]},
                                 d[2], d[1])
        cells += r['cells']; visits += r['visits']
        if r['fchk'] is not None and not r['subs']:
            if r['fchk'].startswith('INCLASS') and 'class=general' in r['fchk']: general.append(r['rel'])
            if r['fchk'].startswith('INCLASS'): inclass.append(r['rel'])
            else: outclass[r['rel']] = r['fchk']
        if j.get('demo') and not (r['fchk'] or '').startswith('INCLASS'):
            ctx.proof_failures.append({'kind': 'correspondence', 'name': 'demo-listing-in-class', 'detail': str(r['fchk'])})
    ctx.corr_cases(FILE_CORR, ncase, result_set_visits=visits, cells_compared=cells, listings=len(jobs))
    ctx.hyp_met['listing_codec_law'] = {'tough2_family_and_autough2_listings_checked': len(inclass) + len(outclass),
                                        'in_a_class_of_the_theorems(file_check|tp_check|afile_check|g2_check=Some)': sorted(inclass),
                                        'of_these_only_in_the_general_class(g2_check: rows in any order, extra tables)': sorted(general),
                                        'outside_the_class': outclass}
    ctx.log('file level: %d open/index runs, %d result-set visits, %d cells; in class: %d, outside: %s' % (ncase, visits, cells, len(inclass), outclass))


ADR_CORR = 'listingtable.__getitem__(Coq Table.v)-vs-t2listing.listingtable'


def addressing_corr(ctx, exe):
    """the three ways of addressing a cell: the model of listingtable.__getitem__ (Table.v: integer index, column name, row key,
    reversed key) against the real class, on small tables with repeated row names, repeated column names, names that are both
    a row and a column, reversed keys present and absent"""
    import numpy as np
    import t2listing as T
    rng = random.Random(ctx.rng.randrange(1 << 30))
    n = 4000 if ctx.thorough else 600
    def name(): return ''.join(rng.choice('ABC') for _ in range(rng.choice([1, 2, 2])))
    def skey(k): return 's' + F.hx(k) if isinstance(k, str) else 't' + '.'.join(F.hx(x) for x in k)
    cases, impl = [], []
    dist = {'int': 0, 'column': 0, 'row': 0, 'reversed': 0, 'absent': 0, 'repeated_row_names': 0}
    for _ in range(n):
        ncol = rng.randint(1, 4); nrow = rng.randint(0, 5)
        cols = [name() for _ in range(ncol)]
        tup = rng.random() < 0.5
        rows = [tuple(name() for _ in range(rng.choice([2, 2, 1, 3]))) if tup else name() for _ in range(nrow)]
        if nrow and rng.random() < 0.5: rows[rng.randrange(nrow)] = rng.choice(rows)           # a repeated row name
        rev = rng.random() < 0.6
        u = rng.random()
        if u < 0.35: key = rng.randint(0, nrow)
        elif u < 0.5: key = rng.choice(cols)
        elif u < 0.75 and rows: key = rng.choice(rows)
        elif u < 0.9 and rows: key = rng.choice(rows)[::-1]
        else: key = tuple(name() for _ in range(2)) if tup else name()
        tab = T.listingtable(list(cols), list(rows), num_keys=2 if tup else 1, allow_reverse_keys=rev)
        for i in range(nrow):
            for j in range(ncol): tab._data[i, j] = 1000 * i + j + 1
        try: r = tab[key]
        except Exception as e: out = 'RAISE ' + type(e).__name__
        else:
            if r is None: out = 'NONE'
            elif isinstance(r, dict): out = 'ROW %s %s' % (skey(r['key']), ','.join(str(int(r[c])) for c in cols))
            else: out = 'COL ' + ','.join(str(int(x)) for x in r)
        cases.append('adr\t%s\t%s\t%d\t%s' % (','.join(F.hx(c) for c in cols), ','.join(skey(k) for k in rows), 1 if rev else 0,
                                               'i%d' % key if isinstance(key, int) else skey(key)))
        impl.append((out, {'cols': cols, 'rows': [list(k) if tup else k for k in rows], 'allow_reverse_keys': rev, 'key': key if not isinstance(key, tuple) else list(key)}))
        kind = 'int' if isinstance(key, int) else 'column' if key in cols else 'row' if key in rows else 'reversed' if key[::-1] in rows and len(key) > 1 and rev else 'absent'
        dist[kind] += 1
        if len(set(rows)) != len(rows): dist['repeated_row_names'] += 1
    outs = vf.run_driver(exe, cases)
    for o, (e, case) in zip(outs, impl):
        if o != e: ctx.disagreement(ADR_CORR, case, o, e)
    ctx.corr_cases(ADR_CORR, len(cases), **dist)


def preload():
    """the modules are imported before the pool forks, so that a fresh process per job costs no import time"""
    import numpy, t2listing, t2incons, t2data, mulgrids      # noqa


def run_pool(jobs):
    preload()
    with multiprocessing.Pool(vf.NPROC, maxtasksperchild=1) as pool:
        return pool.map(W.process, jobs, chunksize=1)


def run(ctx):
    ctx.rule = ('all 37 shipped listing files (tests/listing/**, 6 simulators) x every result time x '
                'every exposed table x every row; skip_tables subsets (quick: first 16 by size; thorough: all <= 2^5); value-perturbed copies in '
                'which printed numbers are rewritten in place by numbers of the same printed form and field width (other digits, zero, negative / '
                'positive, no-letter 3-digit exponent, back to E form), chosen at random (1..60 cells per copy, first/last column biased) and '
                'directed at the first row of each table, at the layout (longest) row and at an abutting cell of the layout row; every result '
                'time is reached by index = i and again by index = i - n, first()/last(), next()/prev(), time and step setters (exact values and '
                'values outside the range), each from another position; a case is distinct by (file, substitution list)')
    ctx.trusted += ['Coq 8.16.1 kernel (coqc); vm_compute only on closed terms',
                    'hand model coq/C05/Model.v of start_of_values / parse_table_line / read_table_line_* / key_from_line (line-level transcription, replayed against every captured call of the real reader on this run)',
                    'hand model coq/C05/Reader.v of the file-level reader (all simulator families; lines as readline() returns them, positions as remaining lines), run against t2listing(file, skip_tables) + index = i on every shipped listing, skipped subsets and perturbed copies on this run; the simulator name is taken from the real reader (detect_simulator is not modelled)',
                    'tools/props/c05_file.py tag_lines (independent abstraction of a listing into result sets / tables / rows): only proposes; coq/C05/CheckT2.v file_check (proved sound) and the equality file_from(sets) = lines decide',
                    'PTBase.PyStr / PyNum and PTModel.Fortran (fortran_float, proved equal to the AST translation of fixed_format_file.fortran_float by C16)',
                    'extraction: ExtrOcamlBasic + ExtrOcamlString, OCaml 4.13.1, ocaml/main.ml',
                    "CPython's strtod (decimal text -> double), identical on both sides of every comparison",
                    'the oracle reader tools/props/c05_oracle.py (independent of PyTOUGH; its token rule is tied to the Coq specification fortran_tokens on every row)']
    ctx.assumptions += ['listing text is ASCII (str.isdigit / whitespace on non-ASCII latin-1 characters are outside the model)',
                        'file-level theorems are proved for the TOUGH2 family (TOUGH2, TOUGH3, TOUGHREACT) on listings of the generative shape of coq/C05/FileT2.v (uniform result sets, strictly increasing printed indices, tables ending in an @@@@@ separator, no EOS7c mass-flow block); TOUGH2-MP, TOUGH+ and AUTOUGH2 readers are modelled and run against the implementation but not proved about',
                        'simulator detection, setup_short_indices and history() are outside the file-level model',
                        'rows printed more than once (TOUGH2-MP border rows, repeated AUTOUGH2 rows): the exposed row must equal one of the printed rows with that key']
    root, files = listing_files(ctx.repo)
    if len(files) != 37: ctx.log('note: %d listing files found (37 expected)' % len(files))
    jobs = make_jobs(ctx, files, root)
    ctx.stage()
    preload()
    pool = multiprocessing.Pool(vf.NPROC, maxtasksperchild=1)   # forked before any thread exists; one process per job: no job sees the state another left
    async_res = pool.map_async(W.process, jobs, chunksize=1)
    ok = ctx.coq_build(props=('Props.v', 'Props2.v', 'Props3.v', 'Props4.v', 'Props5.v', 'Props6.v'), timeout=1500)
    exe = vf.build_driver(ctx) if os.path.exists(os.path.join(ctx.build, 'Drv.ml')) else None
    if exe is None and ok:
        ctx.proof_failures.append({'kind': 'proof', 'name': 'extraction', 'detail': 'Drv.ml was not produced'})
    results = async_res.get(timeout=3000)
    pool.close(); pool.join()
    ctx.log('implementation side done: %d files/variants' % len(results))
    tot = collect(ctx, results)
    if exe:
        cnt = correspond(ctx, exe, results)
        ctx.log('correspondence cases:', cnt)
        file_level(ctx, exe, files, root, results)
        addressing_corr(ctx, exe)
    itf = [r for r in results if r.get('interference')]
    ctx.oracle_cases('with-other-activity', len(itf), rows=sum(r['stats'].get('rows', 0) for r in itf),
                     companions_open=sum(r['stats'].get('companions_open', 0) for r in itf), routes=sum(r['stats'].get('routes', 0) for r in itf))
    plain = [r for r in results if not r.get('variant') and not r.get('interference')]
    var = [r for r in results if r.get('variant') and r.get('subs')]
    ctx.oracle_cases('shipped-listings', len(plain), rows=sum(r['stats'].get('rows', 0) for r in plain),
                     cells=sum(r['stats'].get('cells', 0) for r in plain), tables=sum(r['stats'].get('tables', 0) for r in plain),
                     skip_runs=sum(r['stats'].get('skip_runs', 0) for r in plain),
                     skip_table_comparisons=sum(r['stats'].get('skip_table_comparisons', 0) for r in plain),
                     addressing_rows=sum(r['stats'].get('addr_rows', 0) for r in plain),
                     reversed_keys=sum(r['stats'].get('reverse_keys', 0) for r in plain))
    ctx.oracle_cases('value-perturbed-variants', len(var), rows=sum(r['stats'].get('rows', 0) for r in var),
                     opened=sum(r['stats'].get('opened', 0) for r in var), open_raises=sum(r['stats'].get('open_raises', 0) for r in var),
                     substitutions={k[4:]: v for k, v in tot.items() if k.startswith('sub_')})
    ctx.oracle_cases('opens', tot.get('opened', 0) + tot.get('open_raises', 0))
    ctx.oracle_cases('rows', tot.get('tables', 0))
    ctx.oracle_cases('cells', tot.get('cells', 0))
    ctx.oracle_cases('skip-tables', tot.get('skip_table_comparisons', 0))
    ctx.oracle_cases('addressing', tot.get('addr_rows', 0) + tot.get('reverse_keys', 0))
    ctx.oracle_cases('navigation', tot.get('routes', 0), table_comparisons=tot.get('route_table_comparisons', 0),
                     kinds={k[6:]: v for k, v in tot.items() if k.startswith('route_') and k != 'route_table_comparisons'})
    ctx.extra['input_distribution'] = {k: v for k, v in sorted(tot.items())}
    ctx.hyp_met['inferred_layout_is_true_layout'] = {'layout_lines_of_shipped_tables': tot.get('layout_lines', 0),
                                                     'side_condition_met': tot.get('layout_sidecond_met', 0)}
    ctx.hyp_met['cells_decode'] = {'rows_with_all_cells_inside_inferred_fields': tot.get('rows_in_layout', 0), 'rows': tot.get('rows_layout_checked', 0)}

    def deep(broken):
        rng_jobs = make_jobs(ctx, files, root, deep=True)
        t0 = time.time()
        cap = 900 if ctx.thorough else 60
        for i in range(0, len(rng_jobs), 64):
            if time.time() - t0 > cap or ctx.new_failures: break
            collect(ctx, run_pool(rng_jobs[i:i + 64]))
    return ctx.finish(deep_search=deep)


def replay(ctx, data):
    inp = data.get('input') or {}
    rel = inp.get('file')
    if not rel: return True
    root, files = listing_files(ctx.repo)
    src = os.path.join(root, rel)
    job = dict(src=src, rel=rel, subs=inp.get('subs'), seed=0, times='all', skips=0, addr_stride=1, tok_stride=1000,
               interference=inp.get('interference'))
    if inp.get('skip'): job['skip_sets'] = [inp['skip']]
    r = W.process(job)
    key = data.get('finding_key')
    hits = [f for f in r['failures'] if key is None or f['key'] == key]
    for f in (hits or r['failures'])[:3]:
        print('replay: %s %s observed: %s ; required: %s' % (f['key'], json.dumps(f['input'])[:300], f['observed'][:200], f['required'][:200]))
    if not r['failures']: print('replay: the reader now agrees with the printed file on', rel)
    return bool(hits)
