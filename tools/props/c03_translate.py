"""C03 translator (T): literal data of the MULgraph reader/writer, by AST walk of
mulgrids.py (the module is never imported for this).  Fail-closed: any shape other than
the one the hand model (coq/C03/MulgridIO.v) follows raises Refusal.

Emitted (Gen/GenMulgrid.v):
  read_dispatch     keyword -> reader method      (the dict `read_fn` in mulgrid.read)
  keyword_len       the 5 of `line[0:5].rstrip()`
  supported_type    the 'GENER' of `if self.type == 'GENER'`
  write_sequence    order and guards of the write_* calls in mulgrid.write
  section_titles    the literal each write_* method starts its section with
  name_ljust        the 3 of `name.ljust(3)` in the writers
  colname_lengths / layername_lengths   (set_secondary_variables)
  unit_scales       {'': 1.0, 'FEET ': 0.3048} as exact doubles (set_unit_type)
  block_orders      {0: 'layer_column', 1: 'dmplex'} (read_header)
  ctor_*            constructor defaults of mulgrid.__init__
  pad_length        default length of padstring
"""
import ast, os
from translate.tables import Refusal, coq_string, coq_z

KNOWN_HEADER_KEYS = ['type', '_convention', '_atmosphere_type', 'atmosphere_volume', 'atmosphere_connection',
                     '_unit_type', 'gdcx', 'gdcy', 'cntype', 'permeability_angle', '_block_order_int']
READERS = ['read_nodes', 'read_columns', 'read_connections', 'read_layers', 'read_surface', 'read_wells']
WRITERS = ['write_nodes', 'write_columns', 'write_connections', 'write_layers', 'write_surface', 'write_wells']


def dyadic(x):
    """exact double -> (m, e) with x = m * 2**e, m >= 0 odd (or 0)"""
    if not isinstance(x, float) or x != x or x in (float('inf'), float('-inf')) or x < 0:
        raise Refusal('float literal %r outside the model' % (x,))
    if x == 0: return 0, 0
    n, d = x.as_integer_ratio()
    e = 0
    if d > 1: e = -(d.bit_length() - 1)
    else:
        while n % 2 == 0: n //= 2; e += 1
    return n, e


class Walk:
    def __init__(self, repo):
        self.path = os.path.join(repo, 'mulgrids.py')
        self.tree = ast.parse(open(self.path).read(), self.path)
        self.cls = None
        for n in self.tree.body:
            if isinstance(n, ast.ClassDef) and n.name == 'mulgrid': self.cls = n
        if self.cls is None: raise Refusal('%s: class mulgrid not found' % self.path)
        self.methods = {}
        for n in self.cls.body:
            if isinstance(n, ast.FunctionDef): self.methods[n.name] = n

    def refuse(self, node, msg):
        raise Refusal('%s:%s: %s' % (self.path, getattr(node, 'lineno', '?'), msg))

    def method(self, name):
        if name not in self.methods: raise Refusal('%s: mulgrid.%s not found' % (self.path, name))
        return self.methods[name]

    @staticmethod
    def body(fn):
        b = list(fn.body)
        if b and isinstance(b[0], ast.Expr) and isinstance(b[0].value, ast.Constant) and isinstance(b[0].value.value, str):
            b = b[1:]      # docstring
        return b

    @staticmethod
    def is_self_attr(n, attr=None):
        return isinstance(n, ast.Attribute) and isinstance(n.value, ast.Name) and n.value.id == 'self' and (attr is None or n.attr == attr)

    def const(self, n, types):
        if isinstance(n, ast.UnaryOp) and isinstance(n.op, ast.USub) and isinstance(n.operand, ast.Constant):
            v = n.operand.value
            if isinstance(v, (int, float)) and not isinstance(v, bool): v = -v
            else: self.refuse(n, 'unary minus on a non-number')
        elif isinstance(n, ast.Constant): v = n.value
        else: self.refuse(n, 'expected a literal, found %s' % type(n).__name__)
        if isinstance(v, bool) or not isinstance(v, types): self.refuse(n, 'literal %r is not of type %s' % (v, types))
        return v

    # ---- read(): dispatch dictionary, keyword slice, supported type ----
    def read_dispatch(self):
        fn = self.method('read')
        disp = klen = typ = None
        for n in ast.walk(fn):
            if isinstance(n, ast.Assign) and len(n.targets) == 1 and isinstance(n.targets[0], ast.Name):
                tgt = n.targets[0].id
                if tgt == 'read_fn':
                    if not isinstance(n.value, ast.Dict): self.refuse(n, 'read_fn is not a dict literal')
                    disp = []
                    for k, v in zip(n.value.keys, n.value.values):
                        key = self.const(k, str)
                        if not self.is_self_attr(v): self.refuse(v, 'read_fn value is not self.<method>')
                        if v.attr not in READERS: self.refuse(v, 'reader %s is not modelled' % v.attr)
                        if key in [d[0] for d in disp]: self.refuse(k, 'duplicate keyword %r' % key)
                        disp.append((key, v.attr))
                elif tgt == 'keyword':
                    v = n.value      # line[0:5].rstrip()
                    ok = (isinstance(v, ast.Call) and not v.args and isinstance(v.func, ast.Attribute) and v.func.attr == 'rstrip'
                          and isinstance(v.func.value, ast.Subscript) and isinstance(v.func.value.value, ast.Name)
                          and v.func.value.value.id == 'line' and isinstance(v.func.value.slice, ast.Slice)
                          and v.func.value.slice.step is None)
                    if not ok: self.refuse(n, 'keyword is not line[a:b].rstrip()')
                    lo, hi = v.func.value.slice.lower, v.func.value.slice.upper
                    if lo is not None and self.const(lo, int) != 0: self.refuse(n, 'keyword slice does not start at 0')
                    klen = self.const(hi, int)
            if isinstance(n, ast.If) and isinstance(n.test, ast.Compare) and self.is_self_attr(n.test.left, 'type') \
                    and len(n.test.ops) == 1 and isinstance(n.test.ops[0], ast.Eq):
                typ = self.const(n.test.comparators[0], str)
        if disp is None or klen is None or typ is None:
            self.refuse(fn, 'mulgrid.read: dispatch dictionary / keyword slice / type test not found')
        # `line = geo.readline().strip()` before the slice, `read_fn[keyword](geo)` after it: shape check
        src = ast.dump(fn)
        for needle in ("attr='strip'", "attr='readline'"):
            if needle not in src: self.refuse(fn, 'mulgrid.read: %s not found' % needle)
        return disp, klen, typ

    # ---- write(): sequence of section writers ----
    def write_sequence(self):
        fn = self.method('write')
        seq, final = [], None
        for st in self.body(fn):
            if isinstance(st, ast.Expr) and isinstance(st.value, ast.Call):
                c = st.value
                if self.is_self_attr(c.func) and c.func.attr.startswith('write_'):
                    seq.append(('always', c.func.attr))
                elif isinstance(c.func, ast.Attribute) and isinstance(c.func.value, ast.Name) and c.func.value.id == 'geo':
                    if c.func.attr == 'write':
                        if final is not None: self.refuse(st, 'second geo.write in mulgrid.write')
                        final = self.const(c.args[0], str)
                        seq.append(('always', 'final'))
                    elif c.func.attr != 'close': self.refuse(st, 'unexpected geo.%s' % c.func.attr)
                else: self.refuse(st, 'unexpected call in mulgrid.write')
            elif isinstance(st, ast.If):
                inner = [s for s in st.body]
                if len(inner) == 1 and isinstance(inner[0], ast.Expr) and isinstance(inner[0].value, ast.Call) \
                        and self.is_self_attr(inner[0].value.func) and inner[0].value.func.attr.startswith('write_') and not st.orelse:
                    t = st.test
                    if isinstance(t, ast.UnaryOp) and isinstance(t.op, ast.Not) and self.is_self_attr(t.operand, 'default_surface'):
                        guard = 'not_default_surface'
                    elif isinstance(t, ast.Compare) and self.is_self_attr(t.left, 'num_wells') and len(t.ops) == 1 \
                            and isinstance(t.ops[0], ast.Gt) and self.const(t.comparators[0], int) == 0:
                        guard = 'has_wells'
                    else: self.refuse(st, 'guard of %s is not one the model knows' % inner[0].value.func.attr)
                    seq.append((guard, inner[0].value.func.attr))
                else:
                    # the two filename defaults: `if filename: self.filename = filename`, `if self.filename == '': ...`
                    ok = all(isinstance(s, ast.Assign) and len(s.targets) == 1 and self.is_self_attr(s.targets[0], 'filename') for s in inner)
                    if not ok or st.orelse: self.refuse(st, 'unexpected if in mulgrid.write')
            elif isinstance(st, ast.Assign) and len(st.targets) == 1 and isinstance(st.targets[0], ast.Name) and st.targets[0].id == 'geo':
                pass
            else: self.refuse(st, 'unexpected statement in mulgrid.write')
        if final is None: self.refuse(fn, 'mulgrid.write: no final geo.write')
        return seq, final

    # ---- write_*: section title, terminator, name justification ----
    def section_titles(self):
        titles, lj = [], set()
        for w in WRITERS:
            fn = self.method(w)
            b = self.body(fn)

            def geo_write_literal(st):
                if isinstance(st, ast.Expr) and isinstance(st.value, ast.Call):
                    c = st.value
                    if isinstance(c.func, ast.Attribute) and c.func.attr == 'write' and isinstance(c.func.value, ast.Name) \
                            and c.func.value.id == 'geo' and len(c.args) == 1 and isinstance(c.args[0], ast.Constant):
                        return c.args[0].value
                return None
            first, last = geo_write_literal(b[0]), geo_write_literal(b[-1])
            if not isinstance(first, str) or not first.endswith('\n') or '\n' in first[:-1]:
                self.refuse(fn, '%s does not start with geo.write(<title line>)' % w)
            if last != '\n': self.refuse(fn, "%s does not end with geo.write('\\n')" % w)
            if len(b) != 3 or not isinstance(b[1], ast.For): self.refuse(fn, '%s is not title / for loop / blank line' % w)
            titles.append((w, first[:-1]))
            for n in ast.walk(fn):
                if isinstance(n, ast.Call) and isinstance(n.func, ast.Attribute) and n.func.attr == 'ljust':
                    lj.add(self.const(n.args[0], int))
        if len(lj) != 1: self.refuse(self.cls, 'writers justify names to different lengths %s' % sorted(lj))
        return titles, lj.pop()

    def index_table(self, fn, attr):
        """self.<attr> = [..ints..][self.convention]"""
        for n in ast.walk(fn):
            if isinstance(n, ast.Assign) and len(n.targets) == 1 and self.is_self_attr(n.targets[0], attr):
                v = n.value
                if isinstance(v, ast.Subscript) and isinstance(v.value, ast.List) and self.is_self_attr(v.slice, 'convention'):
                    return [self.const(e, int) for e in v.value.elts]
                self.refuse(n, 'self.%s is not <list literal>[self.convention]' % attr)
        self.refuse(fn, 'assignment to self.%s not found' % attr)

    def dict_in(self, fn, pred, what):
        for n in ast.walk(fn):
            if isinstance(n, ast.Dict) and pred(n):
                return [(self.const(k, (str, int)), self.const(v, (str, int, float))) for k, v in zip(n.keys, n.values)]
        self.refuse(fn, what + ' not found')

    def ctor_defaults(self):
        fn = self.method('__init__')
        a = fn.args
        names = [x.arg for x in a.args]
        defaults = dict(zip(names[len(names) - len(a.defaults):], a.defaults))
        out = {}
        for arg, ty in (('type', str), ('convention', int), ('atmos_type', int), ('atmos_volume', float),
                        ('atmos_connection', float), ('unit_type', str), ('permeability_angle', float)):
            if arg not in defaults: self.refuse(fn, 'mulgrid.__init__ has no default for %s' % arg)
            out[arg] = self.const(defaults[arg], ty)
        # attribute <- argument wiring and the None attributes
        wiring = {'type': 'type', '_convention': 'convention', '_atmosphere_type': 'atmos_type', 'atmosphere_volume': 'atmos_volume',
                  'atmosphere_connection': 'atmos_connection', 'unit_type': 'unit_type', 'permeability_angle': 'permeability_angle'}
        nones = {'gdcx', 'gdcy', 'cntype', '_block_order_int'}
        seen_w, seen_n = set(), set()
        for st in self.body(fn):
            if not isinstance(st, ast.Assign) or len(st.targets) != 1: continue
            t, v = st.targets[0], st.value
            if isinstance(t, ast.Tuple) and isinstance(v, ast.Tuple):
                pairs = list(zip(t.elts, v.elts))
            else: pairs = [(t, v)]
            for tt, vv in pairs:
                if not self.is_self_attr(tt): continue
                if tt.attr in wiring:
                    if not (isinstance(vv, ast.Name) and vv.id == wiring[tt.attr]): self.refuse(st, 'self.%s is not set from argument %s' % (tt.attr, wiring[tt.attr]))
                    seen_w.add(tt.attr)
                if tt.attr in nones:
                    if not (isinstance(vv, ast.Constant) and vv.value is None): self.refuse(st, 'self.%s is not initialised to None' % tt.attr)
                    seen_n.add(tt.attr)
        if seen_w != set(wiring) or seen_n != nones:
            self.refuse(fn, 'mulgrid.__init__: attribute initialisation differs from the model (%s, %s)' % (sorted(set(wiring) - seen_w), sorted(nones - seen_n)))
        return out

    def pad_length(self):
        for n in self.tree.body:
            if isinstance(n, ast.FunctionDef) and n.name == 'padstring':
                a = n.args
                b = self.body(n)
                ok = (len(a.args) == 2 and len(a.defaults) == 1 and len(b) == 1 and isinstance(b[0], ast.Return)
                      and isinstance(b[0].value, ast.Call) and isinstance(b[0].value.func, ast.Attribute) and b[0].value.func.attr == 'ljust')
                if not ok: self.refuse(n, 'padstring is not `return s.ljust(length)`')
                return self.const(a.defaults[0], int)
        raise Refusal('%s: padstring not found' % self.path)


def coq_list(items):
    return '[' + '; '.join(items) + ']'


def gen_mulgrid(repo, header_names):
    w = Walk(repo)
    for n in header_names:
        if n not in KNOWN_HEADER_KEYS:
            raise Refusal("header field %r is not an attribute in the model of mulgrid.__dict__ (known: %s)" % (n, KNOWN_HEADER_KEYS))
    disp, klen, typ = w.read_dispatch()
    seq, final = w.write_sequence()
    if final != '\n': raise Refusal('mulgrid.write: final write is %r' % final)
    titles, lj = w.section_titles()
    cl = w.index_table(w.method('set_secondary_variables'), 'colname_length')
    ll = w.index_table(w.method('set_secondary_variables'), 'layername_length')
    us = w.dict_in(w.method('set_unit_type'), lambda d: all(isinstance(k, ast.Constant) and isinstance(k.value, str) for k in d.keys), 'unit scale dictionary')
    bo = w.dict_in(w.method('read_header'), lambda d: all(isinstance(k, ast.Constant) and isinstance(k.value, int) for k in d.keys), 'block_orders dictionary')
    boi = w.dict_in(w.method('set_block_order_int'), lambda d: all(isinstance(k, ast.Constant) and isinstance(k.value, str) for k in d.keys), 'block_order_ints dictionary')
    if sorted((v, k) for k, v in boi) != sorted(bo): raise Refusal('block_orders %r is not the inverse of block_order_ints %r' % (bo, boi))
    cd = w.ctor_defaults()
    pl = w.pad_length()
    out = ['(* GENERATED by tools/props/c03_translate.py from the current mulgrids.py -- do not edit *)',
           'From Coq Require Import Ascii String List Bool ZArith.', 'Import ListNotations.',
           'Open Scope string_scope.', 'Open Scope Z_scope.', '']
    out.append('Definition read_dispatch : list (string * string) := %s.' % coq_list('(%s, %s)' % (coq_string(k), coq_string(m)) for k, m in disp))
    out.append('Definition keyword_len : nat := %d%%nat.' % klen)
    out.append('Definition supported_type : string := %s.' % coq_string(typ))
    out.append('Definition write_sequence : list (string * string) := %s.' % coq_list('(%s, %s)' % (coq_string(g), coq_string(m)) for g, m in seq))
    out.append('Definition section_titles : list (string * string) := %s.' % coq_list('(%s, %s)' % (coq_string(m), coq_string(t)) for m, t in titles))
    out.append('Definition name_ljust : nat := %d%%nat.' % lj)
    out.append('Definition colname_lengths : list Z := %s.' % coq_list(coq_z(x) for x in cl))
    out.append('Definition layername_lengths : list Z := %s.' % coq_list(coq_z(x) for x in ll))
    us2 = []
    for k, v in us:
        if not isinstance(k, str) or not isinstance(v, float): raise Refusal('unit scale entry %r: %r' % (k, v))
        m, e = dyadic(v)
        us2.append('(%s, (%s, %s))' % (coq_string(k), coq_z(m), coq_z(e)))
    out.append('Definition unit_scales : list (string * (Z * Z)) := %s.' % coq_list(us2))
    out.append('Definition block_orders : list (Z * string) := %s.' % coq_list('(%s, %s)' % (coq_z(k), coq_string(v)) for k, v in bo))
    out.append('Definition ctor_type : string := %s.' % coq_string(cd['type']))
    out.append('Definition ctor_convention : Z := %s.' % coq_z(cd['convention']))
    out.append('Definition ctor_atmos_type : Z := %s.' % coq_z(cd['atmos_type']))
    for nm in ('atmos_volume', 'atmos_connection', 'permeability_angle'):
        m, e = dyadic(cd[nm])
        out.append('Definition ctor_%s : Z * Z := (%s, %s).' % (nm, coq_z(m), coq_z(e)))
    out.append('Definition ctor_unit_type : string := %s.' % coq_string(cd['unit_type']))
    out.append('Definition pad_length : nat := %d%%nat.' % pl)
    data = {'read_dispatch': disp, 'keyword_len': klen, 'supported_type': typ, 'write_sequence': seq, 'section_titles': titles,
            'name_ljust': lj, 'colname_lengths': cl, 'layername_lengths': ll, 'unit_scales': us, 'block_orders': bo,
            'ctor': cd, 'pad_length': pl}
    return '\n'.join(out) + '\n', data
