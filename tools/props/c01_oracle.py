"""C01 oracle: the property statement evaluated on the implementation alone.

A *spec* (plain JSON-able dict) describes a data object and a configuration (flavour, mesh
placement, extra precision).  `run_spec` builds the object through the public API, writes
it, reads it back, and requires
  1. the re-read object lists the same sections in the same order (mesh sections are
     compared only when the mesh is in the main file);
  2. every section's content equals what was written, to the digits its field carries
     (reals are compared with the value of their own field text, computed here with
     `decimal`, independently of the implementation's formatting);
  3. writing the re-read object reproduces the first files up to trailing blanks;
  4. every further read/write cycle reproduces the files byte for byte.
Nothing here imports the Coq model."""
import os, math, shutil, tempfile, json, glob, io, contextlib
from decimal import Decimal, ROUND_HALF_EVEN, localcontext

SECTIONS = ['SIMUL', 'ROCKS', 'PARAM', 'MOMOP', 'START', 'NOVER', 'RPCAP', 'LINEQ', 'SOLVR', 'MULTI', 'TIMES', 'SELEC', 'DIFFU',
            'ELEME', 'CONNE', 'MESHM', 'GENER', 'SHORT', 'FOFT', 'COFT', 'GOFT', 'INCON', 'INDOM']
XP_SECTIONS = ['ROCKS', 'ELEME', 'CONNE', 'RPCAP', 'GENER']
# a section may only be read after these (their objects are looked up while reading)
DEPENDS = {'ELEME': ['ROCKS'], 'CONNE': ['ELEME'], 'SHORT': ['ELEME', 'CONNE', 'GENER'], 'FOFT': ['ELEME'], 'GOFT': ['ELEME'],
           'COFT': ['CONNE'], 'DIFFU': ['MULTI'], 'INDOM': [], 'INCON': []}


class OutOfDomain(Exception):
    """The value does not fit its field at any precision (the statement does not cover it)."""


# ------------------------------------------------------------------ field carrying
def parse_spec(s):
    fmt, typ = s[:-1], s[-1]
    w = abs(int(fmt.partition('.')[0]))
    p = fmt.partition('.')[2]
    return w, (int(p) if p else None), typ


def _sci_text(v, q):
    """'%.{q}e' % v, computed with exact decimal arithmetic (round-half-even on the exact binary value)"""
    neg = math.copysign(1.0, v) < 0
    if v == 0:
        body = '0' + ('.' + '0' * q if q > 0 else '') + 'e+00'
        return ('-' if neg else '') + body
    with localcontext() as c:
        c.prec = 1400
        d = Decimal(abs(v))
        e = d.adjusted()
        m = d.scaleb(-e)
        mq = m.quantize(Decimal(1).scaleb(-q), rounding=ROUND_HALF_EVEN)
        if mq >= 10:
            e += 1
            mq = (mq / 10).quantize(Decimal(1).scaleb(-q), rounding=ROUND_HALF_EVEN)
        ms = format(mq, 'f')
    es = '%s%02d' % ('-' if e < 0 else '+', abs(e))
    return ('-' if neg else '') + ms + 'e' + es


def _fix_text(v, q):
    neg = math.copysign(1.0, v) < 0
    with localcontext() as c:
        c.prec = 1400
        d = Decimal(abs(v)).quantize(Decimal(1).scaleb(-q), rounding=ROUND_HALF_EVEN)
        ms = format(d, 'f')
    return ('-' if neg else '') + ms


def carry_real(v, spec):
    """The double a real field of this spec carries for v: the value of the text written at
    the largest precision <= p that fits the width."""
    w, p, typ = parse_spec(spec)
    if p is None: p = 6
    v = float(v)
    if v != v or v in (math.inf, -math.inf): raise OutOfDomain('non-finite')
    for q in range(p, -1, -1):
        txt = _sci_text(v, q) if typ == 'e' else _fix_text(v, q)
        if len(txt) <= w: return float(txt)
    raise OutOfDomain('%r does not fit %s' % (v, spec))


def carry(v, spec):
    """What a field written from v must read back as (None stays None)."""
    w, p, typ = parse_spec(spec)
    if v is None or typ == 'x': return None
    if typ in 'ef': return carry_real(v, spec)
    if typ == 'd':
        if len('%d' % v) > w: raise OutOfDomain('%r does not fit %s' % (v, spec))
        return int(v)
    if typ == 's':
        if len(v) > w: raise OutOfDomain('%r does not fit %s' % (v, spec))
        return v
    raise OutOfDomain(spec)


# ------------------------------------------------------------------ building the object
def build(spec):
    """spec -> t2data object, through the public constructors / attributes."""
    from t2data import t2data, t2generator
    from t2grids import rocktype, t2block, t2connection
    import numpy as np
    from copy import deepcopy
    dat = t2data()
    dat.title = spec['title']
    dat.simulator = spec['simulator']
    # grid_edits: the object reaches the state the spec describes through public edits of the grid (see c01_gen.add_grid_edits)
    ed = spec.get('grid_edits') or {}
    ren = ed.get('rename_rock')
    built_as = {}
    for i in ed.get('rock_build_order') or range(len(spec['rocks'])):
        r = spec['rocks'][i]
        name = ren[1] if ren and ren[0] == i else r['name']
        built_as[r['name']] = name
        rt = rocktype(name, r['nad'], r['density'], r['porosity'], list(r['permeability']), r['conductivity'], r['specific_heat'])
        for k, v in r.get('extra', {}).items(): setattr(rt, k, v)
        if r.get('relperm') is not None: rt.relative_permeability = deepcopy(r['relperm'])
        if r.get('cap') is not None: rt.capillarity = deepcopy(r['cap'])
        dat.grid.add_rocktype(rt)
    for i in ed.get('block_build_order') or range(len(spec['blocks'])):
        b = spec['blocks'][i]
        dat.grid.add_block(t2block(b['name'], b['volume'], dat.grid.rocktype[built_as[b['rock']]],
                                   centre=None if b['centre'] is None else np.array(b['centre'], dtype=float),
                                   ahtx=b['ahtx'], pmx=b['pmx'], nseq=b['nseq'], nadd=b['nadd']))
    for i in ed.get('conn_build_order') or range(len(spec['conns'])):
        c = spec['conns'][i]
        dat.grid.add_connection(t2connection([dat.grid.block[c['b1']], dat.grid.block[c['b2']]], c['direction'], list(c['distance']),
                                             c['area'], c['dircos'], c['sigma'], c['nseq'], c['nad1'], c['nad2']))
    if ren: dat.grid.rename_rocktype(ren[1], spec['rocks'][ren[0]]['name'])
    if ed.get('rock_build_order'): dat.grid.sort_rocktypes()
    if ed.get('block_build_order'):
        dat.grid.reorder(block_names=[b['name'] for b in spec['blocks']],
                         connection_names=[(c['b1'], c['b2']) for c in spec['conns']] if ed.get('conn_build_order') else None)
    p = spec.get('parameter')
    if p is not None:
        for k, v in p.items():
            if k == 'option': dat.parameter['option'] = np.array([0] + list(v), np.int8)
            else: dat.parameter[k] = deepcopy(v)
    if spec.get('more_option') is not None: dat.more_option = np.array([0] + list(spec['more_option']), np.int8)
    dat.start = bool(spec.get('start'))
    dat.noversion = bool(spec.get('noversion'))
    if spec.get('relperm') is not None: dat.relative_permeability = deepcopy(spec['relperm'])
    if spec.get('cap') is not None: dat.capillarity = deepcopy(spec['cap'])
    for k in ('lineq', 'solver', 'multi', 'output_times', 'selection'):
        if spec.get(k): setattr(dat, k, deepcopy(spec[k]))
    if spec.get('diffusion'): dat.diffusion = deepcopy(spec['diffusion'])
    for mm in spec.get('meshmaker', []):
        st, body = mm
        if st == 'rz2d': dat.meshmaker.append(('rz2d', [(k, deepcopy(d)) for k, d in body]))
        elif st == 'xyz': dat.meshmaker.append(('xyz', deepcopy(body)))
        else: dat.meshmaker.append((st, deepcopy(body)))
    for g in spec.get('generators', []):
        dat.add_generator(t2generator(name=g['name'], block=g['block'], nseq=g['nseq'], nadd=g['nadd'], nads=g['nads'], type=g['type'],
                                      ltab=g['ltab'], itab=g['itab'], gx=g['gx'], ex=g['ex'], hg=g['hg'], fg=g['fg'],
                                      time=list(g['time']), rate=list(g['rate']), enthalpy=list(g['enthalpy'])))
    sh = spec.get('short')
    if sh is not None:
        so = {}
        if 'frequency' in sh: so['frequency'] = sh['frequency']
        if 'block' in sh: so['block'] = [dat.grid.block[n] for n in sh['block']]
        if 'connection' in sh: so['connection'] = [dat.grid.connection[tuple(n)] for n in sh['connection']]
        if 'generator' in sh: so['generator'] = [dat.generator[tuple(n)] for n in sh['generator']]
        dat.short_output = so
    hb = spec.get('history_objects', True)
    if spec.get('history_block'):
        dat.history_block = [dat.grid.block[n] if hb else n for n in spec['history_block']]
    if spec.get('history_connection'):
        dat.history_connection = [dat.grid.connection[tuple(n)] if hb else tuple(n) for n in spec['history_connection']]
    if spec.get('history_generator'):
        dat.history_generator = [dat.grid.block[n] if hb else n for n in spec['history_generator']]
    for name, por, vs, nseq, nadd in spec.get('incon', []):
        dat.incon[name] = [por, list(vs)] if nseq is None else [por, list(vs), nseq, nadd]
    for rock, vs in spec.get('indom', []):
        dat.indom[rock] = list(vs)
    if spec.get('end_keyword'): dat.end_keyword = spec['end_keyword']
    if spec.get('order') is not None: dat._sections = list(spec['order'])
    return dat


# ------------------------------------------------------------------ snapshot of an object
def num(v):
    """python scalar of a stored value"""
    import numpy as np
    if v is None: return None
    if isinstance(v, (bool, np.bool_)): return int(v)
    if isinstance(v, (int, np.integer)): return int(v)
    if isinstance(v, (float, np.floating)): return float(v)
    if isinstance(v, (str, np.str_)): return str(v)
    if isinstance(v, bytes): return v.decode('latin-1')
    return ('?', repr(v))


def nums(l): return [num(x) for x in l]
def tp(d): return None if not d else {'type': num(d.get('type')), 'parameters': nums(d.get('parameters', []))}
def bname(x): return x if isinstance(x, str) else x.name
def cname(c): return list(c) if isinstance(c, tuple) else [b.name for b in c.block]
ROCK_EXTRA = ['compressibility', 'expansivity', 'dry_conductivity', 'tortuosity', 'klinkenberg', 'xkd3', 'xkd4']


def snapshot(dat):
    g = dat.grid
    s = {'title': dat.title, 'simulator': dat.simulator, 'sections': list(dat._sections), 'end_keyword': dat.end_keyword}
    s['rocks'] = [{'name': r.name, 'nad': num(r.nad), 'density': num(r.density), 'porosity': num(r.porosity),
                   'permeability': nums(r.permeability), 'conductivity': num(r.conductivity), 'specific_heat': num(r.specific_heat),
                   'extra': {k: num(r.__dict__[k]) for k in ROCK_EXTRA if k in r.__dict__},
                   'relperm': tp(r.relative_permeability), 'cap': tp(r.capillarity)} for r in g.rocktypelist]
    s['blocks'] = [{'name': b.name, 'nseq': num(b.nseq), 'nadd': num(b.nadd), 'rock': b.rocktype.name, 'volume': num(b.volume),
                    'ahtx': num(b.ahtx), 'pmx': num(b.pmx), 'centre': None if b.centre is None else nums(b.centre)} for b in g.blocklist]
    s['conns'] = [{'b1': c.block[0].name, 'b2': c.block[1].name, 'nseq': num(c.nseq), 'nad1': num(c.nad1), 'nad2': num(c.nad2),
                   'direction': num(c.direction), 'distance': nums(c.distance), 'area': num(c.area), 'dircos': num(c.dircos),
                   'sigma': num(c.sigma)} for c in g.connectionlist]
    p = {}
    for k, v in dat.parameter.items():
        if k == 'option': p[k] = nums(list(v)[1:])
        elif k in ('timestep', 'default_incons'): p[k] = nums(v)
        elif k == '_option_str': pass
        else: p[k] = num(v)
    s['parameter'] = p
    s['more_option'] = nums(list(dat.more_option)[1:])
    s['start'], s['noversion'] = bool(dat.start), bool(dat.noversion)
    s['relperm'], s['cap'] = tp(dat.relative_permeability), tp(dat.capillarity)
    for k in ('lineq', 'solver', 'multi'):
        s[k] = {a: num(b) for a, b in getattr(dat, k).items()}
    s['output_times'] = {a: (nums(b) if a == 'time' else num(b)) for a, b in dat.output_times.items()}
    s['selection'] = {a: nums(b) for a, b in dat.selection.items()}
    s['diffusion'] = [nums(c) for c in dat.diffusion]
    mm = []
    for st, body in dat.meshmaker:
        if st.lower() == 'rz2d': mm.append([st, [[k, {a: (nums(b) if isinstance(b, list) else num(b)) for a, b in d.items()}] for k, d in body]])
        elif st.lower() == 'xyz':
            mm.append([st, [num(body[0])] + [{a: (nums(b) if isinstance(b, list) else num(b)) for a, b in d.items()} for d in body[1:]]])
        else: mm.append([st, {a: (nums(b) if isinstance(b, list) else num(b)) for a, b in body.items()}])
    s['meshmaker'] = mm
    s['generators'] = [{'block': x.block, 'name': x.name, 'nseq': num(x.nseq), 'nadd': num(x.nadd), 'nads': num(x.nads), 'type': x.type,
                        'ltab': num(x.ltab), 'itab': x.itab, 'gx': num(x.gx), 'ex': num(x.ex), 'hg': num(x.hg), 'fg': num(x.fg),
                        'time': nums(x.time), 'rate': nums(x.rate), 'enthalpy': nums(x.enthalpy)} for x in dat.generatorlist]
    so = dat.short_output
    sh = None
    if so:
        sh = {}
        if 'frequency' in so: sh['frequency'] = num(so['frequency'])
        if 'block' in so: sh['block'] = [bname(b) for b in so['block']]
        if 'connection' in so: sh['connection'] = [cname(c) for c in so['connection']]
        if 'generator' in so: sh['generator'] = [[x.block, x.name] for x in so['generator']]
    s['short'] = sh
    s['history_block'] = [bname(b) for b in dat.history_block]
    s['history_connection'] = [cname(c) for c in dat.history_connection]
    s['history_generator'] = [bname(b) for b in dat.history_generator]
    s['incon'] = {k: [num(v[0]), nums(v[1])] + ([num(v[2]), num(v[3])] if len(v) >= 4 else []) for k, v in dat.incon.items()}
    s['indom'] = {k: nums(v) for k, v in dat.indom.items()}
    return s


# ------------------------------------------------------------------ what must be read back
def trim(l):
    l = list(l)
    while l and l[-1] is None: l.pop()
    return l


def nz(d): return {k: v for k, v in d.items() if v is not None}


class Expect:
    """Applies `carry` with the format table the section is read back through."""
    def __init__(self, main, extra, xp_sections, binary_mesh):
        self.main, self.extra, self.xp, self.binary = main, extra, set(xp_sections), binary_mesh

    def table(self, section): return self.extra if section in self.xp else self.main
    def rec(self, section, kind): return self.table(section)[kind]

    def f(self, section, kind, name, v, nth=0):
        names, specs = self.rec(section, kind)
        idx = [i for i, n in enumerate(names) if n == name]
        return carry(v, specs[idx[min(nth, len(idx) - 1)]])

    def lst(self, section, kind, name, vals):
        return [self.f(section, kind, name, v, i % 8) for i, v in enumerate(vals)]

    def tp(self, section, kind, d):
        if d is None: return None
        return {'type': self.f(section, kind, 'type', d['type']),
                'parameters': trim([self.f(section, kind, 'parameter', v, i) for i, v in enumerate(d['parameters'])])}


def expected(s, ex, mesh, flavour_auto):
    """snapshot of the object written -> the snapshot its re-read copy must have (both normalised by `normalise`)."""
    e = {'title': s['title'], 'simulator': s['simulator'], 'end_keyword': s['end_keyword']}
    R = 'ROCKS'
    e['rocks'] = []
    for r in s['rocks']:
        nad = r['nad']
        x = {'name': ex.f(R, 'rocks1', 'name', r['name']), 'nad': ex.f(R, 'rocks1', 'nad', nad)}
        for k in ('density', 'porosity', 'conductivity', 'specific_heat'): x[k] = ex.f(R, 'rocks1', k, r[k])
        x['permeability'] = [ex.f(R, 'rocks1', 'k%d' % (i + 1), v) for i, v in enumerate(r['permeability'])]
        x['extra'] = dict(r['extra'])
        if nad is not None and nad >= 1:
            # a blank keeps the constructor default of a new rock type
            dflt = {'compressibility': 0.0, 'expansivity': 0.0, 'dry_conductivity': 0.0, 'tortuosity': 0.0}
            x['extra'] = {}
            for k in ROCK_EXTRA:
                v = r['extra'].get(k)
                if v is not None: x['extra'][k] = ex.f(R, 'rocks1.1', k, v)
                elif k in dflt: x['extra'][k] = dflt[k]
        else:
            x['extra'] = {k: v for k, v in {'compressibility': 0.0, 'expansivity': 0.0, 'dry_conductivity': 0.0, 'tortuosity': 0.0}.items()}
        if nad is not None and nad >= 2:
            x['relperm'] = ex.tp(R, 'rocks1.2', r['relperm']); x['cap'] = ex.tp(R, 'rocks1.2', r['cap'])
        else: x['relperm'] = x['cap'] = None
        e['rocks'].append(x)
    B = 'ELEME'
    e['blocks'] = []
    for b in s['blocks']:
        if ex.binary:
            z = lambda v: 0.0 if v is None else float(v)
            e['blocks'].append({'name': b['name'], 'nseq': None, 'nadd': None, 'rock': b['rock'], 'volume': float(b['volume']),
                                'ahtx': z(b['ahtx']), 'pmx': z(b['pmx']), 'centre': [float(v) for v in b['centre']]})
            continue
        x = {'name': b['name'], 'rock': ex.f(B, 'blocks', 'rocktype', b['rock'])}
        for k in ('nseq', 'nadd', 'volume', 'ahtx', 'pmx'): x[k] = ex.f(B, 'blocks', k, b[k])
        x['centre'] = None if b['centre'] is None else [ex.f(B, 'blocks', k, v) for k, v in zip('xyz', b['centre'])]
        e['blocks'].append(x)
    C = 'CONNE'
    e['conns'] = []
    for c in s['conns']:
        if ex.binary:
            e['conns'].append({'b1': c['b1'], 'b2': c['b2'], 'nseq': None, 'nad1': None, 'nad2': None, 'direction': c['direction'],
                               'distance': [float(v) for v in c['distance']], 'area': float(c['area']), 'dircos': float(c['dircos']),
                               'sigma': 0.0 if c['sigma'] is None else float(c['sigma'])})
            continue
        x = {'b1': c['b1'], 'b2': c['b2']}
        for k in ('nseq', 'nad1', 'nad2', 'direction', 'area', 'dircos', 'sigma'): x[k] = ex.f(C, 'connections', k, c[k])
        x['distance'] = [ex.f(C, 'connections', 'distance%d' % (i + 1), v) for i, v in enumerate(c['distance'])]
        e['conns'].append(x)
    # PARAM
    p = s['parameter']
    P = 'PARAM'
    q = {}
    p1 = 'param1_autough2' if flavour_auto else 'param1'
    for kind in (p1, 'param2', 'param3'):
        for name in ex.main[kind][0]:
            if name in ('', '_option_str'): continue
            if name in p: q[name] = ex.f(P, kind, name, p[name])
    for k, v in p.items():
        if k not in q and k not in ('option', 'timestep', 'default_incons'): q[k] = v
    q['option'] = list(p['option'])
    q['default_incons'] = [ex.f(P, 'default_incons', 'incon', v) for v in p['default_incons']]
    ct = p.get('const_timestep')
    if ct is not None and ct < 0: q['timestep'] = [ex.f(P, 'timestep', 'timestep', v) for v in p['timestep']]
    else: q['timestep'] = None         # derived from const_timestep while reading: not compared
    e['parameter'] = q
    e['more_option'] = list(s['more_option'])
    e['start'], e['noversion'] = s['start'], s['noversion']
    e['relperm'] = ex.tp('RPCAP', 'relative_permeability', s['relperm'])
    e['cap'] = ex.tp('RPCAP', 'capillarity', s['cap'])
    e['lineq'] = {k: ex.f('LINEQ', 'lineq', k, v) for k, v in s['lineq'].items()}
    e['solver'] = {k: ex.f('SOLVR', 'solver', k, v) for k, v in s['solver'].items()}
    mk = 'multi_autough2' if flavour_auto else 'multi'
    e['multi'] = {k: (ex.f('MULTI', mk, k, v) if k in ex.main[mk][0] else v) for k, v in s['multi'].items()}
    ot = s['output_times']
    e['output_times'] = {k: ([ex.f('TIMES', 'output_times2', 'time', v) for v in ot[k]] if k == 'time' else ex.f('TIMES', 'output_times1', k, ot[k]))
                         for k in ot}
    sel = s['selection']
    e['selection'] = {}
    if sel:
        e['selection'] = {'integer': trim([ex.f('SELEC', 'selec1', 'int_selec', v) for v in sel['integer']]),
                          'float': trim([ex.f('SELEC', 'selec2', 'float_selec', v) for v in sel['float']])}
    e['diffusion'] = [[ex.f('DIFFU', 'diffusion', 'diff', v) for v in c] for c in s['diffusion']]
    M = 'MESHM'
    mm = []
    for st, body in s['meshmaker']:
        if st == 'rz2d':
            subs = []
            for k, d in body:
                if k == 'radii': subs.append([k, {'radii': [ex.f(M, 'radii2', 'radius', v) for v in d['radii']]}])
                elif k == 'layer': subs.append([k, {'layer': [ex.f(M, 'layer2', 'layer', v) for v in d['layer']]}])
                else: subs.append([k, nz({a: ex.f(M, k, a, b) for a, b in d.items()})])
            mm.append([st, subs])
        elif st == 'xyz':
            subs = [ex.f(M, 'xyz1', 'deg', body[0])]
            for d in body[1:]:
                x = {a: ex.f(M, 'xyz2', a, b) for a, b in d.items() if a != 'deli'}
                if 'deli' in d and d.get('del') == 0: x['deli'] = [ex.f(M, 'xyz3', 'deli', v) for v in d['deli']]
                subs.append(x)
            mm.append([st, subs])
        else:
            x = {'type': ex.f(M, 'minc', 'type', body['type']), 'dual': ex.f(M, 'minc', 'dual', body['dual']),
                 'num_continua': ex.f(M, 'part1', 'num_continua', body['num_continua']), 'where': ex.f(M, 'part1', 'where', body['where']),
                 'spacing': trim([ex.f(M, 'part1', 'spacing', v) for v in body['spacing']]),
                 'vol': [ex.f(M, 'part2', 'vol', v) for v in body['vol']]}
            mm.append([st, x])
    e['meshmaker'] = mm
    G = 'GENER'
    e['generators'] = []
    for g in s['generators']:
        x = {'block': g['block'], 'name': g['name'], 'type': ex.f(G, 'generator', 'type', g['type']), 'itab': g['itab'].strip()}
        for k in ('nseq', 'nadd', 'nads', 'ltab', 'gx', 'ex', 'hg', 'fg'): x[k] = ex.f(G, 'generator', k, g[k])
        x['time'] = [ex.f(G, 'generation_times', 'time', v) for v in g['time']]
        x['rate'] = [ex.f(G, 'generation_rates', 'rate', v) for v in g['rate']]
        x['enthalpy'] = [ex.f(G, 'generation_enthalpy', 'enthalpy', v) for v in g['enthalpy']]
        e['generators'].append(x)
    sh = s['short']
    if sh is not None and mesh != 'infile': sh = None      # items are resolved against the grid while reading: not covered
    e['short'] = None if sh is None else dict(sh)
    for k in ('history_block', 'history_connection', 'history_generator'): e[k] = list(s[k])
    # written in block order; incons of blocks not in the grid are not written
    names = [b['name'] for b in s['blocks']]
    e['incon'] = {}
    for k in names:
        if k in s['incon']:
            v = s['incon'][k]
            x = [ex.f('INCON', 'incon1', 'porosity', v[0]), [ex.f('INCON', 'incon2', 'incon', y) for y in v[1]]]
            if len(v) >= 4 and v[2] is not None: x += [ex.f('INCON', 'incon1', 'nseq', v[2]), ex.f('INCON', 'incon1', 'nadd', v[3])]
            e['incon'][k] = x
    e['indom'] = {k: [ex.f('INDOM', 'indom2', 'indom', y) for y in v] for k, v in s['indom'].items()}
    return e


def normalise(s):
    """Both sides: representation details the statement does not speak about."""
    s = json.loads(json.dumps(s))
    s.pop('sections', None)
    for r in s['rocks']:
        for k in ('relperm', 'cap'):
            if r[k] is not None: r[k]['parameters'] = trim(r[k]['parameters'])
        r['extra'] = nz(r['extra'])
    for k in ('relperm', 'cap'):
        if s[k] is not None: s[k]['parameters'] = trim(s[k]['parameters'])
    p = s['parameter']
    if p.get('timestep') is None or not (p.get('const_timestep') is not None and p['const_timestep'] < 0): p['timestep'] = None
    s['parameter'] = nz(p)
    for k in ('lineq', 'solver', 'multi', 'output_times'): s[k] = nz(s[k])
    # a missing name is written as blanks and read back as a blank name
    s['solver'] = {k: v for k, v in s['solver'].items() if not (isinstance(v, str) and v.strip() == '')}
    if s['selection']:
        s['selection'] = {'integer': trim(s['selection'].get('integer', [])), 'float': trim(s['selection'].get('float', []))}
    for g in s['generators']: g['itab'] = g['itab'].strip()
    if s['short'] is not None:
        if not s['short'].get('frequency'): s['short'].pop('frequency', None)      # 0 = not given
    for mm in s['meshmaker']:
        if mm[0] == 'rz2d':
            for sub in mm[1]: sub[1] = nz(sub[1])
        elif mm[0] == 'xyz':
            mm[1] = [mm[1][0]] + [nz(d) for d in mm[1][1:]]
        else:
            mm[1] = nz(mm[1]); mm[1]['spacing'] = trim(mm[1].get('spacing', []))
    for k, v in s['incon'].items():
        if len(v) >= 4 and v[2] is None: s['incon'][k] = v[:2]
    return s


SECTION_OF = {'rocks': 'ROCKS', 'blocks': 'ELEME', 'conns': 'CONNE', 'parameter': 'PARAM', 'more_option': 'MOMOP', 'start': 'START',
              'noversion': 'NOVER', 'relperm': 'RPCAP', 'cap': 'RPCAP', 'lineq': 'LINEQ', 'solver': 'SOLVR', 'multi': 'MULTI',
              'output_times': 'TIMES', 'selection': 'SELEC', 'diffusion': 'DIFFU', 'meshmaker': 'MESHM', 'generators': 'GENER',
              'short': 'SHORT', 'history_block': 'FOFT', 'history_connection': 'COFT', 'history_generator': 'GOFT', 'incon': 'INCON',
              'indom': 'INDOM', 'title': 'TITLE', 'simulator': 'SIMUL', 'end_keyword': 'END'}


def same(a, b):
    if isinstance(a, dict) and isinstance(b, dict):
        return a.keys() == b.keys() and all(same(a[k], b[k]) for k in a)
    if isinstance(a, list) and isinstance(b, list):
        return len(a) == len(b) and all(same(x, y) for x, y in zip(a, b))
    if a is None or b is None: return a is None and b is None
    if isinstance(a, str) or isinstance(b, str): return isinstance(a, str) and isinstance(b, str) and a == b
    if isinstance(a, bool) or isinstance(b, bool): return bool(a) == bool(b)
    if isinstance(a, (int, float)) and isinstance(b, (int, float)): return a == b
    return a == b


def first_diff(a, b, path=''):
    if isinstance(a, dict) and isinstance(b, dict):
        for k in sorted(set(a) | set(b)):
            if k not in a: return '%s.%s: missing, read back %r' % (path, k, b[k])
            if k not in b: return '%s.%s: %r not read back' % (path, k, a[k])
            d = first_diff(a[k], b[k], '%s.%s' % (path, k))
            if d: return d
        return None
    if isinstance(a, list) and isinstance(b, list):
        if len(a) != len(b): return '%s: %d item(s) required, %d read back: %s vs %s' % (path, len(a), len(b), repr(a)[:200], repr(b)[:200])
        for i, (x, y) in enumerate(zip(a, b)):
            d = first_diff(x, y, '%s[%d]' % (path, i))
            if d: return d
        return None
    if not same(a, b): return '%s: required %r, read back %r' % (path, a, b)
    return None


# ------------------------------------------------------------------ one round trip
def mesh_arg(mesh, d):
    if mesh == 'ascii': return os.path.join(d, 'MESH')
    if mesh == 'binary': return (os.path.join(d, 'MESHA'), os.path.join(d, 'MESHB'))
    return ''


def files_of(d):
    """file name -> bytes; an empty extra-precision companion counts as no file"""
    out = {}
    for f in sorted(os.listdir(d)):
        with open(os.path.join(d, f), 'rb') as h: b = h.read()
        if b == b'' and f.lower().endswith('.pdat'): continue
        out[f] = b
    return out


def rstrip_lines(b):
    return b'\n'.join(l.rstrip(b' ') for l in b.split(b'\n'))


BINARY_FILES = ('MESHA', 'MESHB')


def cfg_class(cfg, auto):
    xp = cfg.get('xp')
    x = 'xp-off' if not xp or not auto else ('xp-on' if cfg.get('echo') is False else 'xp-echo')
    return '%s/%s/%s' % ('AUTOUGH2' if auto else 'TOUGH2', cfg.get('mesh', 'infile'), x)


def quiet():
    return contextlib.redirect_stdout(io.StringIO())


_PRISTINE = None
def module_state():
    """the module-level tables every t2data object shares: they must be the same before and after any read / write"""
    import t2data as m
    from copy import deepcopy
    return deepcopy({'t2data_sections': m.t2data_sections, 't2_extra_precision_sections': m.t2_extra_precision_sections,
                     't2data_format_specification': m.t2data_format_specification,
                     't2data_extra_precision_format_specification': m.t2data_extra_precision_format_specification})


def check_module_state(fails):
    global _PRISTINE
    if _PRISTINE is None: return
    now = module_state()
    for k in _PRISTINE:
        if now[k] != _PRISTINE[k]:
            fails.append(('state', 'MODULE', 'module-level %s was changed by a read / write of some object in this process' % k))
            return


def round_trip(dat, cfg, tmp, name='model.dat', first_write_kwargs=None, cycles=3):
    """The statement on one object `dat` (already built or read).  Returns a list of
    (stage, section, detail); empty = the property holds on this input."""
    from t2data import t2data, t2data_format_specification as MAIN, t2data_extra_precision_format_specification as EXTRA
    global _PRISTINE
    if _PRISTINE is None: _PRISTINE = module_state()
    fails = []
    mesh = cfg.get('mesh', 'infile')
    dirs = [os.path.join(tmp, 'w%d' % i) for i in range(cycles + 1)]
    for d in dirs: os.makedirs(d)
    auto = bool(dat.simulator)
    before = snapshot(dat)
    from copy import deepcopy
    kwargs = deepcopy(first_write_kwargs or {})          # caller-owned arguments: compared afterwards
    try:
        with quiet(): dat.write(os.path.join(dirs[0], name), mesh_arg(mesh, dirs[0]), **kwargs)
    except OutOfDomain: raise
    except Exception as e:
        return [('write-raises', type(e).__name__, repr(e)[:300])]
    if kwargs != (first_write_kwargs or {}):
        fails.append(('state', 'ARGS', 'write() changed its arguments: %r became %r' % (first_write_kwargs, kwargs)))
    # the same object written once more (no arguments: the settings are part of the object now) gives the same files
    again = os.path.join(tmp, 'again'); os.makedirs(again)
    try:
        with quiet(): dat.write(os.path.join(again, name), mesh_arg(mesh, again))
        fa, fb = files_of(dirs[0]), files_of(again)
        if sorted(fa) != sorted(fb): fails.append(('state', 'SAME-OBJECT', 'second write of the same object wrote %s, the first %s' % (sorted(fb), sorted(fa))))
        else:
            for f in fa:
                if fa[f] != fb[f]: fails.append(('state', 'SAME-OBJECT', 'second write of the same object: ' + diff_bytes(fa[f], fb[f], 0))); break
    except Exception as e:
        fails.append(('state', 'SAME-OBJECT', 'second write of the same object raises %r' % (e,)))
    written_sections = list(dat._sections)
    xp_eff = list(dat.extra_precision) if auto else []
    mesh_sections = ['ELEME', 'CONNE'] if mesh != 'infile' else []
    files = [files_of(dirs[0])]
    try:
        with quiet(): r = t2data(os.path.join(dirs[0], name), mesh_arg(mesh, dirs[0]))
    except Exception as e:
        return [('read-raises', type(e).__name__, repr(e)[:300])]
    # 1. sections
    want = [k for k in written_sections if k not in mesh_sections]
    got = [k for k in r._sections if k not in mesh_sections]
    if want != got: fails.append(('sections', 'ORDER', 'written %s, read back %s' % (want, got)))
    # 2. content
    # the .pdat is read first: its sections win over the main file and over a separate mesh file
    ex = Expect(MAIN, EXTRA, xp_eff, mesh == 'binary' and 'ELEME' not in xp_eff)
    exp = normalise(expected(before, ex, mesh, auto))
    act = normalise(snapshot(r))
    for k in exp:
        d = first_diff(exp[k], act.get(k), k)
        if d: fails.append(('content', SECTION_OF.get(k, k), d))
    # 3./4. further cycles
    cur = r
    for i in range(1, cycles + 1):
        try:
            with quiet(): cur.write(os.path.join(dirs[i], name), mesh_arg(mesh, dirs[i]))
        except Exception as e:
            fails.append(('rewrite-raises', type(e).__name__, 'cycle %d: %r' % (i, e))); break
        files.append(files_of(dirs[i]))
        a, b = files[i - 1], files[i]
        if sorted(a) != sorted(b):
            fails.append(('rewrite' if i == 1 else 'cycle', 'FILES', 'cycle %d wrote %s, the one before %s' % (i, sorted(b), sorted(a))))
        for f in a:
            if f not in b: continue
            if i == 1 and f not in BINARY_FILES: okf = rstrip_lines(a[f]) == rstrip_lines(b[f])
            else: okf = a[f] == b[f]
            if not okf:
                detail = diff_bytes(rstrip_lines(a[f]), rstrip_lines(b[f]), i) if (i == 1 and f not in BINARY_FILES) else diff_bytes(a[f], b[f], i)
                if i == 1 and f == name and xp_eff:
                    k1 = [l[:5].strip() for l in a[f].decode('latin-1').split('\n')]
                    k2 = [l[:5].strip() for l in b[f].decode('latin-1').split('\n')]
                    lost = [k for k in xp_eff if k1.count(k) > k2.count(k)]
                    if lost: detail = 'ECHO-LOST %s: %s' % (lost, detail)
                fails.append(('rewrite' if i == 1 else 'cycle', 'dat' if f == name else (f.split('.')[-1] if '.' in f else f), detail))
        if i < cycles:
            try:
                with quiet(): cur = t2data(os.path.join(dirs[i], name), mesh_arg(mesh, dirs[i]))
            except Exception as e:
                fails.append(('reread-raises', type(e).__name__, 'cycle %d: %r' % (i, e))); break
    check_module_state(fails)
    return fails


def diff_bytes(a, b, i):
    la, lb = a.split(b'\n'), b.split(b'\n')
    for n, (x, y) in enumerate(zip(la, lb)):
        if x != y: return 'cycle %d line %d: %r became %r' % (i, n + 1, x[:100], y[:100])
    return 'cycle %d: %d lines became %d lines' % (i, len(la), len(lb))


def run_spec(spec, keep=None):
    """-> list of failures (stage, section, detail)."""
    tmp = tempfile.mkdtemp(prefix='c01o_')
    try:
        dat = build(spec)
        cfg = spec.get('config', {})
        kw = {}
        if cfg.get('xp') is not None: kw['extra_precision'] = cfg['xp']
        if cfg.get('echo') is not None: kw['echo_extra_precision'] = cfg['echo']
        return round_trip(dat, cfg, tmp, cfg.get('filename', 'model.dat'), kw)
    finally:
        if keep: shutil.copytree(tmp, keep, dirs_exist_ok=True)
        shutil.rmtree(tmp, ignore_errors=True)


def failure_key(fail, cfg, auto):
    stage, section, _ = fail
    return '%s:%s:%s' % (stage, section, cfg_class(cfg, auto))


# ------------------------------------------------------------------ shipped files
def shipped_files(repo):
    """(main file, meshfilename) for every data file under tests/data"""
    root = os.path.join(repo, 'tests', 'data')
    out = []
    for dp, dn, fn in sorted(os.walk(root)):
        for f in sorted(fn):
            if f.endswith(('.npy', '.pdat', '.PDAT')) or f in ('MESH', 'MESHA', 'MESHB'): continue
            mesh = ''
            if 'MESH' in fn: mesh = os.path.join(dp, 'MESH')
            elif 'MESHA' in fn and 'MESHB' in fn: mesh = (os.path.join(dp, 'MESHA'), os.path.join(dp, 'MESHB'))
            out.append((os.path.join(dp, f), mesh))
    return out


def run_file(path, meshfilename, cycles=2):
    """The statement on a real file: the object read from it is the object written."""
    from t2data import t2data
    tmp = tempfile.mkdtemp(prefix='c01f_')
    try:
        with quiet(): dat = t2data(path, meshfilename)
        mesh = 'infile' if not meshfilename else ('ascii' if isinstance(meshfilename, str) else 'binary')
        cfg = {'mesh': mesh, 'xp': list(dat.extra_precision) or None, 'echo': dat.echo_extra_precision}
        return round_trip(dat, cfg, tmp, os.path.basename(path), None, cycles), cfg, bool(dat.simulator)
    finally:
        shutil.rmtree(tmp, ignore_errors=True)


# ------------------------------------------------------------------ files written by an independent Fortran-style writer
def run_fortran(spec):
    """spec (already restricted to the Fortran writer's sections) -> failures.  The file must read as what it says,
    then the object read obeys the round trip statement."""
    from props import c01_fortran as ff
    from t2data import t2data, t2data_format_specification as MAIN, t2data_extra_precision_format_specification as EXTRA
    try:
        pre = ff.preround(spec)
        text = ff.write_fortran(pre)
    except ValueError as e:
        raise OutOfDomain(str(e))
    tmp = tempfile.mkdtemp(prefix='c01ff_')
    try:
        path = os.path.join(tmp, 'fortran.dat')
        with open(path, 'w') as f: f.write(text)
        auto = bool(spec['simulator'])
        try:
            with quiet(): r = t2data(path)
        except Exception as e:
            return [('read-raises', type(e).__name__, repr(e)[:300])], text
        fails = []
        want = list(pre['order'])
        if r._sections != want: fails.append(('sections', 'ORDER', 'file has %s, read %s' % (want, r._sections)))
        ref = build(pre)
        exp = normalise(expected(snapshot(ref), Expect(MAIN, EXTRA, [], False), 'infile', auto))
        act = normalise(snapshot(r))
        for k in exp:
            d = first_diff(exp[k], act.get(k), k)
            if d: fails.append(('content', SECTION_OF.get(k, k), d))
        sub = os.path.join(tmp, 'rt'); os.makedirs(sub)
        fails += round_trip(r, {'mesh': 'infile'}, sub, 'fortran.dat', None, 2)
        return fails, text
    finally:
        shutil.rmtree(tmp, ignore_errors=True)
