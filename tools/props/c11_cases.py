"""C11 case generators (all randomness from the rng passed in)."""
import math, itertools


def rect(dx, dy, dz, **kw):
    m = {'kind': 'rect', 'dx': list(map(float, dx)), 'dy': list(map(float, dy)), 'dz': list(map(float, dz))}
    m.update(kw)
    return m


def rect_neighbours(nx, ny, S):
    S = set(S); out = set()
    for c in S:
        i, j = c % nx, c // nx
        for a, b in ((i - 1, j), (i + 1, j), (i, j - 1), (i, j + 1)):
            if 0 <= a < nx and 0 <= b < ny and (b * nx + a) not in S: out.add(b * nx + a)
    return sorted(out)


def tops_for(dz):
    """model-top elevations that put the elevation 0.0 (falsy in Python) in every position relative
    to the layers: the top itself, inside the first layer, exactly on the first layer boundary,
    exactly the bottom of the model, above the top, below the bottom"""
    d = float(sum(dz))
    return [0.0, dz[0] / 2.0, float(dz[0]), d, -40.0, d + 50.0, 300.0]


def random_surfaces(rng, ncols, dz, top=0.0, p_default=0.05):
    """surface elevations: exactly 0.0, above the top, exactly the top, inside a layer, exactly on a
    layer boundary, exactly the bottom of the model, 2^-20 above / below a boundary, below the bottom"""
    bots = []; z = top
    for t in dz: z -= t; bots.append(z)
    out = []
    for i in range(ncols):
        k = rng.random()
        if k < 0.14: s = 0.0
        elif k < 0.26: s = top + rng.choice([0.5, 7.25, 100.0])
        elif k < 0.36: s = top
        elif k < 0.58:
            j = rng.randrange(len(dz)); hi = top if j == 0 else bots[j - 1]
            s = bots[j] + (hi - bots[j]) * rng.choice([0.25, 0.5, 0.8125])
        elif k < 0.74: s = rng.choice(bots[:-1]) if len(bots) > 1 else top
        elif k < 0.80: s = bots[-1]
        elif k < 0.88:
            j = rng.randrange(len(dz)); s = bots[j] + rng.choice([-1, 1]) * 2.0 ** -20
        elif k < 1.0 - p_default: s = bots[-1] - rng.choice([1.0, 2.0 ** -20, 250.0])
        else: continue
        out.append([i, s])
    return out


def special_surfaces(rng, ncols, dz, top, first=None):
    """as random_surfaces, every column gets one; column 0 (the column operated on in the
    single-column meshes) cycles through the falsy / boundary values when `first` is given"""
    out = {i: s for i, s in random_surfaces(rng, ncols, dz, top, p_default=0.0)}
    if first is not None:
        bots = []; z = top
        for t in dz: z -= t; bots.append(z)
        special = [0.0, top, bots[0], bots[-1], top + 7.25, bots[-1] - 1.0, (top + bots[0]) / 2.0, -0.0]
        out[0] = special[first % len(special)]
    return [[i, out[i]] for i in sorted(out)]


MODES = [False, 'x', 'y', True]


def exhaustive_small(rng, meshes):
    cases = []
    for (dx, dy) in meshes:
        nx, ny = len(dx), len(dy); n = nx * ny
        for mask in range(1, 1 << n):
            S = [i for i in range(n) if mask >> i & 1]
            nb = rect_neighbours(nx, ny, S)
            for mode in MODES:
                atm = rng.choice([0, 1, 2])
                dz = rng.choice([[10.], [5., 10.], [2., 3., 4.]])
                top = rng.choice(tops_for(dz))
                m = rect(dx, dy, dz, atmos=atm, origin=[0., 0., top])
                surf = random_surfaces(rng, n, dz, top) if rng.random() < 0.5 else None
                base = {'mesh': m, 'surfaces': surf, 'seed': rng.randrange(1 << 30), 'lattice': 7 if n <= 6 else 0}
                cases.append(dict(base, op={'name': 'refine', 'columns': S, 'bisect': mode, 'edge': []}))
                if nb and (n <= 6 or rng.random() < 0.34):
                    E = nb if (n <= 6 and rng.random() < 0.5) else [c for c in nb if rng.random() < 0.6] or nb[:1]
                    cases.append(dict(base, op={'name': 'refine', 'columns': S, 'bisect': mode, 'edge': E}))
    return cases


def region(rng, nx, ny):
    """a refinement region of a rectangular mesh: single column, strip, L-shape, block,
    boundary-touching, with a hole, random subset"""
    kind = rng.choice(['single', 'strip', 'L', 'block', 'boundary', 'hole', 'random', 'corner'])
    idx = lambda i, j: j * nx + i
    if kind == 'single': return kind, [idx(rng.randrange(nx), rng.randrange(ny))]
    if kind == 'strip':
        if rng.random() < 0.5:
            j = rng.randrange(ny); a = rng.randrange(nx); b = rng.randrange(a, nx)
            return kind, [idx(i, j) for i in range(a, b + 1)]
        i = rng.randrange(nx); a = rng.randrange(ny); b = rng.randrange(a, ny)
        return kind, [idx(i, j) for j in range(a, b + 1)]
    if kind in ('block', 'hole', 'L'):
        a = rng.randrange(nx); b = rng.randrange(a, nx); c = rng.randrange(ny); d = rng.randrange(c, ny)
        S = [(i, j) for i in range(a, b + 1) for j in range(c, d + 1)]
        if kind == 'hole' and b - a >= 2 and d - c >= 2: S = [(i, j) for i, j in S if i in (a, b) or j in (c, d)]
        if kind == 'L' and b > a and d > c: S = [(i, j) for i, j in S if i == a or j == c]
        return kind, [idx(i, j) for i, j in S]
    if kind == 'boundary':
        S = [idx(i, j) for i in range(nx) for j in range(ny) if (i in (0, nx - 1) or j in (0, ny - 1)) and rng.random() < 0.6]
        return kind, S or [0]
    if kind == 'corner': return kind, [idx(0, 0), idx(nx - 1, ny - 1)]
    S = [c for c in range(nx * ny) if rng.random() < rng.choice([0.1, 0.3, 0.6])]
    return kind, S or [rng.randrange(nx * ny)]


def random_rect(rng, count):
    cases = []
    for _ in range(count):
        nx, ny = rng.randint(3, 9), rng.randint(3, 8)
        dx = [rng.choice([10., 25., 40., 100., 12.5]) for _ in range(nx)]
        dy = [rng.choice([10., 25., 40., 100., 7.5]) for _ in range(ny)]
        dz = [rng.choice([5., 10., 20.]) for _ in range(rng.randint(1, 4))]
        m = rect(dx, dy, dz, atmos=rng.choice([0, 1, 2]), origin=[rng.choice([0., 1000., -250.5]), rng.choice([0., 5e5]), rng.choice(tops_for(dz))])
        if rng.random() < 0.5: m['rotate'] = rng.choice([30., 45., 12.5, 90., -60.])
        kind, S = region(rng, nx, ny)
        nb = rect_neighbours(nx, ny, S)
        E = [c for c in nb if rng.random() < 0.5] if rng.random() < 0.4 else []
        top = m['origin'][2]
        surf = random_surfaces(rng, nx * ny, dz, top) if rng.random() < 0.6 else None
        cases.append({'mesh': m, 'surfaces': surf, 'seed': rng.randrange(1 << 30), 'shape': kind,
                      'op': {'name': 'refine', 'columns': S, 'bisect': rng.choice(MODES), 'edge': E}})
    return cases


def twice_refined(rng, count):
    """earlier refinements: refine a region, then refine a random region of the result"""
    cases = []
    for _ in range(count):
        nx, ny = rng.randint(2, 4), rng.randint(2, 4)
        dx = [rng.choice([10., 20., 40.]) for _ in range(nx)]; dy = [rng.choice([10., 30.]) for _ in range(ny)]
        dz = [5., 10.]
        kind, S = region(rng, nx, ny)
        pre = {'name': 'refine', 'columns': S, 'bisect': rng.choice(MODES), 'edge': []}
        # the second selection indexes the column list after the first refinement (at most 4x + transition columns)
        nmax = 6 * nx * ny
        S2 = sorted(set(rng.randrange(nmax) for _ in range(rng.randint(1, 6))))
        top = rng.choice(tops_for(dz))
        cases.append({'mesh': rect(dx, dy, dz, atmos=rng.choice([0, 1, 2]), origin=[0., 0., top]),
                      'surfaces': random_surfaces(rng, nx * ny, dz, top) if rng.random() < 0.5 else None,
                      'pre': [pre], 'seed': rng.randrange(1 << 30), 'shape': 'second-' + kind,
                      'op': {'name': 'refine', 'columns': S2, 'wrap': True, 'bisect': rng.choice(MODES), 'edge': []}})
    return cases


# ---------------------------------------------------------------- single-column gadgets
MAP_ORIGINS = [(1812345.67, 5512345.89), (2712345.123, 6123456.457), (-1812345.67, 5512345.89), (312345.678, 4212345.91), (5512345.89, -1812345.67)]


def convex_polygon(rng, k, scale=100.0, offset=None):
    """k corners in counter-clockwise order on a random ellipse, angular gaps bounded below.
    offset = a (non-round) map-projection origin the polygon is moved to"""
    while True:
        ang = sorted(rng.uniform(0, 2 * math.pi) for _ in range(k))
        gaps = [(ang[(i + 1) % k] - ang[i]) % (2 * math.pi) for i in range(k)]
        if min(gaps) > 2 * math.pi / (2.5 * k) and max(gaps) < math.pi * 0.95: break
    a, b = scale * rng.uniform(0.6, 1.5), scale * rng.uniform(0.6, 1.5)
    ox, oy = (rng.choice([0., 1000., -300.]), rng.choice([0., 2000.])) if offset is None else offset
    # coordinates with few bits so that mid-points are exact in binary floating point
    return [(ox + round(a * math.cos(t) * 4) / 4.0, oy + round(b * math.sin(t) * 4) / 4.0) for t in ang]


def outward_apex(p, q, h):
    mx, my = (p[0] + q[0]) / 2.0, (p[1] + q[1]) / 2.0
    dx, dy = q[0] - p[0], q[1] - p[1]
    L = math.hypot(dx, dy)
    return (mx + h * dy / L, my - h * dx / L)      # right of the direction p->q = outside of a CCW polygon


def gadget(corners, sides, dz=(10., 5.), h=None, rotate_nodes=0, top=0.0):
    """column 0 = the polygon `corners` (CCW); one outer triangle on each side in `sides`;
    refining the outer triangles makes column 0 a transition column whose refined sides are
    exactly `sides`"""
    n = len(corners)
    nodes = list(corners); cols = [list(range(n))]
    for i in sides:
        p, q = corners[i], corners[(i + 1) % n]
        hh = h or 0.3 * math.hypot(q[0] - p[0], q[1] - p[1])
        nodes.append(outward_apex(p, q, hh))
        cols.append([(i + 1) % n, i, len(nodes) - 1])
    if rotate_nodes:
        cols[0] = cols[0][rotate_nodes:] + cols[0][:rotate_nodes]
    return {'kind': 'custom', 'nodes': [list(p) for p in nodes], 'columns': cols, 'dz': list(dz), 'top': float(top)}


def gadget_cases(rng, shapes):
    cases = []
    for nn in (3, 4):
        for r in range(1, nn + 1):
            for sides in itertools.combinations(range(nn), r):
                for k in range(shapes):
                    corners = convex_polygon(rng, nn)
                    top = rng.choice(tops_for((10., 5.)))
                    m = gadget(corners, sides, top=top)
                    surf = special_surfaces(rng, len(m['columns']), m['dz'], top, first=rng.randrange(8))
                    cases.append({'mesh': m, 'surfaces': surf, 'seed': rng.randrange(1 << 30), 'gadget': {'nn': nn, 'sides': list(sides)},
                                  'npts': 12, 'op': {'name': 'refine', 'columns': list(range(1, len(m['columns']))), 'bisect': False, 'edge': []}})
                if r == nn:
                    corners = convex_polygon(rng, nn)
                    m = gadget(corners, [])
                    cases.append({'mesh': m, 'surfaces': None, 'seed': rng.randrange(1 << 30), 'gadget': {'nn': nn, 'sides': list(sides)},
                                  'npts': 12, 'op': {'name': 'refine', 'columns': [0], 'bisect': False, 'edge': []}})
    return cases


# ---------------------------------------------------------------- polygons for decomposition
def polygon_with_straight(rng, k, placement, rot):
    """base convex k-gon, `placement[i]` extra collinear nodes on side i, node numbering
    rotated by rot.  Returns (nodes in order, sorted indices of the straight nodes)"""
    base = convex_polygon(rng, k, scale=128.0)
    pts = []; straight = []
    for i in range(k):
        p, q = base[i], base[(i + 1) % k]
        pts.append(p)
        m = placement[i]
        for j in range(1, m + 1):
            straight.append(len(pts))
            pts.append((p[0] + (q[0] - p[0]) * j / (m + 1.0), p[1] + (q[1] - p[1]) * j / (m + 1.0)))
    n = len(pts)
    pts = pts[rot:] + pts[:rot]
    straight = sorted((s - rot) % n for s in straight)
    return pts, straight


def decompose_mesh(pts, ring=True, top=0.0):
    n = len(pts)
    nodes = list(pts); cols = [list(range(n))]
    if ring:
        for i in range(n):
            p, q = pts[i], pts[(i + 1) % n]
            nodes.append(outward_apex(p, q, 0.2 * math.hypot(q[0] - p[0], q[1] - p[1])))
            cols.append([(i + 1) % n, i, len(nodes) - 1])
    return {'kind': 'custom', 'nodes': [list(p) for p in nodes], 'columns': cols, 'dz': [10., 5.], 'top': float(top)}


def decompose_cases(rng, per_config, nmax=10):
    cases = []
    for n in range(5, nmax + 1):
        for ns in range(0, 5):
            k = n - ns
            if k < 3: continue
            placements = set()
            for combo in itertools.combinations_with_replacement(range(k), ns):
                pl = [0] * k
                for c in combo: pl[c] += 1
                placements.add(tuple(pl))
            placements = sorted(placements)
            if len(placements) > 12 and per_config < 3: placements = rng.sample(placements, 12)
            for pl in placements:
                rots = list(range(n)) if per_config >= 2 else rng.sample(range(n), min(n, 3))
                for rot in rots:
                    pts, straight = polygon_with_straight(rng, k, pl, rot)
                    top = rng.choice(tops_for((10., 5.)))
                    m = decompose_mesh(pts, ring=True, top=top)
                    surf = special_surfaces(rng, len(m['columns']), m['dz'], top, first=len(cases))
                    cases.append({'mesh': m, 'surfaces': surf, 'seed': rng.randrange(1 << 30), 'npts': 10,
                                  'polygon': {'n': n, 'ns': ns, 'placement': list(pl), 'rot': rot, 'straight': straight},
                                  'op': {'name': 'decompose', 'columns': [0]}})
    return cases


def triangulate_cases(rng, shapes):
    """triangulate_column on one column of a ring mesh: strictly convex 3..9-gons and polygons
    with collinear extra nodes; the column's surface runs through the falsy / boundary values"""
    cases = []
    for n in range(3, 10):
        for k in range(shapes):
            ns = 0 if k % 3 else min(rng.randint(1, 2), n - 3)
            base = n - ns
            pl = [0] * base
            for _ in range(ns): pl[rng.randrange(base)] += 1
            pts, straight = polygon_with_straight(rng, base, pl, rng.randrange(n))
            top = rng.choice(tops_for((10., 5.)))
            m = decompose_mesh(pts, ring=True, top=top)
            cases.append({'mesh': m, 'surfaces': special_surfaces(rng, len(m['columns']), m['dz'], top, first=len(cases)),
                          'seed': rng.randrange(1 << 30), 'npts': 10, 'polygon': {'n': n, 'ns': ns, 'straight': straight},
                          'op': {'name': 'triangulate', 'columns': [0]}})
    return cases


def surface_cases(rng, reps=1):
    """every operation on a small mesh, the surface of the column operated on (and of its
    neighbours) running through: exactly 0.0 (with the model top at seven different elevations),
    -0.0, exactly the top, exactly each layer boundary, exactly the bottom, above the top, below
    the bottom.  This is where a test such as `if col.surface:` / `col.surface or default` /
    `surface <= bottom` shows."""
    cases = []
    dz = [10., 5., 20.]
    for top in tops_for(dz):
        bots = [top - 10., top - 15., top - 35.]
        for s in [0.0, -0.0, top, bots[0], bots[1], bots[2], top + 7.25, bots[2] - 1.0]:
            for rep in range(reps):
                others = [0.0, s, top, rng.choice(bots), top - 12.5]
                def surf(n, main): return [[i, s if i in main else others[(i + rep) % len(others)]] for i in range(n)]
                seed = rng.randrange(1 << 30)
                m = rect([10., 20., 15.], [10., 30.], dz, atmos=rng.choice([0, 1, 2]), origin=[0., 0., top])
                cases.append({'mesh': m, 'surfaces': surf(6, {1}), 'seed': seed, 'lattice': 5, 'shape': 'surface-sweep',
                              'op': {'name': 'refine', 'columns': [1], 'bisect': rng.choice(MODES), 'edge': []}})
                cases.append({'mesh': m, 'surfaces': surf(6, {0, 4}), 'seed': seed, 'lattice': 5, 'shape': 'surface-sweep',
                              'op': {'name': 'refine', 'columns': [0, 1, 4], 'bisect': False, 'edge': []}})
                cases.append({'mesh': m, 'surfaces': surf(6, {2}), 'seed': seed, 'lattice': 5, 'shape': 'surface-sweep',
                              'op': {'name': 'split', 'column': 2, 'node': rng.randrange(4)}})
                cases.append({'mesh': m, 'surfaces': surf(6, {0, 3, 5}), 'seed': seed, 'shape': 'surface-sweep',
                              'op': {'name': 'refine_layers', 'layers': rng.choice([[], [1], [2, 3], [3]]), 'factor': rng.choice([2, 3])}})
                for n, pl in ((5, [1, 0, 0, 0]), (6, [1, 0, 1, 0]), (6, [1, 1, 0, 0]), (7, [1, 1, 1, 0]), (8, [1, 1, 1, 1]), (5, [0] * 5), (9, [0] * 9)):
                    pts, straight = polygon_with_straight(rng, len(pl), pl, rng.randrange(n))
                    pm = decompose_mesh(pts, ring=True, top=top); pm['dz'] = dz
                    k = len(pm['columns'])
                    cases.append({'mesh': pm, 'surfaces': surf(k, {0}), 'seed': seed, 'npts': 6, 'shape': 'surface-sweep',
                                  'polygon': {'n': n, 'ns': sum(pl), 'placement': pl, 'straight': straight},
                                  'op': {'name': rng.choice(['decompose', 'decompose', 'triangulate']), 'columns': [0]}})
    return cases


def split_cases(rng, count):
    cases = []
    for _ in range(count):
        nx, ny = rng.randint(1, 3), rng.randint(1, 3)
        dx = [rng.choice([10., 20., 40.]) for _ in range(nx)]; dy = [rng.choice([10., 30.]) for _ in range(ny)]
        dz = [5., 10.]
        top = rng.choice(tops_for(dz))
        m = rect(dx, dy, dz, atmos=rng.choice([0, 1, 2]), origin=[0., 0., top])
        if rng.random() < 0.4: m['rotate'] = rng.choice([30., 45., -60.])
        cen = rng.choice([None, 'centroid', 'offset'])      # column(..., centre=...): centre_specified = 1
        if cen: m['centres'] = cen
        col = rng.randrange(nx * ny)
        surf = random_surfaces(rng, nx * ny, dz, top) if rng.random() < 0.7 else None
        if surf is not None and rng.random() < 0.5:
            # the column that is split gets a falsy / boundary elevation
            surf = [x for x in surf if x[0] != col] + [[col, rng.choice([0.0, top, top - dz[0], top - sum(dz), top + 7.25, top - sum(dz) - 1.0])]]
        cases.append({'mesh': m, 'surfaces': surf, 'seed': rng.randrange(1 << 30),
                      'lattice': 6, 'op': {'name': 'split', 'column': col, 'node': rng.choice([0, 1, 2, 3, 3, 2, 1, 0, -1])}})
    for _ in range(max(2, count // 5)):
        corners = convex_polygon(rng, 4)
        top = rng.choice(tops_for((10., 5.)))
        m = gadget(corners, [0, 1, 2, 3], top=top)
        cen = rng.choice([None, 'centroid', 'offset'])
        if cen: m['centres'] = cen
        cases.append({'mesh': m, 'surfaces': special_surfaces(rng, len(m['columns']), m['dz'], top, first=len(cases)), 'seed': rng.randrange(1 << 30), 'lattice': 0,
                      'op': {'name': 'split', 'column': 0, 'node': rng.randrange(4)}})
    return cases


def layer_cases(rng, thorough):
    cases = []
    for nl in (1, 2, 3, 4) if not thorough else (1, 2, 3, 4, 5):
        dzs = [[rng.choice([5., 10., 20., 7.5]) for _ in range(nl)] for _ in range(2 if not thorough else 4)]
        for dz in dzs:
            for mask in range(0, 1 << nl):
                layers = [i + 1 for i in range(nl) if mask >> i & 1]      # [] = all layers
                for factor in (2, 3, 4):
                    for atm in (0, 1, 2):
                        if not thorough and rng.random() < 0.5: continue
                        top = rng.choice(tops_for(dz) + [100., -50.])
                        m = rect([10., 20., 30.], [10., 40.], dz, atmos=atm, origin=[0., 0., top])
                        cases.append({'mesh': m, 'surfaces': random_surfaces(rng, 6, dz, top), 'seed': rng.randrange(1 << 30),
                                      'op': {'name': 'refine_layers', 'layers': layers, 'factor': factor}})
    return cases


# ---------------------------------------------------------------- sequences of operations
def _sp(col, node): return {'name': 'split', 'column': col, 'node': node}
def _tri(target, take=None): return {'name': 'triangulate', 'target': target, 'take': take}
def _ref(target, mode=False, take=None): return {'name': 'refine', 'target': target, 'bisect': mode, 'edge': [], 'take': take}


def sequence_patterns(rng, ncols, col=None):
    """two- and three-step sequences; the first step names columns by index, later steps relative to
    the step before (c11_oracle.resolve_target)"""
    c = rng.randrange(ncols) if col is None else col
    k = rng.randrange(4)
    mode = rng.choice(MODES)
    S = sorted(set([c] + ([rng.randrange(ncols)] if col is None and rng.random() < 0.5 else [])))
    ref0 = {'name': 'refine', 'columns': S, 'bisect': mode, 'edge': []}
    tri0 = {'name': 'triangulate', 'columns': [c]}
    spn = {'name': 'split', 'target': 'created', 'nodes_in': [4], 'pick': rng.randrange(8), 'node': k}
    return [
        ('split>triangulate(same)', [_sp(c, k), _tri('same')]),
        ('split>triangulate(created)', [_sp(c, k), _tri('created')]),
        ('split>triangulate(touched)', [_sp(c, k), _tri('touched')]),
        ('split>refine(same)', [_sp(c, k), _ref('same', mode)]),
        ('split>refine(touched)', [_sp(c, k), _ref('touched', mode)]),
        ('split>refine(neighbours)', [_sp(c, k), _ref('neighbours', False)]),
        ('refine>split(created)', [ref0, spn]),
        ('refine>triangulate(created)', [ref0, _tri('created', take=[rng.randrange(16), rng.randrange(16)])]),
        ('refine>refine(created)', [ref0, _ref('created', rng.choice(MODES), take=[rng.randrange(16) for _ in range(3)])]),
        ('triangulate>refine(created)', [tri0, _ref('created', mode)]),
        ('triangulate>refine(neighbours)', [tri0, _ref('neighbours', False)]),
        ('triangulate>split(neighbours)', [tri0, {'name': 'split', 'target': 'neighbours', 'nodes_in': [4], 'pick': rng.randrange(4), 'node': k}]),
        ('split>triangulate(same)>refine(created)', [_sp(c, k), _tri('same'), _ref('created', mode)]),
        ('refine>split(created)>triangulate(touched)', [ref0, spn, _tri('touched')]),
        ('split>refine(touched)>triangulate(created)', [_sp(c, k), _ref('touched', False), _tri('created', take=[rng.randrange(8), rng.randrange(8)])]),
        ('triangulate>refine(created)>split(created)', [tri0, _ref('created', False), spn]),
        ('split>refine_layers>triangulate(same)', [_sp(c, k), {'name': 'refine_layers', 'layers': [], 'factor': 2}, _tri('same')]),
        ('split>split(neighbours)>triangulate(touched)', [_sp(c, k), {'name': 'split', 'target': 'neighbours', 'nodes_in': [4], 'pick': rng.randrange(4), 'node': rng.randrange(4)}, _tri('touched')]),
    ]


def sequence_cases(rng, reps, infos=()):
    """compositions ("earlier refinements" as inputs) on geometries whose column centres are
    SPECIFIED (column(..., centre=...): at the centroid / at another interior point) or not; all
    clauses are evaluated after each step"""
    cases = []
    for rep in range(reps):
        for centres in ('centroid', 'offset', None):
            nx, ny = rng.choice([(3, 2), (2, 2), (3, 3)])
            dx = [rng.choice([10., 20., 40., 12.5]) for _ in range(nx)]; dy = [rng.choice([10., 30., 7.5]) for _ in range(ny)]
            dz = rng.choice([[10.], [5., 10.], [2., 3., 4.]])
            top = rng.choice(tops_for(dz))
            for name, steps in sequence_patterns(rng, nx * ny):
                m = rect(dx, dy, dz, atmos=rng.choice([0, 1, 2]), origin=[0., 0., top])
                if centres: m['centres'] = centres
                if rng.random() < 0.3: m['rotate'] = rng.choice([30., 45., -60.])
                cases.append({'mesh': m, 'surfaces': random_surfaces(rng, nx * ny, dz, top) if rng.random() < 0.6 else None,
                              'seed': rng.randrange(1 << 30), 'shape': 'seq:' + name, 'lattice': 5 if nx * ny <= 6 else 0, 'npts': 4, 'steps': steps})
        # constructed single columns (general convex quadrilaterals) with a specified centre
        for centres in ('centroid', 'offset'):
            corners = convex_polygon(rng, 4)
            top = rng.choice(tops_for((10., 5.)))
            for name, steps in sequence_patterns(rng, 5, col=0)[:6]:
                m = gadget(corners, [0, 1, 2, 3], top=top); m['centres'] = centres
                cases.append({'mesh': m, 'surfaces': special_surfaces(rng, len(m['columns']), m['dz'], top, first=len(cases)),
                              'seed': rng.randrange(1 << 30), 'shape': 'seq:' + name, 'npts': 6, 'steps': steps})
        # polygons: decompose, then go on with the new columns
        for n, pl in ((5, [1, 0, 0, 0]), (6, [1, 0, 1, 0]), (8, [1, 1, 1, 1]), (7, [0] * 7)):
            pts, straight = polygon_with_straight(rng, len(pl), pl, rng.randrange(n))
            top = rng.choice(tops_for((10., 5.)))
            dec = {'name': 'decompose', 'columns': [0]}
            for name, steps in (('decompose>refine(created)', [dec, _ref('created', rng.choice(MODES))]),
                                ('decompose>split(created)', [dec, {'name': 'split', 'target': 'created', 'nodes_in': [4], 'pick': rng.randrange(4), 'node': rng.randrange(4)}]),
                                ('decompose>triangulate(created)', [dec, _tri('created', take=[rng.randrange(6)])]),
                                ('decompose>refine(neighbours)>triangulate(created)', [dec, _ref('neighbours', False), _tri('created', take=[0, 5])])):
                m = decompose_mesh(pts, ring=True, top=top); m['centres'] = rng.choice(['centroid', 'offset', None])
                cases.append({'mesh': m, 'surfaces': special_surfaces(rng, len(m['columns']), m['dz'], top, first=len(cases)),
                              'seed': rng.randrange(1 << 30), 'shape': 'seq:' + name, 'npts': 5,
                              'polygon': {'n': n, 'ns': sum(pl), 'placement': pl, 'straight': straight}, 'steps': steps})
    # shipped geometries (g1, g3, g5, g6 list their column centres: centre_specified = 1)
    for info in infos:
        nn, nbr = info['nn'], info['nbr']
        ok = [i for i in range(len(nn)) if nn[i] == 4 and all(nn[j] <= 4 for j in nbr[i]) and all(nn[k] <= 4 for j in nbr[i] for k in nbr[j])]
        if not ok: continue
        for rep in range(info.get('seq_reps', 1) * reps):
            c = rng.choice(ok)
            pats = sequence_patterns(rng, len(nn), col=c)
            for name, steps in rng.sample(pats[:8], 2) + rng.sample(pats[8:], 1):
                cases.append({'mesh': {'kind': 'file', 'name': info['name']}, 'seed': rng.randrange(1 << 30), 'shape': 'seq:' + name, 'npts': 4, 'steps': steps})
        polys = [i for i in range(len(nn)) if nn[i] > 4]
        if polys:
            c = rng.choice(ok)
            cases.append({'mesh': {'kind': 'file', 'name': info['name']}, 'seed': rng.randrange(1 << 30), 'shape': 'seq:refine>decompose(all)', 'npts': 4,
                          'steps': [{'name': 'refine', 'columns': [c], 'bisect': False, 'edge': []}, {'name': 'decompose', 'target': 'all', 'take': None}]})
    return cases


# ---------------------------------------------------------------- map-projection coordinates
def map_cases(rng, reps):
    """columns of the order of 10 m at map-projection eastings / northings (1e6..1e7 m, not round):
    the products in shoelace sums then need ~1e14 and cancel to ~1e2, so anything computed without
    shifting to a local origin is off by metres.  Every operation that places a centre node."""
    cases = []
    for rep in range(reps):
        for ox, oy in MAP_ORIGINS:
            nx, ny = rng.randint(2, 4), rng.randint(2, 3)
            dx = [rng.choice([9.7, 11.3, 10., 12.45, 8.2, 5.1]) for _ in range(nx)]; dy = [rng.choice([9.7, 11.3, 10., 7.35]) for _ in range(ny)]
            dz = rng.choice([[10.], [5., 10.]])
            top = rng.choice(tops_for(dz))
            def mesh():
                m = rect(dx, dy, dz, atmos=rng.choice([0, 1, 2]), origin=[ox, oy, top])
                if rng.random() < 0.3: m['rotate'] = rng.choice([30., 45., -60.])
                if rng.random() < 0.3: m['centres'] = 'centroid'
                return m
            n = nx * ny
            surf = lambda: random_surfaces(rng, n, dz, top) if rng.random() < 0.5 else None
            for mode in MODES:
                kind, S = region(rng, nx, ny)
                cases.append({'mesh': mesh(), 'surfaces': surf(), 'seed': rng.randrange(1 << 30), 'shape': 'map:' + kind, 'lattice': 5,
                              'op': {'name': 'refine', 'columns': S, 'bisect': mode, 'edge': []}})
            cases.append({'mesh': mesh(), 'surfaces': surf(), 'seed': rng.randrange(1 << 30), 'shape': 'map:single', 'lattice': 5,
                          'op': {'name': 'refine', 'columns': [rng.randrange(n)], 'bisect': False, 'edge': []}})
            cases.append({'mesh': mesh(), 'surfaces': surf(), 'seed': rng.randrange(1 << 30), 'shape': 'map:corner', 'lattice': 5,
                          'op': {'name': 'refine', 'columns': [0, nx + 1], 'bisect': False, 'edge': []}})
            cases.append({'mesh': mesh(), 'surfaces': surf(), 'seed': rng.randrange(1 << 30), 'shape': 'map:split', 'lattice': 5,
                          'op': {'name': 'split', 'column': rng.randrange(n), 'node': rng.randrange(4)}})
            cases.append({'mesh': mesh(), 'surfaces': surf(), 'seed': rng.randrange(1 << 30), 'shape': 'map:triangulate', 'lattice': 5,
                          'op': {'name': 'triangulate', 'columns': [rng.randrange(n)]}})
            for name, steps in rng.sample(sequence_patterns(rng, n), 3):
                cases.append({'mesh': mesh(), 'surfaces': surf(), 'seed': rng.randrange(1 << 30), 'shape': 'map:seq:' + name, 'npts': 4, 'steps': steps})
            # single general quadrilaterals / triangles (gadgets) and polygons, ~10 m across
            for nn in (3, 4):
                corners = convex_polygon(rng, nn, scale=8.0, offset=(ox, oy))
                sides = rng.choice([s for r in range(1, nn + 1) for s in itertools.combinations(range(nn), r)])
                m = gadget(corners, sides, top=top)
                cases.append({'mesh': m, 'surfaces': special_surfaces(rng, len(m['columns']), m['dz'], top, first=len(cases)), 'seed': rng.randrange(1 << 30),
                              'shape': 'map:gadget', 'npts': 8, 'op': {'name': 'refine', 'columns': list(range(1, len(m['columns']))), 'bisect': False, 'edge': []}})
            for n_, pl in ((6, [1, 0, 1, 0]), (8, [1, 1, 1, 1]), (5, [0] * 5), (9, [0] * 9)):
                base = convex_polygon(rng, len(pl), scale=8.0, offset=(ox, oy))
                pts = []; straight = []
                for i in range(len(pl)):
                    p, q_ = base[i], base[(i + 1) % len(pl)]
                    pts.append(p)
                    if pl[i]: straight.append(len(pts)); pts.append(((p[0] + q_[0]) / 2.0, (p[1] + q_[1]) / 2.0))
                m = decompose_mesh(pts, ring=True, top=top)
                cases.append({'mesh': m, 'surfaces': special_surfaces(rng, len(m['columns']), m['dz'], top, first=len(cases)), 'seed': rng.randrange(1 << 30),
                              'shape': 'map:polygon', 'npts': 6, 'polygon': {'n': n_, 'ns': sum(pl), 'placement': pl, 'straight': straight},
                              'op': {'name': rng.choice(['decompose', 'triangulate']), 'columns': [0]}})
    return cases


# ---------------------------------------------------------------- the caller's argument lists re-used
def twin_cases(rng, count):
    """the same call made first on a model variant (same mesh and names, other surfaces) with the
    very same argument list objects, then on the geometry under test: the result must not depend
    on the earlier call or on the other live geometry"""
    cases = []
    for c in random_rect(rng, count) + twice_refined(rng, count // 4):
        cases.append(dict(c, twin={'surface_shift': -1.0}, shape='twin:' + c.get('shape', '')))
    small = exhaustive_small(rng, [([10., 20.], [15., 5.]), ([10., 20., 5.], [15., 5.])])
    for c in small[::max(1, len(small) // max(1, count))]:
        cases.append(dict(c, twin={'surface_shift': -2.5}, shape='twin:small'))
    for c in decompose_cases(rng, 1, nmax=8)[::max(1, 400 // max(1, count))]:
        cases.append(dict(c, twin={'surface_shift': -1.0}, shape='twin:polygon'))
    for c in layer_cases(rng, False)[::max(1, 260 // max(1, count // 2))]:
        cases.append(dict(c, twin={'surface_shift': -1.0}, shape='twin:layers'))
    return cases
