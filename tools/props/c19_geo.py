"""C19 helpers: self-contained geometry specs -> real mulgrid objects, the wire encoding of
abstract geometries for the extracted model, and the generators of geometry pairs."""
import os, copy
from fractions import Fraction
import vf

SHIPPED = ['g7.dat', 'g5.dat', 'g1.dat', 'g6.dat', 'g3.dat', 'g4.dat', 'g2.dat']   # small to large


# ---------------------------------------------------------------- building real geometries
def build_geo(spec, repo):
    """spec = {'base': {'rect': [dx, dy, dz], 'convention', 'atmos_type', 'origin'} | {'file': name, 'atmos_type'?},
               'ops': [[op, arg...], ...]} -> mulgrid (through public entry points only)."""
    from mulgrids import mulgrid
    b = spec['base']
    if 'rect' in b:
        dx, dy, dz = b['rect']
        g = mulgrid().rectangular(list(dx), list(dy), list(dz), convention=b.get('convention', 0),
                                  atmos_type=b.get('atmos_type', 2), origin=list(b.get('origin') or [0., 0., 0.]))
    else:
        g = mulgrid(os.path.join(repo, 'tests', 'mulgrid', b['file']))
        if b.get('atmos_type') is not None and b['atmos_type'] != g.atmosphere_type:
            g.atmosphere_type = b['atmos_type']
    for op in spec.get('ops', []):
        k = op[0]
        if k == 'refine':
            g.refine([g.column[n] for n in op[1]] if op[1] else [])
        elif k == 'refine_layers':
            g.refine_layers([g.layer[n] for n in op[1]] if op[1] else [], factor=op[2])
        elif k == 'surface':
            for name, z in op[1].items():
                col = g.column[name]
                col.surface = z
                g.set_column_num_layers(col)
            g.setup_block_name_index(); g.setup_block_connection_name_index()
        elif k == 'atm':
            g.atmosphere_type = op[1]
        elif k == 'translate':
            g.translate(list(op[1]))
        elif k == 'rotate':
            g.rotate(op[1])
        elif k == 'snap':
            g.snap_columns_to_layers(op[1])
        elif k == 'snap_nearest':
            g.snap_columns_to_nearest_layers()
        elif k == 'copy_layers':
            copy_layers(g, op[1], op[2])
        else:
            raise ValueError('unknown geometry op %r' % (k,))
    return g


def copy_layers(g, dz, ztop):
    """mulgrid.copy_layers_from: the layer structure of g is replaced by layers of thicknesses dz below elevation
    ztop (taken from a helper geometry of the same naming convention); column surfaces keep their elevations, so a
    geometry built with the default (flat) surface ends up with its ground BELOW the top of the new structure."""
    from mulgrids import mulgrid
    helper = mulgrid().rectangular([1.], [1.], list(dz), convention=g.convention, atmos_type=g.atmosphere_type,
                                   origin=[0., 0., float(ztop)])
    g.copy_layers_from(helper)
    return g


def with_atm(spec, t):
    s = copy.deepcopy(spec)
    s['ops'] = list(s.get('ops', [])) + [['atm', t]]
    return s


def atm_code(g):
    return g.atmosphere_type if g.atmosphere_type in (0, 1) else 2


# ---------------------------------------------------------------- wire encoding
def fr(x):
    return Fraction(float(x))


def qstr(x):
    f = fr(x)
    return '%d/%d' % (f.numerator, f.denominator)


def common_scale(geos):
    d = 1
    for g in geos:
        for c in g.columnlist:
            for v in (c.centre[0], c.centre[1], c.surface):
                d = max(d, fr(v).denominator)
        for l in g.layerlist:
            for v in (l.centre, l.bottom):
                d = max(d, fr(v).denominator)
    return d


def geo_fields(g, d):
    def Z(v):
        f = fr(v) * d
        assert f.denominator == 1
        return str(f.numerator)
    lays = ','.join('%s:%s:%s' % (vf.hexs(l.name), Z(l.centre), Z(l.bottom)) for l in g.layerlist)
    cols = ','.join('%s:%s:%s:%s:%d:%s' % (vf.hexs(c.name), Z(c.centre[0]), Z(c.centre[1]), Z(c.surface),
                                           c.num_layers, qstr(c.area)) for c in g.columnlist)
    return [str(g.convention), str(atm_code(g)), lays, cols]


def show_dict(d):
    return ','.join('%s=%s' % (vf.hexs(k), vf.hexs(v)) for k, v in d.items())


def parse_dict(s):
    out = {}
    if not s: return out
    for it in s.split(','):
        a, b = it.split('=')
        out[bytes.fromhex(a).decode('latin-1')] = bytes.fromhex(b).decode('latin-1')
    return out


def parse_q(s):
    a, b = s.split('/')
    return Fraction(int(a), int(b))


# ---------------------------------------------------------------- tie analysis (exact)
def column_tie_classes(src, dst, rel=1e-9):
    """for every target column: (class, names of the source columns at exactly minimal distance, names of those
    within the relative margin), class = 'unique' (clear margin to the runner-up), 'exact-tie' (two or more
    source centres at EXACTLY the same minimal distance: any of them is a valid answer, nearest_spec /
    any_tie_resolution_is_valid) or 'near-tie' (runner-up within the margin but not equal: the only place where
    double rounding can make the implementation differ from the exact model).  Exact rational arithmetic."""
    sc = [(c.name, fr(c.centre[0]), fr(c.centre[1])) for c in src.columnlist]
    out = {}
    for c in dst.columnlist:
        x, y = fr(c.centre[0]), fr(c.centre[1])
        d2 = sorted(((x - a) ** 2 + (y - b) ** 2, n) for n, a, b in sc)
        dmin = d2[0][0]
        exact = [n for d, n in d2 if d == dmin]
        near = [n for d, n in d2 if d - dmin <= rel * (d + dmin + Fraction(1, 10 ** 12))]
        cls = 'unique' if len(near) == 1 else ('exact-tie' if len(exact) == len(near) else 'near-tie')
        out[c.name] = (cls, exact, near)
    return out


def unique_nearest_columns(src, dst, rel=1e-9, classes=None):
    """names of the target columns whose nearest source centre is unique by a clear margin."""
    classes = classes or column_tie_classes(src, dst, rel)
    return set(n for n, v in classes.items() if v[0] == 'unique')


def comparable_layers(src, dst, rel=1e-9):
    """names of the target layers on which numpy's first arg-min of |centre difference| in doubles
    is certain to agree with the exact first arg-min: either a clear margin, or every double
    difference is exact (then ties resolve identically)."""
    sl = src.layerlist[1:]
    ok = set()
    for l in dst.layerlist[1:]:
        ex = [abs(fr(s.centre) - fr(l.centre)) for s in sl]
        fl = [abs(float(s.centre) - float(l.centre)) for s in sl]
        if all(Fraction(f) == e for f, e in zip(fl, ex)):
            ok.add(l.name); continue
        d = sorted(ex)
        if len(d) == 1 or d[1] - d[0] > rel * (d[1] + d[0] + Fraction(1, 10 ** 12)):
            ok.add(l.name)
    return ok


# ---------------------------------------------------------------- generators of geometry pairs
def rnd_sizes(rng, n, lo, hi, grid=None):
    if grid is None: grid = rng.choice([None, 0.5, 1.0, 2.5])
    if grid: return [max(grid, round(rng.uniform(lo, hi) / grid) * grid) for _ in range(n)]
    return [rng.uniform(lo, hi) for _ in range(n)]


def rect_spec(rng, conv=None, atm=None, nx=None, ny=None, nz=None, extent=(100., 80., 60.), origin=None, regular=False):
    conv = rng.randrange(4) if conv is None else conv
    maxcols = 24 if conv == 1 else 40
    nx = nx or rng.randint(1, 6); ny = ny or rng.randint(1, 5); nz = nz or rng.randint(1, 7)
    while nx * ny > maxcols:
        if nx >= ny: nx -= 1
        else: ny -= 1
    if regular:
        dx = [extent[0] / nx] * nx; dy = [extent[1] / ny] * ny; dz = [extent[2] / nz] * nz
    else:
        dx = rnd_sizes(rng, nx, 0.5 * extent[0] / nx, 1.5 * extent[0] / nx)
        dy = rnd_sizes(rng, ny, 0.5 * extent[1] / ny, 1.5 * extent[1] / ny)
        dz = rnd_sizes(rng, nz, 0.5 * extent[2] / nz, 1.5 * extent[2] / nz)
    if origin is None:
        origin = [0., 0., 0.] if rng.random() < 0.4 else [rng.uniform(-20, 20), rng.uniform(-20, 20), rng.choice([0., 0., rng.uniform(-10, 10)])]
    return {'base': {'rect': [dx, dy, dz], 'convention': conv, 'atmos_type': rng.randrange(3) if atm is None else atm,
                     'origin': origin}, 'ops': []}


def columns_keep_a_block(g):
    """every column still has at least one block and its cached layer count points inside the layer list"""
    return all(c.num_layers >= 1 and c.surface > g.layerlist[-1].bottom for c in g.columnlist)


def snap_ops(rng, spec, repo):
    """surface edits through the snapping methods, applied to a geometry whose surfaces may already lie exactly on
    layer boundaries (and possibly applied twice): the geometry reaches its state through a sequence of edits.
    An op is kept only if it leaves every column at least one block."""
    g = build_geo(spec, repo)
    thick = min(float(l.top - l.bottom) for l in g.layerlist[1:])
    s = copy.deepcopy(spec)
    for op in rng.choice([[['snap', 0.3 * thick]], [['snap_nearest']], [['snap_nearest'], ['snap', 0.3 * thick]],
                          [['snap', 0.3 * thick], ['snap', 0.45 * thick]]]):
        t = copy.deepcopy(s); t['ops'].append(op)
        try: ok = columns_keep_a_block(build_geo(t, repo))
        except Exception: ok = False
        if ok: s = t
    return s


def surface_op(rng, spec, repo, frac=0.6, snap=0.5):
    """random surfaces for a fraction of the columns, biased to land exactly on layer bottoms or just above them;
    with probability [snap] followed by the snapping methods."""
    g = build_geo(spec, repo)
    bottoms = [l.bottom for l in g.layerlist[1:]]
    top = g.layerlist[0].bottom
    thick = min(float(l.top - l.bottom) for l in g.layerlist[1:])
    surf = {}
    for c in g.columnlist:
        if rng.random() > frac: continue
        r = rng.random()
        if r < 0.35 and len(bottoms) > 1: z = rng.choice(bottoms[:-1])          # exactly on a layer bottom
        elif r < 0.5 and len(bottoms) > 1: z = rng.choice(bottoms[:-1]) + rng.uniform(0.02, 0.25) * thick   # a thin top block
        elif r < 0.6: z = top
        else: z = rng.uniform(bottoms[-1] + 1e-3 * (top - bottoms[-1]), top)
        surf[c.name] = float(z)
    if not surf: return spec
    s = copy.deepcopy(spec); s['ops'].append(['surface', surf])
    if rng.random() < snap: s = snap_ops(rng, s, repo)
    return s


def subset_names(rng, names, lo=1):
    k = rng.randint(lo, max(lo, len(names)))
    return sorted(rng.sample(list(names), min(k, len(names))))


def gen_pair(rng, family, repo, ta=None, tb=None, thorough=False, shipped=None):
    """-> (family, src_spec, dst_spec).  ta/tb: source/target atmosphere types (None = random);
    shipped: the tests/mulgrid file to use for the shipped-* families (None = random small one)."""
    ta = rng.randrange(3) if ta is None else ta
    tb = rng.randrange(3) if tb is None else tb
    if family == 'rect':
        a = rect_spec(rng, atm=ta); b = rect_spec(rng, atm=tb)
    elif family == 'coarse-fine':
        a = rect_spec(rng, atm=ta, regular=rng.random() < 0.5, origin=[0., 0., 0.])
        b = rect_spec(rng, atm=tb, nx=rng.randint(3, 6), ny=rng.randint(2, 5), regular=rng.random() < 0.5, origin=[0., 0., 0.])
        if rng.random() < 0.5: a, b = b, a
        a['base']['atmos_type'] = ta; b['base']['atmos_type'] = tb
    elif family in ('refine', 'refine-rev'):
        a = rect_spec(rng, atm=ta, nx=rng.randint(1, 4), ny=rng.randint(1, 3))
        if a['base']['convention'] == 1:
            a = rect_spec(rng, conv=1, atm=ta, nx=rng.randint(1, 3), ny=rng.randint(1, 3))
        b = copy.deepcopy(a); b['base']['atmos_type'] = tb
        g = build_geo(a, repo)
        names = [c.name for c in g.columnlist]
        b['ops'].append(['refine', [] if rng.random() < 0.4 else subset_names(rng, names)])
        if family == 'refine-rev':
            a, b = b, a; a['base']['atmos_type'] = ta; b['base']['atmos_type'] = tb
    elif family == 'layer-refine':
        a = rect_spec(rng, atm=ta)
        b = copy.deepcopy(a); b['base']['atmos_type'] = tb
        g = build_geo(a, repo)
        names = [l.name for l in g.layerlist[1:]]
        b['ops'].append(['refine_layers', [] if rng.random() < 0.3 else subset_names(rng, names), rng.choice([2, 2, 3])])
        if rng.random() < 0.4:
            # instead: the copy takes over a TALLER layer structure (copy_layers_from); its ground stays where it was
            b = copy.deepcopy(a); b['base']['atmos_type'] = tb
            ztop = float(g.layerlist[0].bottom); zbot = float(g.layerlist[-1].bottom)
            up = rng.choice([0.2, 0.5, 1.0]) * (ztop - zbot)
            nz = rng.randint(2, 8)
            dz = rnd_sizes(rng, nz, 0.5 * (ztop + up - zbot) / nz, 1.5 * (ztop + up - zbot) / nz)
            b['ops'].append(['copy_layers', dz, ztop + up])
            if not columns_keep_a_block(build_geo(b, repo)):        # the new structure must reach below the ground
                b['ops'][-1] = ['copy_layers', [(ztop + up - zbot) / nz] * nz, ztop + up]
            if rng.random() < 0.3: b = surface_op(rng, b, repo, frac=0.4, snap=0.3)
            if rng.random() < 0.6:
                # ... paired with a geometry that fills the taller structure up to its top (blocks above b's ground)
                cdz = b['ops'][[o[0] for o in b['ops']].index('copy_layers')][1]
                a = copy.deepcopy(a); a['base']['rect'] = [a['base']['rect'][0], a['base']['rect'][1], list(cdz)]
                o = list(a['base'].get('origin') or [0., 0., 0.]); o[2] = ztop + up; a['base']['origin'] = o
                if rng.random() < 0.5: a = surface_op(rng, a, repo, frac=0.5, snap=0.0)
        if rng.random() < 0.5:
            a, b = b, a; a['base']['atmos_type'] = ta; b['base']['atmos_type'] = tb
    elif family == 'shift':
        a = rect_spec(rng, atm=ta)
        b = copy.deepcopy(a); b['base']['atmos_type'] = tb
        if rng.random() < 0.5: b['base']['convention'] = rng.randrange(4)
        if b['base']['convention'] == 1 and len(a['base']['rect'][0]) * len(a['base']['rect'][1]) > 24:
            b['base']['convention'] = a['base']['convention']
        ex = sum(a['base']['rect'][0]); ey = sum(a['base']['rect'][1]); ez = sum(a['base']['rect'][2])
        sh = [rng.uniform(-0.3, 0.3) * ex / len(a['base']['rect'][0]), rng.uniform(-0.3, 0.3) * ey / len(a['base']['rect'][1]),
              rng.choice([0., rng.uniform(-0.3, 0.3) * ez / len(a['base']['rect'][2])])]
        b['ops'].append(['translate', sh])
        r = rng.random()
        if r < 0.5:
            # vertical shifts by MORE than the top layer (up or down), of the default-surface grids themselves: both
            # geometries are moved (the target a little further), so the moved source faces blocks above its old top;
            # half of the time the moved geometry of the pair is the source
            dz = a['base']['rect'][2]
            v = rng.choice([-1, 1, 1]) * rng.uniform(1.1, 2.6) * dz[0]
            b['ops'][-1][1][2] = v + rng.choice([0., 0., 0.4 * dz[0], -0.4 * dz[0]])
            if r < 0.35: a['ops'].append(['translate', [0., 0., v]])
            if rng.random() < 0.5:
                a, b = b, a; a['base']['atmos_type'] = ta; b['base']['atmos_type'] = tb
    elif family == 'reconvention':
        # the same grid (possibly shifted a little) under a DIFFERENT naming convention: layer and column
        # names, incl. the atmosphere layer's (' 0' / 'atm' / 'at'), differ between source and target
        a = rect_spec(rng, atm=ta)
        if len(a['base']['rect'][0]) * len(a['base']['rect'][1]) > 24:
            a = rect_spec(rng, atm=ta, nx=rng.randint(1, 6), ny=rng.randint(1, 4))
        b = copy.deepcopy(a); b['base']['atmos_type'] = tb
        b['base']['convention'] = rng.choice([c for c in range(4) if c != a['base']['convention']])
        if rng.random() < 0.5:
            ex = sum(a['base']['rect'][0]) / len(a['base']['rect'][0]); ey = sum(a['base']['rect'][1]) / len(a['base']['rect'][1])
            b['ops'].append(['translate', [rng.uniform(-0.2, 0.2) * ex, rng.uniform(-0.2, 0.2) * ey, 0.]])
    elif family == 'surface':
        a = rect_spec(rng, atm=ta, nz=rng.randint(2, 7))
        if rng.random() < 0.5:
            b = copy.deepcopy(a); b['base']['atmos_type'] = tb
        else:
            b = rect_spec(rng, atm=tb, nz=rng.randint(2, 7), origin=a['base']['origin'])
        a = surface_op(rng, a, repo); b = surface_op(rng, b, repo, frac=rng.choice([0.0, 0.5, 0.8]))
    elif family == 'identical':
        a = rect_spec(rng, atm=ta)
        if rng.random() < 0.6: a = surface_op(rng, a, repo)
        b = copy.deepcopy(a)
    elif family == 'shipped-self':
        f = shipped or rng.choice(SHIPPED[:3] if not thorough else SHIPPED)
        a = {'base': {'file': f, 'atmos_type': ta}, 'ops': []}
        b = {'base': {'file': f, 'atmos_type': tb}, 'ops': []}
        if rng.random() < 0.5:
            b['ops'].append(['translate', [rng.uniform(-30, 30), rng.uniform(-30, 30), 0.]])
    elif family == 'shipped-rect':
        f = shipped or rng.choice(SHIPPED[:3] if not thorough else SHIPPED[:6])
        a = {'base': {'file': f, 'atmos_type': ta}, 'ops': []}
        g = build_geo(a, repo)
        (x0, y0), (x1, y1) = g.bounds
        ztop = g.layerlist[0].bottom; zbot = g.layerlist[-1].bottom
        b = rect_spec(rng, atm=tb, extent=(float(x1 - x0), float(y1 - y0), float(ztop - zbot)),
                      origin=[float(x0), float(y0), float(ztop)])
        if rng.random() < 0.5: a, b = b, a; a['base']['atmos_type'] = ta; b['base']['atmos_type'] = tb
    else:
        raise ValueError(family)
    return family, a, b


# 12 entries: pair i takes family i % 12 and atmosphere combination (i // 12 + i) % 9, so that every family
# meets all nine (source, target) atmosphere arrangements within 9 rounds (13 is coprime to 9)
FAMILIES = ['rect', 'coarse-fine', 'refine', 'refine-rev', 'layer-refine', 'shift', 'surface', 'surface',
            'identical', 'shipped-self', 'shipped-rect', 'reconvention']


def moves(rng, g):
    """in-place edits of an existing geometry object (after mappings have been computed from it):
    a shift of about one column, a rotation, new column surfaces."""
    (x0, y0), (x1, y1) = g.bounds
    n = max(1, int(round(g.num_columns ** 0.5)))
    w = max(float(x1 - x0), float(y1 - y0)) / n
    top_thick = float(g.layerlist[1].top - g.layerlist[1].bottom)
    out = [['translate', [rng.choice([-1, 1]) * rng.uniform(0.8, 1.6) * w, rng.choice([-1, 1]) * rng.uniform(0.8, 1.6) * w,
                          rng.choice([0., 1., 1., -1.]) * rng.uniform(1.1, 2.6) * top_thick]],       # also up/down by more than the top layer
           ['rotate', rng.choice([90., 180., rng.uniform(20., 70.)])]]
    bottoms = [float(l.bottom) for l in g.layerlist[1:]]
    if len(bottoms) > 1:
        names = [c.name for c in g.columnlist]
        out.append(['surface', {nm: rng.choice(bottoms[:-1]) for nm in rng.sample(names, max(1, len(names) // 2))}])
    return out


def relayer_move(rng, g):
    """in-place edit: the geometry takes over a taller layer structure (copy_layers_from)"""
    ztop = float(g.layerlist[0].bottom); zbot = float(g.layerlist[-1].bottom)
    up = rng.choice([0.3, 0.6]) * (ztop - zbot)
    nz = rng.randint(2, 7)
    return [['copy_layers', rnd_sizes(rng, nz, 0.5 * (ztop + up - zbot) / nz, 1.5 * (ztop + up - zbot) / nz), ztop + up]]


def snap_moves(rng, g):
    """a two-step in-place edit: surfaces put exactly on layer boundaries / just above, then a snapping method"""
    bottoms = [float(l.bottom) for l in g.layerlist[1:]]
    if len(bottoms) < 3: return []
    thick = min(float(l.top - l.bottom) for l in g.layerlist[1:])
    names = [c.name for c in g.columnlist]
    surf = {nm: (rng.choice(bottoms[:-2]) + rng.choice([0., 0., rng.uniform(0.02, 0.25) * thick]))
            for nm in rng.sample(names, max(1, (2 * len(names)) // 3))}
    return [['surface', surf], rng.choice([['snap', 0.3 * thick], ['snap_nearest']])]


def apply_ops(g, ops):
    """apply geometry ops to an EXISTING object (same code path as build_geo's op loop)."""
    for op in ops:
        k = op[0]
        if k == 'translate': g.translate(list(op[1]))
        elif k == 'rotate': g.rotate(op[1])
        elif k == 'surface':
            for name, z in op[1].items():
                col = g.column[name]
                col.surface = z
                g.set_column_num_layers(col)
            g.setup_block_name_index(); g.setup_block_connection_name_index()
        elif k == 'snap': g.snap_columns_to_layers(op[1])
        elif k == 'snap_nearest': g.snap_columns_to_nearest_layers()
        elif k == 'copy_layers': copy_layers(g, op[1], op[2])
        else: raise ValueError('unknown in-place op %r' % (k,))
    return g
