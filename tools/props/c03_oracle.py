"""C03: geometry population, abstract-geometry extraction, and the oracle (the property
statement evaluated on the implementation alone).

A geometry is described by a *recipe* (a JSON-able dict) so that any failing input can be
replayed: base ('rect' with its arguments, or a shipped file) + ops (refine / reduce /
rotate / translate, surfaces, wells, header options).  build(recipe, repo) is deterministic."""
import os, math, random, tempfile, shutil, io, contextlib, json
import numpy as np

SHIPPED = ['g1.dat', 'g2.dat', 'g3.dat', 'g4.dat', 'g5.dat', 'g6.dat', 'g7.dat']
BLOCK_ORDER_INT = {None: None, 'layer_column': 0, 'dmplex': 1}
# witness of the recorded finding write:layer-centre-prints-zero (known_findings.txt): layer ' 2' lies between 0.5051
# and -0.5049, its centre 0.0001 prints as 0.00, which read_layers takes for "absent" and replaces by the mid-point of
# the printed bottoms 0.51 and -0.50 = 0.005000000000000004, printed as 0.01 by the second write
WITNESS_CENTRE_ZERO = {'kind': 'rect', 'xb': [100.0, 100.0], 'yb': [100.0], 'zb': [10.0, 1.01, 30.0], 'conv': 0, 'atm': 2, 'case': None,
                       'bo': None, 'origin': [0.0, 0.0, 10.5051], 'ops': []}
# a mesh rotated by 180 degrees about the origin: coordinates like -1.2e-14 (they print as '-0.00', are re-read as -0.0
# and must be written as '-0.00' again), mixed 3- and 4-node columns after refine, block order set and reset
ROTATED_180 = {'kind': 'rect', 'xb': [100.0, 150.0, 200.0], 'yb': [120.0, 80.0], 'zb': [10.0, 20.0, 30.0], 'conv': 0, 'atm': 1, 'case': None,
               'bo': None, 'origin': [0.0, 0.0, 0.0],
               'ops': [['refine', 0.5, 7], ['rotate', 180.0], ['wells', 2, 11], ['block_order_seq', ['dmplex', None]]]}
FIXED = [WITNESS_CENTRE_ZERO, ROTATED_180]


# ---------------------------------------------------------------- numbers
def fenc(x):
    """exact double -> 'neg:m:e' with odd m (the model's canonical form)"""
    x = float(x)
    if x != x or x in (math.inf, -math.inf): raise ValueError('non-finite coordinate')
    neg = 1 if math.copysign(1.0, x) < 0 else 0
    if x == 0: return '%d:0:0' % neg
    n, d = abs(x).as_integer_ratio()
    e = 0
    if d > 1: e = -(d.bit_length() - 1)
    else:
        while n % 2 == 0: n //= 2; e += 1
    return '%d:%d:%d' % (neg, n, e)


def fdec(tok):
    ng, m, e = tok.split(':')
    return math.ldexp(int(m), int(e)) * (-1 if ng == '1' else 1)


def hexs(s):
    return s.encode('latin-1').hex()


# ---------------------------------------------------------------- abstract geometry
def abstract(g):
    """The abstract geometry of the model, through public attributes of the object."""
    a = {}
    a['hdr'] = dict(type=g.type, conv=g.convention, atm=g.atmosphere_type, vol=float(g.atmosphere_volume),
                    con=float(g.atmosphere_connection), unit=g.unit_type,
                    gdcx=None if g.gdcx is None else float(g.gdcx), gdcy=None if g.gdcy is None else float(g.gdcy),
                    cntype=g.cntype, angle=float(g.permeability_angle), bo=BLOCK_ORDER_INT[g.block_order])
    a['nodes'] = [(n.name, float(n.pos[0]), float(n.pos[1])) for n in g.nodelist]
    a['cols'] = [(c.name, (float(c.centre[0]), float(c.centre[1])) if c.centre_specified else None,
                  None if c.default_surface else float(c.surface), [n.name for n in c.node]) for c in g.columnlist]
    a['cons'] = [(con.column[0].name, con.column[1].name) for con in g.connectionlist]
    a['lays'] = [(l.name, float(l.bottom), float(l.centre)) for l in g.layerlist]
    a['wells'] = [(w.name, [tuple(float(x) for x in p) for p in w.pos]) for w in g.welllist]
    return a


def tokens(a):
    h = a['hdr']
    def oz(v): return 'N' if v is None else '%d' % v
    def of(v): return 'N' if v is None else fenc(v)
    t = [hexs(h['type']), '%d' % h['conv'], '%d' % h['atm'], fenc(h['vol']), fenc(h['con']), hexs(h['unit']),
         of(h['gdcx']), of(h['gdcy']), oz(h['cntype']), fenc(h['angle']), oz(h['bo'])]
    t.append('%d' % len(a['nodes']))
    for nm, x, y in a['nodes']: t += [hexs(nm), fenc(x), fenc(y)]
    t.append('%d' % len(a['cols']))
    for nm, ctr, sf, nodes in a['cols']:
        t += [hexs(nm), of(ctr[0]) if ctr else 'N', of(ctr[1]) if ctr else 'N', of(sf), '%d' % len(nodes)] + [hexs(n) for n in nodes]
    t.append('%d' % len(a['cons']))
    for c1, c2 in a['cons']: t += [hexs(c1), hexs(c2)]
    t.append('%d' % len(a['lays']))
    for nm, b, c in a['lays']: t += [hexs(nm), fenc(b), fenc(c)]
    t.append('%d' % len(a['wells']))
    for nm, pts in a['wells']:
        t += [hexs(nm), '%d' % len(pts)]
        for p in pts: t += [fenc(p[0]), fenc(p[1]), fenc(p[2])]
    return t


# ---------------------------------------------------------------- population
def rnd_len(rng, style):
    if style == 'int': return float(rng.randint(1, 500))
    if style == 'dec2': return round(rng.uniform(0.5, 800.0), 2)
    if style == 'dec1': return round(rng.uniform(0.5, 2000.0), 1)
    return rng.uniform(0.3, 1500.0)          # arbitrary double


def gen_rect(rng, big=False):
    style = rng.choice(['int', 'dec2', 'dec1', 'any', 'any'])
    nx, ny, nz = rng.randint(1, 6 if big else 4), rng.randint(1, 6 if big else 4), rng.randint(1, 7)
    r = {'kind': 'rect',
         'xb': [rnd_len(rng, style) for _ in range(nx)], 'yb': [rnd_len(rng, style) for _ in range(ny)],
         'zb': [rnd_len(rng, rng.choice(['int', 'dec2', 'any'])) for _ in range(nz)],
         'conv': rng.randint(0, 3), 'atm': rng.randint(0, 2), 'case': rng.choice([None, 'u', 'l']),
         'bo': rng.choice([None, 'layer_column', 'dmplex'])}
    o = rng.random()
    if o < 0.35: r['origin'] = [0.0, 0.0, 0.0]
    elif o < 0.6: r['origin'] = [round(rng.uniform(-5000, 5000), 2), round(rng.uniform(-5000, 5000), 2), round(rng.uniform(-500, 3000), 2)]
    elif o < 0.8: r['origin'] = [rng.uniform(-90000, 90000), rng.uniform(-90000, 90000), rng.uniform(-900, 4000)]
    else:
        # towards the 10-column limit: 9999999.99 / -999999.99
        r['origin'] = [rng.choice([9.9e6 - sum(r['xb']) - 1, -9.99e5, 2774808.67, 6284501.92]),
                       rng.choice([9.9e6 - sum(r['yb']) - 1, -9.99e5, 6292000.0]), rng.choice([0.0, 5.0, 2500.0])]
    if rng.random() < 0.15:      # a layer centred exactly on 0.0 (`if centre:` treats 0.0 as absent)
        r['zb'] = [10.0] * len(r['zb']); r['origin'][2] = 5.0 + 10.0 * rng.randint(0, len(r['zb']) - 1)
    return r


def gen_ops(rng, recipe, ncols_hint=12):
    ops = []
    big = ncols_hint > 400
    if rng.random() < (0.15 if big else 0.35): ops.append(['rotate', rng.choice([30.0, 90.0, -45.0, 180.0, 180.0, rng.uniform(-180, 180)])])
    if rng.random() < 0.3: ops.append(['translate', [rng.uniform(-1000, 1000), round(rng.uniform(-1000, 1000), 2), rng.choice([0.0, round(rng.uniform(-50, 50), 1)])]])
    if rng.random() < (0.1 if big else 0.3): ops.append(['refine', rng.uniform(0.05, 0.5 if ncols_hint < 100 else 0.1), rng.randint(0, 10 ** 6)])
    if rng.random() < 0.25: ops.append(['reduce', rng.uniform(0.3, 0.9), rng.randint(0, 10 ** 6)])
    # geometries that reached their state through edits (dict order != list order, orphan nodes, regenerated layers)
    if rng.random() < 0.2: ops.append(['delete_column', rng.randint(0, 10 ** 6)])
    if rng.random() < 0.25: ops.append(['refine_layers', rng.randint(0, 10 ** 6)])
    s = rng.random()
    if s < 0.25: pass
    elif s < 0.4: ops.append(['surface', 1.0, rng.randint(0, 10 ** 6)])
    else: ops.append(['surface', rng.choice([0.02, 0.1, 0.3, 0.6, 0.9]), rng.randint(0, 10 ** 6)])
    if rng.random() < 0.6: ops.append(['wells', rng.randint(1, 5), rng.randint(0, 10 ** 6)])
    if rng.random() < 0.3: ops.append(['rename_layer', rng.randint(0, 10 ** 6)])
    if rng.random() < 0.25: ops.append(['rename_column', rng.randint(0, 10 ** 6)])
    if rng.random() < 0.35: ops.append(['unit', 'FEET '])
    # header configurations reached by REPEATED assignment: block order set, then set to something else / back to None
    if rng.random() < 0.3:
        ops.append(['block_order_seq', rng.choice([['dmplex', None], ['layer_column', None], ['layer_column', 'dmplex'], ['dmplex', 'layer_column'],
                                                   ['dmplex', None, 'layer_column'], ['layer_column', None, None]])])
    if rng.random() < 0.3:
        ops.append(['header', {'vol': rng.choice([1e25, 1e30, 1.0e20, 1e50, 12345.678]), 'con': rng.choice([1e-6, 1e-5, 2.5e-7]),
                               'angle': rng.choice([0.0, 45.0, -30.5, round(rng.uniform(-180, 180), 2), rng.uniform(-90, 90)])}])
    return ops


def gen_recipe(rng, i, thorough):
    """The i-th geometry of the population."""
    if i < len(SHIPPED):
        return {'kind': 'file', 'name': SHIPPED[i], 'ops': []}
    if i < len(SHIPPED) + len(FIXED):
        return json.loads(json.dumps(FIXED[i - len(SHIPPED)]))
    u = rng.random()
    if u < 0.78:
        r = gen_rect(rng, big=(rng.random() < 0.15))
        r['ops'] = gen_ops(rng, r, len(r['xb']) * len(r['yb']))
        return r
    # derivatives of the shipped geometries; the small ones more often (building is the cost)
    name = rng.choice(['g7.dat'] * 6 + ['g6.dat'] * 3 + ['g5.dat'] * 3 + ['g1.dat'] * 3 + ['g3.dat'] * 2 + ['g2.dat', 'g4.dat'])
    r = {'kind': 'file', 'name': name}
    r['ops'] = gen_ops(rng, r, {'g7.dat': 108, 'g6.dat': 315, 'g5.dat': 320, 'g1.dat': 312, 'g3.dat': 489, 'g2.dat': 1036, 'g4.dat': 1334}[name])
    if rng.random() < 0.4 and name in ('g5.dat', 'g6.dat', 'g7.dat', 'g4.dat', 'g2.dat'):
        r['ops'].append(['block_order', rng.choice(['layer_column', 'dmplex'])])
    return r


def quiet(f, *a, **k):
    with contextlib.redirect_stdout(io.StringIO()):
        return f(*a, **k)


def build(recipe, repo):
    """Recipe -> mulgrid object (deterministic).  Ops the implementation rejects are skipped."""
    import mulgrids
    from mulgrids import mulgrid, well
    if recipe['kind'] == 'rect':
        g = mulgrid().rectangular(recipe['xb'], recipe['yb'], recipe['zb'], convention=recipe['conv'], atmos_type=recipe['atm'],
                                  origin=list(recipe['origin']), justify='r', case=recipe['case'], block_order=recipe['bo'])
    else:
        g = quiet(mulgrid, os.path.join(repo, 'tests', 'mulgrid', recipe['name']))
    touched = False
    for op in recipe.get('ops', []):
        k = op[0]
        try:
            if k == 'rotate': g.rotate(op[1], wells=True)
            elif k == 'translate': g.translate(list(op[1]), wells=True)
            elif k == 'refine':
                r = random.Random(op[2])
                cols = [c for c in g.columnlist if c.num_nodes in (3, 4) and r.random() < op[1]]
                if cols: quiet(g.refine, cols)
            elif k == 'reduce':
                r = random.Random(op[2])
                cols = [c for c in g.columnlist if r.random() < op[1]]
                if len(cols) >= 1: quiet(g.reduce, cols)
            elif k == 'surface':
                r = random.Random(op[2])
                bots = [l.bottom for l in g.layerlist]
                top, bot = bots[0], bots[-1]
                for c in g.columnlist:
                    if r.random() >= op[1]: continue
                    m = r.random()
                    lo = bot + 0.4 * (top - bot)
                    if m < 0.5: s = min(top, round(r.uniform(lo, top), r.choice([0, 1, 2])))
                    elif m < 0.65: s = r.choice(bots[:-1])              # exactly on a layer boundary
                    else: s = r.uniform(lo, top)
                    # two decimals cannot tell on which side of a layer boundary an arbitrary double
                    # was: within 0.02 of a boundary, take the boundary itself
                    for b in bots:
                        if abs(s - b) < 0.02: s = b
                    c.surface = s
                    g.set_column_num_layers(c)
                touched = True
            elif k == 'wells':
                r = random.Random(op[2])
                x0, x1 = g.bounds
                top, bot = g.layerlist[0].bottom, g.layerlist[-1].bottom
                for j in range(op[1]):
                    nm = r.choice(['W%d' % (j + 1), 'w %2d' % (j + 1), 'AB%3d' % (j + 7), 'well%d' % j, '%5s' % ('x%d' % j), 'Zz%d' % j])
                    npt = r.randint(2, 6)
                    if j == 0: npt0 = npt
                    elif j == 1 and npt == npt0: npt = 2 if npt0 != 2 else 5      # different numbers of track points
                    p = np.array([r.uniform(x0[0], x1[0]), r.uniform(x0[1], x1[1]), top + r.choice([0.0, 3.0])])
                    pts = [p.copy()]
                    for _ in range(npt - 1):
                        p = p + np.array([r.uniform(-30, 30), r.uniform(-30, 30), -abs(top - bot) / npt * r.uniform(0.5, 1.0)])
                        pts.append(np.round(p, r.choice([0, 1, 1, 2, 6])))
                    g.add_well(well(nm, pts))
            elif k == 'delete_column':
                r = random.Random(op[1])
                if g.num_columns > 2:
                    g.delete_column(r.choice(g.columnlist).name)
                    if r.random() < 0.5: g.delete_orphans()
                    touched = True
            elif k == 'refine_layers':
                r = random.Random(op[1])
                lays = [l.name for l in g.layerlist[1:] if r.random() < 0.4]
                if lays and g.num_layers - 1 + len(lays) <= 60:
                    g.refine_layers(lays, factor=2)
            elif k == 'rename_layer':
                # any layer but the last: its dictionary key moves to the end, the list keeps its place
                r = random.Random(op[1])
                if g.num_layers >= 3:
                    lay = r.choice(g.layerlist[1:-1]) if r.random() < 0.8 else g.layerlist[0]
                    used = set(g.layer)
                    cand = [(a + b).rjust(g.layername_length) for a in 'zyxq' for b in 'zyxqj']
                    cand = [c for c in cand if c not in used]
                    if cand: g.rename_layer(lay.name, r.choice(cand))
            elif k == 'rename_column':
                r = random.Random(op[1])
                used = set(g.column)
                cand = [(a + b).rjust(g.colname_length) for a in 'zyxq' for b in 'zyxqj']
                cand = [c for c in cand if c not in used]
                if cand and g.num_columns >= 1: g.rename_column(r.choice(g.columnlist[:-1] or g.columnlist).name, r.choice(cand))
            elif k == 'unit': g.unit_type = op[1]
            elif k == 'block_order': g.block_order = op[1]
            elif k == 'block_order_seq':
                # only VALID assignments: 'dmplex' is refused (exception) for a mesh with a column of more than 4 nodes, and
                # the refused setter leaves block_name_list truncated -- a refused call is not a configuration of the geometry
                for bo in op[1]:
                    if bo == 'dmplex' and not all(c.num_nodes in (3, 4) for c in g.columnlist): continue
                    try: g.block_order = bo
                    except Exception:
                        g.block_order = None
                        g.setup_block_name_index(); g.setup_block_connection_name_index()
            elif k == 'header':
                g.atmosphere_volume, g.atmosphere_connection, g.permeability_angle = op[1]['vol'], op[1]['con'], op[1]['angle']
        except Exception:
            if k in ('block_order',):
                g.block_order = None     # e.g. dmplex with a 5-sided column
                touched = True           # the refused setter left the name lists truncated: rebuild them
            continue
    # two decimals cannot tell on which side of a layer boundary a surface lies when the two differ by less than the
    # printed precision (refine_layers recomputes the bottoms: 985.5999999999999 under a surface left at 985.6): such a
    # geometry is outside cmp_ok / sep_ok (NameLists.v, Margin.v); put every non-default surface that close to a
    # boundary ON the boundary -- whatever ops came after the 'surface' op
    if recipe.get('ops') and g.num_layers > 0:
        bots = [l.bottom for l in g.layerlist]
        for c in g.columnlist:
            if c.default_surface: continue
            for b in bots:
                if c.surface != b and abs(c.surface - b) < 0.02:
                    c.surface = b; g.set_column_num_layers(c); touched = True
    if touched:
        g.setup_block_name_index(); g.setup_block_connection_name_index()
    return g


# ---------------------------------------------------------------- the quantifier (what a valid input is)
def in_quantifier(a, tables):
    """Right-justified names of the convention's lengths, coordinates that fit their 10
    columns at full precision, >= 2 points per well.  Returns None or the reason."""
    import mulgrids
    conv = a['hdr']['conv']
    cl, ll = [3, 2, 3, 3][conv], [2, 3, 2, 2][conv]
    def name_ok(nm, n): return len(nm) == n and nm == nm.strip().rjust(n) and nm.strip() != ''
    for nm, x, y in a['nodes']:
        if not name_ok(nm, cl): return 'node name %r' % nm
    for nm, ctr, sf, nodes in a['cols']:
        if not name_ok(nm, cl): return 'column name %r' % nm
    for nm, b, c in a['lays']:
        if not name_ok(nm, ll): return 'layer name %r' % nm
    sc = {'': 1.0, 'FEET ': 0.3048}[a['hdr']['unit']]
    def fits(v, spec):
        return len(('%' + spec) % (v / sc)) <= int(spec.split('.')[0])
    spec = tables['mulgrid_format']
    for nm, x, y in a['nodes']:
        if not (fits(x, spec['node'][1][1]) and fits(y, spec['node'][1][2])): return 'node coordinate too wide'
    for nm, ctr, sf, nodes in a['cols']:
        if ctr and not (fits(ctr[0], spec['column'][1][3]) and fits(ctr[1], spec['column'][1][4])): return 'centre too wide'
        if sf is not None and not fits(sf, spec['surface'][1][1]): return 'surface too wide'
        if len(nodes) > 99: return 'too many nodes'
    for nm, b, c in a['lays']:
        if not (fits(b, spec['layer'][1][1]) and fits(c, spec['layer'][1][2])): return 'layer elevation too wide'
    for nm, pts in a['wells']:
        if len(pts) < 2: return 'well with fewer than two points'
        if len(nm) > 5: return 'well name too long'
        for p in pts:
            if not all(fits(p[i], spec['well'][1][1 + i]) for i in range(3)): return 'well coordinate too wide'
    return None


# ---------------------------------------------------------------- the oracle
def prec_of(spec):
    return int(spec[:-1].partition('.')[2] or 0)


def classify(a):
    """input class of a failing geometry, for the finding key"""
    if a['hdr']['unit'] == 'FEET ': return 'unit-type-feet'
    if any(sf is not None for _, _, sf, _ in a['cols']): return 'non-default-surface'
    if a['wells']: return 'wells'
    if any(ctr for _, ctr, _, _ in a['cols']): return 'specified-centre'
    if a['hdr']['bo'] is not None: return 'block-order'
    return 'plain'


def only_zero_centres_differ(l1, l2, spec):
    """Classifier of the recorded finding write:layer-centre-prints-zero: the two files have the same number of lines
    and differ only in lines of the LAYERS section whose centre field in the FIRST file is zero (0.00 / -0.00), and
    there only in that field."""
    if len(l1) != len(l2) or 'LAYERS' not in l1: return False
    lo = l1.index('LAYERS') + 1
    hi = lo
    while hi < len(l1) and l1[hi].strip(): hi += 1
    w = [int(f[:-1].partition('.')[0]) for f in spec['layer'][1]]
    c0, c1 = w[0] + w[1], w[0] + w[1] + w[2]
    some = False
    for i, (x, y) in enumerate(zip(l1, l2)):
        if x == y: continue
        if not (lo <= i < hi): return False
        if x[:c0] != y[:c0] or x[c1:] != y[c1:]: return False
        try:
            if float(x[c0:c1]) != 0.0: return False
        except ValueError: return False
        some = True
    return some


def check_roundtrip(g, tables, tmpdir, tag='g'):
    """The property statement on the implementation.  Returns (None | (callsite, observed, required)), files"""
    from mulgrids import mulgrid
    spec = tables['mulgrid_format']
    f1, f2 = os.path.join(tmpdir, tag + '_1.dat'), os.path.join(tmpdir, tag + '_2.dat')
    a = abstract(g)
    bnl, bcnl = list(g.block_name_list), list(g.block_connection_name_list)
    try: g.write(f1)
    except Exception as e: return ('write', 'write raised %s: %s' % (type(e).__name__, e), 'a geometry inside the quantifier is written'), a, None, None
    # results must not depend on files read earlier in the process: first write and read another geometry with two
    # wells of different lengths, and require ITS wells back point for point
    from mulgrids import well as _well
    pr = mulgrid().rectangular([50., 60.], [70.], [10., 20.])
    ptracks = [('PR  1', [[5., 5., 0.], [5., 6., -20.]]), ('PR  2', [[80., 30., 0.], [81., 31., -5.], [82., 32., -12.5], [83., 33., -28.]])]
    for nm, pts in ptracks: pr.add_well(_well(nm, [np.array(q) for q in pts]))
    fp = os.path.join(tmpdir, tag + '_primer.dat')
    try:
        pr.write(fp); pq = quiet(mulgrid, fp)
        got = [(w.name, [[float(x) for x in q] for q in w.pos]) for w in pq.welllist]
    except Exception as e:
        return ('read', 'write/read of a two-well geometry raised %s: %s' % (type(e).__name__, e), 'the written file is read back', 'several-wells'), a, f1, None
    if got != ptracks:
        return ('read_wells', 'two wells with 2 and 4 track points %r re-read as %s' % (
            [(n, len(p)) for n, p in ptracks], [(n, len(p)) for n, p in got]), 'same well tracks, point for point', 'several-wells'), a, f1, None
    try: h = quiet(mulgrid, f1)
    except Exception as e: return ('read', 'reading the written file raised %s: %s' % (type(e).__name__, e), 'the written file is read back'), a, f1, None
    b = abstract(h)
    sc = {'': 1.0, 'FEET ': 0.3048}[a['hdr']['unit']]
    def close(x, y, p):
        # equal to the p decimals the format carries (in file units), plus double rounding noise
        return abs(x - y) <= (0.5 * 10.0 ** (-p)) * sc * (1 + 1e-9) + 1e-9 * max(1.0, abs(x))
    ha, hb = a['hdr'], b['hdr']
    for k in ('type', 'conv', 'atm', 'unit', 'cntype', 'bo'):
        if ha[k] != hb[k]: return ('read_header', 'header %s: %r -> %r' % (k, ha[k], hb[k]), 'same header options'), a, f1, None
    for k, sp in (('vol', spec['header'][1][3]), ('con', spec['header'][1][4])):
        want = float(('%' + sp) % ha[k])
        if hb[k] != want: return ('read_header', 'header %s: %r -> %r' % (k, ha[k], hb[k]), 'same atmosphere sizes to the digits of the format'), a, f1, None
    if not abs(ha['angle'] - hb['angle']) <= 0.005 * (1 + 1e-9): return ('read_header', 'permeability angle %r -> %r' % (ha['angle'], hb['angle']), 'same angle to two decimals'), a, f1, None
    for k in ('gdcx', 'gdcy'):
        if (ha[k] is None) != (hb[k] is None) or (ha[k] is not None and abs(ha[k] - hb[k]) > 0.005 * (1 + 1e-9)):
            return ('read_header', 'header %s: %r -> %r' % (k, ha[k], hb[k]), 'same tilt option'), a, f1, None
    pn = [prec_of(s) for s in spec['node'][1]]
    if [n[0] for n in a['nodes']] != [n[0] for n in b['nodes']]:
        return ('read_nodes', 'node names/order differ (%d -> %d nodes)' % (len(a['nodes']), len(b['nodes'])), 'same nodes in the same order'), a, f1, None
    for (nm, x, y), (_, x2, y2) in zip(a['nodes'], b['nodes']):
        if not (close(x, x2, pn[1]) and close(y, y2, pn[2])):
            return ('read_nodes', 'node %r: (%r, %r) -> (%r, %r)' % (nm, x, y, x2, y2), 'node coordinates equal to the decimals of the format'), a, f1, None
    pc = [prec_of(s) for s in spec['column'][1]]
    if [c[0] for c in a['cols']] != [c[0] for c in b['cols']]:
        return ('read_columns', 'column names/order differ (%d -> %d columns)' % (len(a['cols']), len(b['cols'])), 'same columns in the same order'), a, f1, None
    for (nm, ctr, sf, nodes), (_, ctr2, sf2, nodes2) in zip(a['cols'], b['cols']):
        if nodes != nodes2: return ('read_columns', 'column %r nodes %r -> %r' % (nm, nodes, nodes2), 'same node order'), a, f1, None
        if (ctr is None) != (ctr2 is None): return ('read_columns', 'column %r centre_specified %r -> %r' % (nm, ctr, ctr2), 'same optional specified centre'), a, f1, None
        if ctr and not (close(ctr[0], ctr2[0], pc[3]) and close(ctr[1], ctr2[1], pc[4])):
            return ('read_columns', 'column %r centre %r -> %r' % (nm, ctr, ctr2), 'same specified centre'), a, f1, None
        if (sf is None) != (sf2 is None): return ('read_surface', 'column %r surface %r -> %r' % (nm, sf, sf2), 'the same non-default surface elevations'), a, f1, None
        if sf is not None and not close(sf, sf2, prec_of(spec['surface'][1][1])):
            return ('read_surface', 'column %r surface %r -> %r' % (nm, sf, sf2), 'the same non-default surface elevations'), a, f1, None
    if a['cons'] != b['cons']: return ('read_connections', 'connections differ (%d -> %d)' % (len(a['cons']), len(b['cons'])), 'same connections in the same order'), a, f1, None
    pl = [prec_of(s) for s in spec['layer'][1]]
    if [l[0] for l in a['lays']] != [l[0] for l in b['lays']]: return ('read_layers', 'layer names differ', 'same layers in the same order'), a, f1, None
    for (nm, bt, c), (_, bt2, c2) in zip(a['lays'], b['lays']):
        # a centre that prints as zero is re-derived as the mid-point of the (rounded) bottoms
        ctol = 2 if abs(c / sc) < 0.5 * 10.0 ** (-pl[2]) else 1
        if not close(bt, bt2, pl[1]) or not abs(c - c2) <= ctol * (0.5 * 10.0 ** (-pl[2])) * sc * (1 + 1e-9) + 1e-9 * max(1.0, abs(c)):
            return ('read_layers', 'layer %r: bottom %r centre %r -> %r, %r' % (nm, bt, c, bt2, c2), 'same layer elevations'), a, f1, None
    pw = [prec_of(s) for s in spec['well'][1]]
    wn = [('%' + spec['well'][1][0]) % w[0] for w in a['wells']]
    if wn != [w[0] for w in b['wells']]: return ('read_wells', 'well names %r -> %r' % (wn, [w[0] for w in b['wells']]), 'same wells in the same order'), a, f1, None
    for (nm, pts), (_, pts2) in zip(a['wells'], b['wells']):
        if len(pts) != len(pts2):
            return ('read_wells', 'well %r: %d track points -> %d' % (nm, len(pts), len(pts2)), 'same well track, point for point', 'several-wells' if len(a['wells']) > 1 else 'wells'), a, f1, None
        if not all(close(p[i], q[i], pw[1 + i]) for p, q in zip(pts, pts2) for i in range(3)):
            return ('read_wells', 'well %r track %r -> %r' % (nm, pts[:8], pts2[:8]), 'same well track'), a, f1, None
    if list(h.block_name_list) != bnl:
        return ('setup_block_name_index', 'block_name_list differs (%d -> %d names)' % (len(bnl), len(h.block_name_list)), 'identical block name list'), a, f1, None
    if list(h.block_connection_name_list) != bcnl:
        return ('setup_block_connection_name_index', 'block_connection_name_list differs (%d -> %d)' % (len(bcnl), len(h.block_connection_name_list)), 'identical connection name list'), a, f1, None
    try: h.write(f2)
    except Exception as e: return ('write', 'writing the re-read geometry raised %s' % type(e).__name__, 'second write succeeds'), a, f1, None
    t1, t2 = open(f1, newline='').read(), open(f2, newline='').read()
    if t1 != t2:
        l1, l2 = t1.split('\n'), t2.split('\n')
        d = next((i for i, (x, y) in enumerate(zip(l1, l2)) if x != y), min(len(l1), len(l2)))
        fail = ('write', 'second file differs at line %d: %r vs %r' % (d + 1, l1[d] if d < len(l1) else None, l2[d] if d < len(l2) else None),
                'writing the re-read geometry reproduces the first file byte for byte')
        if only_zero_centres_differ(l1, l2, spec): fail = fail + ('layer-centre-prints-zero',)
        return fail, a, f1, f2
    if ha['unit'] == 'FEET ' and a['nodes']:
        # the file holds feet: the first node line carries x / 0.3048 to two decimals
        lines = t1.split('\n')
        w0 = int(spec['node'][1][0][:-1]); w1 = int(spec['node'][1][1].split('.')[0])
        xs = float(lines[2][w0:w0 + w1])
        if abs(xs - a['nodes'][0][1] / 0.3048) > 0.005 * (1 + 1e-9) or hb['unit'] != 'FEET ' or h.unit_scale != 0.3048:
            return ('write_nodes', 'file x of first node %r for %r m (unit %r, scale %r)' % (xs, a['nodes'][0][1], hb['unit'], h.unit_scale),
                    'for a geometry in feet the file holds feet and the re-read geometry is in metres'), a, f1, None
    # "reading it back" through the read() METHOD of objects that already hold a geometry: the object that wrote the
    # file, and an object holding a different geometry; both must end up exactly as the fresh mulgrid(filename)
    other = mulgrid().rectangular([7., 9., 11.], [13., 17.], [3., 4., 5.], convention=ha['conv'], atmos_type=(ha['atm'] + 1) % 3)
    other.add_well(_well('OLD 1', [np.array([1., 2., 0.]), np.array([1., 2., -9.])]))
    other.add_well(_well('OLD 2', [np.array([3., 2., 0.]), np.array([3., 2., -4.]), np.array([3., 3., -9.])]))
    for who, obj in (('an object holding a different geometry', other), ('the object that wrote the file', g)):
        try: quiet(obj.read, f1)
        except Exception as e:
            return ('read', 'read(filename) on %s raised %s: %s' % (who, type(e).__name__, e), 'the written file is read back', 'used-object'), a, f1, f2
        c = abstract(obj)
        if c != b or list(obj.block_name_list) != list(h.block_name_list) or \
                list(obj.block_connection_name_list) != list(h.block_connection_name_list):
            diff = next((k for k in ('hdr', 'nodes', 'cols', 'cons', 'lays', 'wells') if c[k] != b[k]), 'name lists')
            what = '%d -> %d entries' % (len(b[diff]), len(c[diff])) if diff not in ('hdr', 'name lists') else ''
            return ('read', 'read(filename) on %s differs from mulgrid(filename) in %s %s' % (who, diff, what),
                    'reading the file gives the written geometry whatever the object held before', 'used-object'), a, f1, f2
    return None, a, f1, f2
