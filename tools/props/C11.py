"""C11 -- Refining or decomposing columns conserves area and volume and tiles the domain.

tie: T (transition_column, transition_type, the decompose_column special cases and the
triangulation fan are regenerated from mulgrids.py by an `ast` walk on every run, together
with one area obligation and one orientation obligation per table entry)
  +  H (how refine()/subdivide_column()/decompose_column() apply those tables, block_volume and
refine_layers: hand models in coq/C11/Model.v, Volume.v, run extracted against the real code)
  +  oracle sweep of the property statement on the implementation (c11_oracle.py)."""
import os, sys, time, json, math, random, itertools, collections, multiprocessing, warnings
from fractions import Fraction
import vf
import props.c11_translate as T
import props.c11_oracle as O
import props.c11_cases as C

warnings.simplefilter('ignore')


# ---------------------------------------------------------------------------- T
def translate(ctx):
    try:
        r = T.translate(os.path.join(ctx.repo, 'mulgrids.py'))
    except T.Refusal as e:
        ctx.refusal('c11_translate(mulgrids.py: refine/transition_type/decompose_column/triangulate_column)', e)
        return None
    except SyntaxError as e:
        ctx.refusal('c11_translate: mulgrids.py does not parse', e)
        return None
    for name, text in r.files.items(): ctx.gen(name, text)
    return r


# ---------------------------------------------------------------------------- helpers
def q(x):
    f = Fraction(float(x))
    return '%d/%d' % (f.numerator, f.denominator)


def qpts(pts):
    return ' '.join('%s %s' % (q(x), q(y)) for x, y in pts)


def parse_q(s):
    n, d = s.split('/')
    return Fraction(int(n), int(d))


def stok(surf):
    """the parent's surface as the opaque token handed to the model"""
    return 'none' if surf is None else q(surf)


def parse_children(line):
    """model line  start|x,y x,y ...:area@surface;...  ->  (start, [([(x, y)...], area, surface token)...])"""
    start, rest = line.split('|', 1)
    out = []
    for ch in rest.split(';'):
        ch, surf = ch.rsplit('@', 1)
        pts, area = ch.rsplit(':', 1)
        poly = [tuple(float(parse_q(c)) for c in p.split(',')) for p in pts.split(' ')]
        out.append((poly, float(parse_q(area)), surf))
    return int(start), out


def same_polygon(a, b, tol):
    if len(a) != len(b): return False
    n = len(a)
    for r in range(n):
        if all(abs(a[i][0] - b[(i + r) % n][0]) <= tol and abs(a[i][1] - b[(i + r) % n][1]) <= tol for i in range(n)): return True
    return False


def match_children(model, impl, tol):
    """model: [(poly, signed area, surface token)]; impl: [(poly, surface)].  column.__init__ reverses
    a clockwise node list, so a model child with negative signed area is compared reversed.
    A new column matches when its polygon AND its surface are the model's."""
    left = list(impl)
    for poly, area, surf in model:
        p = list(reversed(poly)) if area < 0 else poly
        hit = None
        for k, (ip, isurf) in enumerate(left):
            if same_polygon(p, ip, tol) and stok(isurf) == surf: hit = k; break
        if hit is None: return False
        left.pop(hit)
    return not left


def find_children(before, after):
    """new columns grouped by the replaced column that contains their interior point"""
    gone = [n for n, v in before.cols.items() if n not in after.cols or after.cols[n][0] != v[0]]
    new = [n for n, v in after.cols.items() if n not in before.cols or before.cols[n][0] != v[0]]
    kids = {o: [] for o in gone}
    for n in new:
        poly = after.cols[n][1]
        if abs(O.shoelace_shifted(poly)) <= 1e-12 * after.size ** 2:
            # degenerate: attach by node names
            old = set(after.cols[n][0]) & set(before.nodes)
            par = [o for o in gone if old <= set(before.cols[o][0])]
        else:
            p = O.interior_point(poly)
            par = [o for o in gone if O.pip(p, before.cols[o][1])]
        if par: kids[par[0]].append(n)
    return kids


def col_sides_refined_full(before, S):
    """refine(columns=S) without bisection and without edge columns: which sides of which
    column get a mid-side node.  Side i of X is refined iff X is selected (every side of a
    selected column: it is a connection or lies on the boundary) or the column across it is."""
    side_cols = {}
    for n, v in before.cols.items():
        nm = v[0]
        for i in range(len(nm)): side_cols.setdefault(frozenset((nm[i], nm[(i + 1) % len(nm)])), []).append(n)
    out = {}
    for n, v in before.cols.items():
        nm = v[0]; sides = []
        for i in range(len(nm)):
            others = [c for c in side_cols[frozenset((nm[i], nm[(i + 1) % len(nm)]))] if c != n]
            if n in S or any(c in S for c in others): sides.append(i)
        if sides: out[n] = sides
    return out


# ---------------------------------------------------------------------------- correspondence
def corr_transition_type(ctx, exe, tr):
    lines, expect = [], []
    for nn in range(1, 7):
        for r in range(0, nn + 1):
            for sides in itertools.combinations(range(nn), r):
                lines.append('tt\t%d\t%s' % (nn, ','.join(map(str, sides))))
                try: v = tr.tt_py(nn, list(sides))
                except Exception: v = None
                expect.append('NONE' if v is None else '%d %d %d' % tuple(v))
    # a few out-of-domain argument lists (unsorted, repeated, out of range)
    for nn, sides in [(4, [3, 0]), (4, [2, 0]), (4, [1, 1]), (3, [2, 1]), (4, [0, 5]), (3, [0, 0, 1]), (4, [3, 2, 1, 0])]:
        lines.append('tt\t%d\t%s' % (nn, ','.join(map(str, sides))))
        try: v = tr.tt_py(nn, list(sides))
        except Exception: v = None
        expect.append('NONE' if v is None else '%d %d %d' % tuple(v))
    out = vf.run_driver(exe, lines)
    for l, o, e in zip(lines, out, expect):
        if o != e: ctx.disagreement('gen_transition_type-vs-transition_type', {'case': l}, o, e)
    ctx.corr_cases('gen_transition_type-vs-transition_type', len(lines))


def impl_single(case):
    """run the operation of a case on the implementation and report, per replaced column,
    its corners, centre and the polygons of the new columns inside it (worker process)"""
    try:
        g = O.build(case['mesh']); O.set_surfaces(g, case.get('surfaces'))
        for p in case.get('pre', []): O.apply_op(g, p)
        before = O.snapshot(g)
        centres = {c.name: (float(c.centre[0]), float(c.centre[1])) for c in g.columnlist}
        areas = {c.name: float(c.area) for c in g.columnlist}
        layers = [(float(l.bottom), float(l.top)) for l in g.layerlist]
        atm = g.atmosphere_type
        O.apply_op(g, case['op'])
        after = O.snapshot(g)
        kids = find_children(before, after)
        return {'before': {n: (v[0], v[1], v[2]) for n, v in before.cols.items()}, 'centres': centres, 'areas': areas,
                'kids': {o: [(after.cols[k][1], after.cols[k][2]) for k in ks] for o, ks in kids.items()}, 'size': after.size,
                'colvol_before': before.colvol, 'colvol_after': after.colvol, 'layers_before': layers,
                'layers_after': [(float(l.bottom), float(l.top)) for l in g.layerlist],
                'after_cols': {n: (v[2], v[3]) for n, v in after.cols.items()}, 'order': [c for c in before.cols],
                'after_centres': {n: v[4] for n, v in after.cols.items()}}
    except Exception as e:
        import traceback
        op = case['op']
        skip = (op['name'] == 'refine' and isinstance(e, TypeError) and 'NoneType' in str(e) and op.get('edge') and op.get('bisect')) \
            or type(e).__name__ == 'NamingConventionError'
        return {'error': repr(e), 'trace': traceback.format_exc()[-1200:], 'skip': bool(skip)}


def corr_refine(ctx, exe, pool, cases, name):
    """children polygons: extracted model (table entry rotated by istart, resolved on the exact
    rational corner coordinates) against what refine()/decompose_columns() produced"""
    results = pool.map(impl_single, cases, chunksize=8)
    lines, meta = [], []
    for case, res in zip(cases, results):
        if 'error' in res:
            if not res.get('skip'): ctx.disagreement(name, {'case': strip_case(case)}, 'model defined', 'implementation raised ' + res['error'])
            continue
        if case['op']['name'] == 'refine':
            if 'gadget' in case and case['op']['columns'] != [0]:
                first = res['order'][0]
                want = {first: case['gadget']['sides']}
                # outer triangles are fully refined
                for n in res['order'][1:]: want[n] = [0, 1, 2]
            else:
                S = set(res['order'][i] for i in case['op']['columns'] if i < len(res['order']))
                before = O.Snap(); before.cols = {n: (v[0], v[1], v[2], 0.0) for n, v in res['before'].items()}
                want = col_sides_refined_full(before, S)
            for n, sides in want.items():
                nm, poly, surf = res['before'][n]
                lines.append('rf\t%d\t%s\t%s\t%s\t%s' % (len(poly), ','.join(map(str, sides)), qpts(poly), qpts([res['centres'][n]]), stok(surf)))
                meta.append((case, n, res))
            for n in res['before']:
                if n not in want and n in res['kids']:
                    ctx.disagreement(name, {'case': strip_case(case), 'column': n}, 'column has no refined side: unchanged', 'column was replaced')
        elif case['op']['name'] == 'split':
            n = res['order'][case['op']['column']]
            nm, poly, surf = res['before'][n]
            i0 = case['op']['node']
            lines.append('sp\t%d\t%s\t%s\t%s\t%s' % (len(poly), i0 if 0 <= i0 < len(poly) else 99, qpts(poly), qpts([res['centres'][n]]), stok(surf)))
            meta.append((case, n, res))
        elif case['op']['name'] == 'triangulate':
            n = res['order'][0]
            nm, poly, surf = res['before'][n]
            lines.append('tr\t%d\t0\t%s\t%s\t%s' % (len(poly), qpts(poly), qpts([res['centres'][n]]), stok(surf)))
            meta.append((case, n, res))
        else:
            n = res['order'][0]
            nm, poly, surf = res['before'][n]
            lines.append('dc\t%d\t%s\t%s\t%s\t%s' % (len(poly), ','.join(map(str, case['polygon']['straight'])), qpts(poly), qpts([res['centres'][n]]), stok(surf)))
            meta.append((case, n, res))
    out = vf.run_driver(exe, lines) if lines else []
    nd = 0
    for l, o, (case, n, res) in zip(lines, out, meta):
        impl = res['kids'].get(n)
        tol = 1e-9 * res['size']
        if o in ('NONE', 'RAISE', 'BADCASE'):
            ok = False; why = 'model: %s' % o
        elif o in ('KEEP', 'FALSE'):
            ok = impl is None; why = 'model keeps the column'
        else:
            start, model = parse_children(o)
            ok = impl is not None and match_children(model, impl, tol); why = o[:400]
        if not ok:
            nd += 1
            ctx.disagreement(name, {'case': strip_case(case), 'column': n, 'line': l[:300]}, why, 'implementation children: %s' % (impl,))
    ctx.corr_cases(name, len(lines))
    return nd


def corr_split_centre(ctx, exe, pool, cases, name):
    """centre of the shrunk column after split_column: model (Model.qsplit_new_centre: the centroid
    of the remaining triangle iff the source recomputes it unconditionally) against col.centre"""
    results = pool.map(impl_single, cases, chunksize=8)
    lines, meta = [], []
    for case, res in zip(cases, results):
        if 'error' in res or case['op']['name'] != 'split': continue
        n = res['order'][case['op']['column']]
        nm, poly, surf = res['before'][n]
        i0 = case['op']['node']
        lines.append('sc\t%d\t%s\t%s\t%s\tx' % (len(poly), i0 if 0 <= i0 < len(poly) else 99, qpts(poly), qpts([res['centres'][n]])))
        meta.append((case, n, res))
    out = vf.run_driver(exe, lines) if lines else []
    for l, o, (case, n, res) in zip(lines, out, meta):
        changed = n in res['kids']
        got = res['after_centres'].get(n)
        if o == 'FALSE': ok = not changed
        else:
            try: m = tuple(float(parse_q(x)) for x in o.split(','))
            except Exception: m = None
            ok = changed and m is not None and got is not None and all(abs(a - b) <= 1e-9 * res['size'] for a, b in zip(m, got))
        if not ok: ctx.disagreement(name, {'case': strip_case(case), 'column': n, 'line': l[:300]}, o[:200], 'centre after split_column: %s' % (got,))
    ctx.corr_cases(name, len(lines), specified_centres=sum(1 for c, _, _ in meta if c['mesh'].get('centres')))


def corr_geometry(ctx, exe, rng, count):
    """polygon_area / polygon_centroid (through the public column class) against the rational model"""
    from mulgrids import column, node
    import numpy as np
    lines, expect = [], []
    for _ in range(count):
        k = rng.choice([3, 4, 4, 5, 6, 8])
        # two in five at map-projection eastings / northings, ~10 m across (cancellation in unshifted shoelace sums)
        pts = C.convex_polygon(rng, k, scale=8.0, offset=rng.choice(C.MAP_ORIGINS)) if rng.random() < 0.4 else C.convex_polygon(rng, k)
        col = column('  a', [node('%3d' % i, np.array(p)) for i, p in enumerate(pts)])
        lines.append('area\t' + qpts(pts)); expect.append((float(col.area),))
        lines.append('cen\t' + qpts(pts)); expect.append((float(col.centre[0]), float(col.centre[1])))
    out = vf.run_driver(exe, lines)
    for l, o, e in zip(lines, out, expect):
        try: m = tuple(float(parse_q(x)) for x in o.split(','))
        except Exception: m = None
        scale = 1e-9 * max(1.0, max(abs(x) for x in e))
        if m is None or len(m) != len(e) or any(abs(a - b) > scale * (1e3 if l.startswith('area') else 1.0) for a, b in zip(m, e)):
            ctx.disagreement('polygon_area/centroid-vs-model', {'case': l[:200]}, o, repr(e))
    ctx.corr_cases('polygon_area/centroid-vs-model', len(lines))


def corr_volume(ctx, exe, pool, cases):
    """per-column sum of block_volume before and after, and the layer structure after
    refine_layers, against Volume.v run on exact rationals"""
    results = pool.map(impl_single, cases, chunksize=8)
    lines, meta = [], []
    for case, res in zip(cases, results):
        if 'error' in res:
            if not res.get('skip'): ctx.disagreement('block_volume-vs-model', {'case': strip_case(case)}, 'model defined', 'implementation raised ' + res['error'])
            continue
        for tag, lays, cols, vols in (('before', res['layers_before'], {n: (v[2], res['areas'][n]) for n, v in res['before'].items()}, res['colvol_before']),
                                      ('after', res['layers_after'], res['after_cols'], res['colvol_after'])):
            Ttop = lays[0][1]
            ths = ' '.join('%d/%d' % ((Fraction(t) - Fraction(b)).numerator, (Fraction(t) - Fraction(b)).denominator) for b, t in lays[1:])
            for n, (surf, area) in cols.items():
                lines.append('vol\t%s\t%s\t%s\t%s' % (q(Ttop), ths, q(area), q(surf)))
                meta.append(('vol', case, n, vols.get(n, 0.0), area * max(abs(Ttop), abs(lays[-1][0]), abs(surf), 1.0)))
        if case['op']['name'] == 'refine_layers':
            lb = res['layers_before']
            sel = set(case['op'].get('layers', [])) or set(range(1, len(lb)))
            ths = ' '.join('%d/%d' % ((Fraction(t) - Fraction(b)).numerator, (Fraction(t) - Fraction(b)).denominator) for b, t in lb[1:])
            lines.append('rl\t%d\t%s\t%s' % (case['op']['factor'], ','.join('1' if i in sel else '0' for i in range(1, len(lb))), ths))
            meta.append(('rl', case, None, res['layers_after'], lb[0][1]))
    out = vf.run_driver(exe, lines) if lines else []
    nv = nl = 0
    for l, o, m in zip(lines, out, meta):
        if m[0] == 'vol':
            nv += 1
            try: mv = float(parse_q(o))
            except Exception: mv = None
            if mv is None or abs(mv - m[3]) > 1e-9 * max(m[4], abs(m[3])):
                ctx.disagreement('block_volume-vs-model', {'case': strip_case(m[1]), 'column': m[2], 'line': l[:300]}, o, repr(m[3]))
        else:
            nl += 1
            la = m[3]; top = Fraction(m[4]); z = top; ok = True
            ths = [parse_q(x) for x in o.split(' ')] if o else []
            span = abs(la[0][1] - la[-1][0]) or 1.0
            if len(ths) != len(la) - 1: ok = False
            else:
                for t, (b, tp) in zip(ths, la[1:]):
                    z -= t
                    if abs(float(z) - b) > 1e-9 * span: ok = False
            if not ok: ctx.disagreement('refine_layers-vs-model', {'case': strip_case(m[1]), 'line': l[:300]}, o[:300], 'layers after: %s' % (la,))
    ctx.corr_cases('block_volume-vs-model', nv)
    ctx.corr_cases('refine_layers-vs-model', nl)


def strip_case(case):
    return case


# ---------------------------------------------------------------------------- shipped geometries
SHIPPED = ['g7.dat', 'g6.dat', 'g5.dat', 'g1.dat', 'g3.dat', 'g2.dat', 'g4.dat']


def mesh_info(name):
    g = O.build({'kind': 'file', 'name': name})
    idx = {c.name: i for i, c in enumerate(g.columnlist)}
    return {'name': name, 'nn': [c.num_nodes for c in g.columnlist],
            'nbr': [sorted(idx[x.name] for x in c.neighbour) for c in g.columnlist], 'nlayers': len(g.layerlist) - 1}


def shipped_cases(rng, infos, counts):
    cases = []
    for info in infos:
        name = info['name']; nn = info['nn']; nbr = info['nbr']; n = len(nn)
        k_ref, k_dec, k_lay = counts.get(name, (0, 0, 0))
        ok = [i for i in range(n) if nn[i] <= 4 and all(nn[j] <= 4 for j in nbr[i])]
        for _ in range(k_ref):
            if not ok: break
            shape = rng.choice(['single', 'grow', 'grow', 'ring', 'random'])
            if shape == 'single': S = [rng.choice(ok)]
            elif shape == 'ring':
                c = rng.choice(ok); S = [j for j in nbr[c] if j in set(ok)] or [c]
            elif shape == 'random': S = rng.sample(ok, min(len(ok), rng.randint(2, 12)))
            else:
                S = [rng.choice(ok)]; target = rng.randint(2, 15); okset = set(ok)
                for _ in range(60):
                    if len(S) >= target: break
                    c = rng.choice(S); cand = [j for j in nbr[c] if j in okset and j not in S]
                    if cand: S.append(rng.choice(cand))
            S = sorted(set(S))
            outside = sorted(set(j for i in S for j in nbr[i]) - set(S))
            E = [j for j in outside if nn[j] <= 4 and rng.random() < 0.5] if rng.random() < 0.35 else []
            mode = rng.choice(C.MODES)
            if not mode and rng.random() < 0.15:
                S = S + [rng.randrange(n)]        # may touch a polygon column: refine() then declines and nothing may change
            fm = {'kind': 'file', 'name': name}
            if rng.random() < 0.3: fm['read_into_used'] = True      # read() into an object that held and edited another geometry
            cases.append({'mesh': fm, 'seed': rng.randrange(1 << 30), 'shape': shape, 'npts': 4,
                          'op': {'name': 'refine', 'columns': S, 'bisect': mode, 'edge': E}})
        polys = [i for i in range(n) if nn[i] > 4]
        for k in range(k_dec):
            if not polys: break
            S = [] if k == 0 else rng.sample(polys, min(len(polys), rng.randint(1, 10)))
            cases.append({'mesh': {'kind': 'file', 'name': name}, 'seed': rng.randrange(1 << 30), 'shape': 'polygons', 'npts': 4,
                          'op': {'name': 'decompose', 'columns': S}})
        for k in range(k_lay):
            nl = info['nlayers']
            L = [] if k == 0 else sorted(rng.sample(range(1, nl + 1), rng.randint(1, min(nl, 6))))
            cases.append({'mesh': {'kind': 'file', 'name': name}, 'seed': rng.randrange(1 << 30), 'shape': 'layers',
                          'op': {'name': 'refine_layers', 'layers': L, 'factor': rng.choice([2, 3, 4])}})
    return cases


# ---------------------------------------------------------------------------- oracle sweep
def surface_classes(case):
    """where the explicitly set column surfaces of a case lie relative to the layers (for the evidence)"""
    m = case['mesh']
    if m['kind'] == 'file' or not case.get('surfaces'): return []
    top = m.get('origin', [0., 0., 0.])[2] if m['kind'] == 'rect' else m.get('top', 0.0)
    bots = []; z = top
    for t in m['dz']: z -= t; bots.append(z)
    out = []
    for i, sf in case['surfaces']:
        if sf == 0.0: out.append('exactly-0.0(top!=0)' if top != 0.0 else 'exactly-0.0(top=0)')
        if sf > top: out.append('above-top')
        elif sf == top: out.append('exactly-top')
        elif sf == bots[-1]: out.append('exactly-bottom')
        elif sf in bots: out.append('on-layer-boundary')
        elif sf < bots[-1]: out.append('below-bottom')
        else: out.append('inside-layer')
    return out


def sweep(ctx, pool, family, cases, stats):
    t0 = time.time()
    results = pool.map(O.check_case, cases, chunksize=max(1, min(32, len(cases) // (4 * vf.NPROC) + 1)))
    nontriv = 0
    for case, res in zip(cases, results):
        op = case['op'] if 'op' in case else {'name': 'sequence:' + '>'.join(o['name'] for o in case['steps'])}
        trivial = res['status'] != 'ok'
        ctx.count((family, json.dumps(case, sort_keys=True, default=str)), nontrivial=not trivial)
        stats['status'][res['status'].split(':')[0]] += 1
        stats['op'][op['name'] + (':bisect=%s' % op.get('bisect') if op['name'] == 'refine' else '')
                    + (':edge' if op.get('edge') else '')] += 1
        if 'shape' in case: stats['shape'][case['shape']] += 1
        if case['mesh'].get('centres') or (case['mesh']['kind'] == 'file' and case['mesh']['name'] in ('g1.dat', 'g2.dat', 'g3.dat', 'g5.dat', 'g6.dat')):
            stats['centres']['specified:' + str(case['mesh'].get('centres', 'file'))] += 1
        else: stats['centres']['not-specified'] += 1
        for cl in surface_classes(case): stats['surface'][cl] += 1
        for k, v in res.get('stats', {}).items(): stats['totals'][k] += v
        if res['status'].startswith('setup-failed'):
            ctx.proof_failures.append({'kind': 'harness', 'name': 'case-setup-failed', 'detail': res['status'] + '\n' + res.get('trace', '')})
        for f in res['failures']:
            ctx.failure(family, f['key'], case, f['observed'], f['required'])
        if not trivial and len(ctx.samples) < 10 and (not ctx.samples or ctx.samples[-1].get('family') != family):
            ctx.sample({'family': family, 'op': op, 'mesh': {k: v for k, v in case['mesh'].items() if k not in ('nodes', 'columns')},
                        'replaced_columns': res['stats'].get('replaced'), 'new_columns': res['stats'].get('new'),
                        'sample_points_checked': res['stats'].get('points')})
    ctx.oracle_cases(family, len(cases), seconds=round(time.time() - t0, 1))


def make_cases(ctx, rng, infos, tr):
    th = ctx.thorough
    fam = collections.OrderedDict()
    small = [([10., 20.], [15., 5.]), ([10., 20., 5.], [15., 5.]), ([10., 20., 5.], [15., 5., 30.])]
    if th: small.append(([10., 20., 5., 40.], [15., 5., 30.]))
    fam['refine-exhaustive-small-rect'] = C.exhaustive_small(rng, small)
    fam['refine-random-rect'] = C.random_rect(rng, 3000 if th else 200)
    fam['refine-twice'] = C.twice_refined(rng, 3000 if th else 200)
    fam['refine-single-column-gadgets'] = C.gadget_cases(rng, 40 if th else 4)
    fam['decompose-polygons'] = C.decompose_cases(rng, 3 if th else 1, nmax=12 if th else 10)
    fam['split-column'] = C.split_cases(rng, 600 if th else 60)
    fam['triangulate-column'] = C.triangulate_cases(rng, 12 if th else 3)
    fam['refine-layers'] = C.layer_cases(rng, th)
    fam['surface-sweep'] = C.surface_cases(rng, 3 if th else 1)
    if th: counts = {'g7.dat': (150, 0, 6), 'g6.dat': (60, 0, 4), 'g5.dat': (60, 0, 4), 'g1.dat': (60, 20, 6), 'g3.dat': (40, 20, 4), 'g2.dat': (40, 0, 3), 'g4.dat': (40, 0, 3)}
    else: counts = {'g7.dat': (12, 0, 2), 'g6.dat': (4, 0, 1), 'g5.dat': (4, 0, 1), 'g1.dat': (5, 3, 1), 'g3.dat': (3, 2, 1), 'g2.dat': (2, 0, 1), 'g4.dat': (2, 0, 1)}
    fam['shipped-geometries'] = shipped_cases(rng, infos, counts)
    seq_infos = [dict(i, seq_reps=1) for i in infos if i['name'] in (('g1.dat', 'g3.dat', 'g5.dat', 'g6.dat', 'g7.dat') if th else ('g1.dat', 'g5.dat', 'g7.dat'))]
    fam['operation-sequences'] = C.sequence_cases(rng, 12 if th else 3, seq_infos)
    fam['map-projection-coordinates'] = C.map_cases(rng, 10 if th else 2)
    fam['reused-argument-lists'] = C.twin_cases(rng, 400 if th else 60)
    return fam


def entry_cases(rng, tr, broken, shapes=12):
    """deep search: meshes whose refinement region triggers the table entries named by the
    broken obligations (all entries when the obligation cannot be localised)"""
    wanted = set()
    for b in broken:
        for nm, ent in tr.lemma_to_entry.items():
            if nm in b.get('name', '') or nm in b.get('detail', ''): wanted.add(ent)
    cases = []
    pats = []
    for nn in (3, 4):
        for r in range(1, nn + 1):
            for sides in itertools.combinations(range(nn), r):
                try: v = tr.tt_py(nn, list(sides))
                except Exception: v = None
                key = (v[0], v[2]) if v else None
                if not wanted or ('transition', nn, key) in wanted or v is None or not any(w[0] == 'transition' for w in wanted):
                    pats.append((nn, sides))
    for nn, sides in pats:
        for _ in range(shapes):
            corners = C.convex_polygon(rng, nn)
            top = rng.choice(C.tops_for((10., 5.)))
            m = C.gadget(corners, sides, top=top)
            cases.append({'mesh': m, 'surfaces': C.special_surfaces(rng, len(m['columns']), m['dz'], top, first=len(cases)), 'seed': rng.randrange(1 << 30),
                          'gadget': {'nn': nn, 'sides': list(sides)}, 'npts': 16,
                          'op': {'name': 'refine', 'columns': list(range(1, len(m['columns']))), 'bisect': False, 'edge': []}})
    return cases


def run(ctx):
    ctx.rule = ('a case = geometry (rectangular with uneven spacings, optionally rotated/shifted; the shipped g1..g7; hand-built single-column '
                'gadgets; convex 5..12-gons with 0..4 collinear extra nodes in every placement and rotation) x per-column surface elevations '
                '(exactly 0.0 with the model top at 7 elevations so that 0.0 is the top, inside a layer, on a boundary, the bottom, above the top, below '
                'the bottom; above top / at top / inside a layer / on a layer boundary / exactly the bottom / 2^-20 off a boundary / below bottom / default) '
                'x atmosphere type '
                'x operation: refine(every non-empty column subset of 2x2, 3x2, 3x3 [thorough: 4x3]; single columns, strips, L-shapes, blocks, '
                'boundary sets, regions with holes, random subsets on larger meshes; second refinement of a refined mesh) with bisect in '
                '{False, x, y, True} with and without bisect_edge_columns, decompose_columns, triangulate_column, split_column at every node, refine_layers(every '
                'layer subset, factor 2..4); and SEQUENCES of two or three of these operations (split>triangulate, split>refine, refine>split, '
                'refine>triangulate, triangulate>refine, decompose>refine/split/triangulate, split>triangulate>refine, ... 18 + 4 patterns; later steps '
                'aimed at the columns the previous step kept / created / touched / their neighbours) on geometries whose column centres are SPECIFIED '
                '(column(..., centre=centroid | another interior point); shipped g1, g5 [thorough: g3, g6]) or not, every clause evaluated after each step. '
                'MAP-PROJECTION coordinates (5 non-round origins ~1e6..6e6 m, columns 5..12 m, every operation that places a centre node); the same call '
                'made FIRST on a model variant with the same names using the very same argument list objects (state leaking through the caller\'s lists); '
                'shipped geometries read into an object that held and edited another geometry. '
                'Distinct = distinct JSON of the case; non-trivial = the operation changed the geometry '
                '(empty selections, split at a foreign node, edge columns without refined side are counted as trivial).')
    ctx.trusted += ['Coq 8.16.1 kernel (coqc); vm_compute only on closed finite terms; no native_compute',
                    'tools/props/c11_translate.py (ast walk of mulgrids.py, fail-closed: literal tables, the nested transition_type in a 6-construct '
                    'expression language, decompose_column guards/tuples, the triangulation fan, split_column node lists; the glue statements the hand model mirrors are '
                    'compared textually and any difference is a refusal)',
                    'coq/C11/Comb.v: meaning of len/list(set(range)-set)/index/%/comparisons used by transition_type (validated on this run against '
                    'the function compiled from its own AST node on all side lists of 1..6-gons)',
                    'coq/C11/Cross.v: the signed crossing number (ray in +x direction, half-open rule) as the meaning of "point lies in column"; '
                    'coq/C11/Centroid.v rcentroid = real-number copy of Model.qcentroid (which is compared with geometry.polygon_centroid on this run)',
                    'extraction: ExtrOcamlBasic + ExtrOcamlString, OCaml 4.13.1, ocaml/main.ml; QArith for the executable geometry/volume model',
                    'tools/props/c11_oracle.py: independent shoelace / crossing-number / point-segment distance, tolerances rel 1e-9 (area, volume), '
                    '1e-7 x mesh size (sample points near edges are skipped), 1e-9 x edge length (node on edge)']
    ctx.assumptions += ['area theorems are over the real numbers (axioms of the standard library reals as listed by Print Assumptions); the difference '
                        'between real and double arithmetic is measured by the oracle (rel 1e-9), not bounded formally',
                        'tiling is PROVED for refine (any non-empty side set), split_column and the triangulation fan (any n) on strictly convex '
                        'counter-clockwise parents (every point of the plane, crossing-number membership; the default centre = centroid meets the '
                        'hypotheses on the centre node), for decompose_column in every case it distinguishes (centre-based results for any position of the '
                        'straight nodes given a centre with every side on its left; (5,1), (6,2;d=3), (7,3) in the layouts their guards select) and for '
                        'every finite sequence of tiling steps (composition); non-convex parents, the numerical detection of straight nodes and the '
                        'implementation itself are covered by the oracle on sample points',
                        'inheritance of the surface: proved for the model (every new column is created with the parent surface), tied to the code by the '
                        'textual check of `surface=col.surface` and by comparing the surfaces of the implementation children with the model on every case',
                        'conformity is proved per column and per shared side (both neighbours look the same unordered-pair key up in sidenodes and see the '
                        'same sub-edges reversed); that every column next to a mid-side node is among the subdivided columns_plus_edge is by reading '
                        'refine() and by the oracle (hanging-node and connection checks)',
                        'refine_layers/volume theorems are over Q for positive thicknesses; layers below the atmosphere layer are contiguous from the top elevation']
    ctx.stage()
    tr = translate(ctx)
    exe = None
    if tr is not None:
        ok = ctx.coq_build(props=('Props.v', 'Props2.v'), timeout=600)
        ctx.log('coq build %s: %d theorems' % ('ok' if ok else 'FAILED', len(ctx.theorems)))
        exe = vf.build_driver(ctx)
        ctx.log('driver %s' % ('built' if exe else 'NOT built'))
    rng = ctx.rng
    stats = {'status': collections.Counter(), 'op': collections.Counter(), 'shape': collections.Counter(), 'surface': collections.Counter(),
             'centres': collections.Counter(),
             'totals': collections.Counter()}
    mp = multiprocessing.get_context('fork')
    with mp.Pool(vf.NPROC) as pool:
        infos = pool.map(mesh_info, SHIPPED)
        fam = make_cases(ctx, rng, infos, tr)
        if exe and tr is not None:
            try:
                corr_transition_type(ctx, exe, tr)
                gad = fam['refine-single-column-gadgets']
                corr_refine(ctx, exe, pool, gad, 'refine-children-vs-model(single-column)')
                full = [c for c in fam['refine-exhaustive-small-rect'] + fam['refine-random-rect'] if not c['op']['bisect'] and not c['op']['edge']]
                if not ctx.thorough: full = full[:700]
                corr_refine(ctx, exe, pool, full, 'refine-children-vs-model(regions)')
                corr_refine(ctx, exe, pool, fam['decompose-polygons'], 'decompose-children-vs-model')
                corr_refine(ctx, exe, pool, fam['split-column'], 'split-children-vs-model')
                corr_split_centre(ctx, exe, pool, fam['split-column'], 'split-centre-vs-model')
                corr_refine(ctx, exe, pool, fam['triangulate-column'], 'triangulate-children-vs-model')
                sw = [c for c in fam['surface-sweep'] if c['op']['name'] in ('decompose', 'triangulate', 'split')
                      or (c['op']['name'] == 'refine' and not c['op']['bisect'])]
                corr_refine(ctx, exe, pool, sw, 'surface-sweep-children-vs-model')
                corr_geometry(ctx, exe, rng, 2000 if ctx.thorough else 300)
                vcases = fam['refine-layers'] + fam['refine-exhaustive-small-rect'][::(3 if ctx.thorough else 17)]
                corr_volume(ctx, exe, pool, vcases)
                ctx.log('correspondence: %d cases, %d disagreements' % (sum(v.get('cases', 0) for v in ctx.corr.values()),
                                                                        sum(v.get('n_disagreements', 0) for v in ctx.corr.values())))
            except Exception as e:
                import traceback
                ctx.proof_failures.append({'kind': 'harness', 'name': 'correspondence-crashed', 'detail': traceback.format_exc()[-3000:]})
                ctx.log('correspondence crashed', repr(e))
        for name, cases in fam.items():
            sweep(ctx, pool, name, cases, stats)
            ctx.log('oracle %s: %d cases' % (name, len(cases)))

        def deep(broken):
            # bounded by case counts (deterministic), not by the clock
            r2 = random.Random(ctx.seed + 4711)
            sweep(ctx, pool, 'deep-surface-sweep', C.surface_cases(r2, 4 if ctx.thorough else 2), stats)
            if ctx.new_failures: return
            sweep(ctx, pool, 'deep-map-and-reuse', C.map_cases(r2, 6 if ctx.thorough else 3) + C.twin_cases(r2, 200 if ctx.thorough else 100), stats)
            if ctx.new_failures: return
            sweep(ctx, pool, 'deep-operation-sequences', C.sequence_cases(r2, 12 if ctx.thorough else 4, [i for i in infos if i['name'] in ('g1.dat', 'g5.dat', 'g6.dat')]), stats)
            if ctx.new_failures: return
            if tr is not None:
                sweep(ctx, pool, 'deep-entry-gadgets', entry_cases(r2, tr, broken, 30), stats)
                if ctx.new_failures: return
            for rnd in range(12 if ctx.thorough else 3):
                sweep(ctx, pool, 'deep-random', C.random_rect(r2, 200) + C.twice_refined(r2, 200) + C.decompose_cases(r2, 1)
                      + C.split_cases(r2, 100) + C.triangulate_cases(r2, 4) + C.gadget_cases(r2, 4), stats)
                if ctx.new_failures: return
        ctx.extra['input_distribution'] = {k: dict(v) for k, v in stats.items()}
        tot = stats['totals']
        ctx.hyp_met['children_positive / refine_column_area: replaced parent strictly convex CCW with centre strictly inside'] = \
            '%d of %d replaced columns in the oracle sweep (the others have collinear nodes: polygons handed to decompose_columns)' % (
                tot.get('parents_convex_centre_inside', 0), tot.get('parents_convex_centre_inside', 0) + tot.get('parents_other', 0))
        ctx.hyp_met['refine_column_tiles: centre beyond the mid-lines (centre_ok)'] = \
            '%d of %d convex replaced columns with centre inside (proved for the centroid: centroid_meets_hypotheses)' % (
                tot.get('parents_centre_ok', 0), tot.get('parents_centre_ok', 0) + tot.get('parents_centre_not_ok', 0))
        ctx.hyp_met['transition_type_total: refined side set non-empty, strictly increasing, below nn'] = \
            '%d column cases of the refine correspondences (side sets recomputed independently from the selection)' % (
                sum(v.get('cases', 0) for k, v in ctx.corr.items() if k.startswith('refine-children')))
        ctx.hyp_met['column_volume_telescopes / refine_layers_volume: thicknesses positive'] = \
            '%d column-volume cases compared with the model' % ctx.corr.get('block_volume-vs-model', {}).get('cases', 0)
        status = ctx.finish(deep_search=deep)
    return status


def replay(ctx, data):
    case = data.get('input')
    if not case: return True
    res = O.check_case(case)
    print('replay: %s on %s -> status %s' % (case.get('op') or case.get('steps'), {k: v for k, v in case['mesh'].items() if k not in ('nodes', 'columns')}, res['status']))
    for f in res['failures']:
        print('  FAILS %s\n    observed: %s\n    required: %s' % (f['key'], f['observed'], f['required']))
    return bool(res['failures']) or res['status'].startswith('setup-failed')
