"""C12 oracle helpers: exact (rational) planar geometry, written independently of
geometry.py (vertical ray instead of the horizontal one, parameter intervals instead of
intersection point lists).  Nothing here imports PyTOUGH."""
from fractions import Fraction
import math


def fr(x):
    return Fraction(*float(x).as_integer_ratio())


def fpt(p):
    return (fr(p[0]), fr(p[1]))


def contains(poly, p):
    """Exact crossing-number test with a ray going UP from p, half-open in x.
    poly: list of (Fraction, Fraction).  Exact truth for every p not on the boundary."""
    n = len(poly)
    cnt = 0
    x, y = p
    for i in range(n):
        ax, ay = poly[i]
        bx, by = poly[(i + 1) % n]
        if (ax <= x < bx) or (bx <= x < ax):
            yy = ay + (x - ax) * (by - ay) / (bx - ax)
            if yy > y: cnt += 1
    return cnt % 2 == 1


def seg_dist2(p, a, b):
    """squared distance from point p to segment ab (floats)"""
    px, py = p; ax, ay = a; bx, by = b
    dx, dy = bx - ax, by - ay
    L2 = dx * dx + dy * dy
    if L2 == 0.0:
        return (px - ax) ** 2 + (py - ay) ** 2
    t = ((px - ax) * dx + (py - ay) * dy) / L2
    t = 0.0 if t < 0 else (1.0 if t > 1 else t)
    qx, qy = ax + t * dx, ay + t * dy
    return (px - qx) ** 2 + (py - qy) ** 2


def clip_params(poly, l0, l1):
    """Exact parameter intervals [(t0, t1), ...] (0 <= t0 < t1 <= 1) of the segment
    l0 + t (l1 - l0) lying inside the polygon.  poly, l0, l1 exact."""
    dx, dy = l1[0] - l0[0], l1[1] - l0[1]
    ts = {Fraction(0), Fraction(1)}
    n = len(poly)
    for i in range(n):
        ax, ay = poly[i]
        bx, by = poly[(i + 1) % n]
        ex, ey = bx - ax, by - ay
        den = dx * ey - dy * ex
        if den == 0: continue            # parallel
        # l0 + t d = a + s e
        t = ((ax - l0[0]) * ey - (ay - l0[1]) * ex) / den
        s = ((ax - l0[0]) * dy - (ay - l0[1]) * dx) / den
        if 0 <= s <= 1 and 0 < t < 1: ts.add(t)
    ts = sorted(ts)
    out = []
    for t0, t1 in zip(ts, ts[1:]):
        tm = (t0 + t1) / 2
        pm = (l0[0] + tm * dx, l0[1] + tm * dy)
        if contains(poly, pm):
            if out and out[-1][1] == t0: out[-1] = (out[-1][0], t1)
            else: out.append((t0, t1))
    return out


def runs_along_edge(poly_f, l0, l1, tol):
    """True when the line is (nearly) collinear with an edge of the polygon and overlaps it:
    both end points of the edge within tol of the infinite line and the projections overlap
    the segment.  Floats."""
    dx, dy = l1[0] - l0[0], l1[1] - l0[1]
    L = math.hypot(dx, dy)
    if L == 0: return True
    n = len(poly_f)
    for i in range(n):
        a = poly_f[i]; b = poly_f[(i + 1) % n]
        da = abs((a[0] - l0[0]) * dy - (a[1] - l0[1]) * dx) / L
        db = abs((b[0] - l0[0]) * dy - (b[1] - l0[1]) * dx) / L
        if da <= tol and db <= tol:
            ta = ((a[0] - l0[0]) * dx + (a[1] - l0[1]) * dy) / (L * L)
            tb = ((b[0] - l0[0]) * dx + (b[1] - l0[1]) * dy) / (L * L)
            lo, hi = min(ta, tb), max(ta, tb)
            if hi >= 0 and lo <= 1: return True
    return False
