"""C01 translator: section lists, keyword -> method dispatch dictionaries, the presence
expressions of get_present_sections, look-ahead / end keywords and default_parameters keys,
by walking the AST of t2data.py (never imported here).  Fail-closed: anything that does not
have the expected shape raises tables.Refusal."""
import ast, os
from translate import tables
from translate.tables import Refusal, coq_string


def _method(cls, name, path):
    for n in cls.body:
        if isinstance(n, ast.FunctionDef) and n.name == name: return n
    raise Refusal('%s: class t2data has no method %s' % (path, name))


def _self_attr_names(lst, where):
    out = []
    if not isinstance(lst, ast.List): raise Refusal('%s: expected a list of self.<method>' % where)
    for e in lst.elts:
        if not (isinstance(e, ast.Attribute) and isinstance(e.value, ast.Name) and e.value.id == 'self'):
            raise Refusal('%s: list element %s is not self.<method>' % (where, ast.dump(e)[:80]))
        out.append(e.attr)
    return out


def _dict_zip(call, where):
    """dict(zip(<Name>, <List>)) -> (name id, List node)"""
    if not (isinstance(call, ast.Call) and isinstance(call.func, ast.Name) and call.func.id == 'dict' and len(call.args) == 1
            and not call.keywords):
        raise Refusal('%s: not dict(zip(...))' % where)
    z = call.args[0]
    if not (isinstance(z, ast.Call) and isinstance(z.func, ast.Name) and z.func.id == 'zip' and len(z.args) == 2
            and isinstance(z.args[0], ast.Name) and isinstance(z.args[1], ast.List)):
        raise Refusal('%s: not dict(zip(<name>, [...]))' % where)
    return z.args[0].id, z.args[1]


def _find_assign(fn, target_pred, where):
    found = [n for n in ast.walk(fn) if isinstance(n, ast.Assign) and len(n.targets) == 1 and target_pred(n.targets[0])]
    if len(found) != 1: raise Refusal('%s: expected exactly one assignment, found %d' % (where, len(found)))
    return found[0].value


def extract(repo):
    path = os.path.join(repo, 't2data.py')
    mod = tables.Module(path)
    secs = mod.literal('t2data_sections')
    xsecs = mod.literal('t2_extra_precision_sections')
    for l in (secs, xsecs):
        if not (isinstance(l, list) and all(isinstance(s, str) for s in l)): raise Refusal('%s: section list is not a list of strings' % path)
    if len(set(secs)) != len(secs): raise Refusal('%s: duplicate keyword in t2data_sections' % path)
    cls = [n for n in mod.tree.body if isinstance(n, ast.ClassDef) and n.name == 't2data']
    if len(cls) != 1: raise Refusal('%s: class t2data not found' % path)
    cls = cls[0]
    out = {'t2data_sections': secs, 't2_extra_precision_sections': xsecs}
    lists = {'t2data_sections': secs, 't2_extra_precision_sections': xsecs}

    def zipped(fn_name, pred, key, what):
        fn = _method(cls, fn_name, path)
        name, lst = _dict_zip(_find_assign(fn, pred, '%s.%s' % (fn_name, what)), '%s.%s' % (fn_name, what))
        if name not in lists: raise Refusal('%s: %s zips over unknown list %s' % (path, what, name))
        vals = _self_attr_names(lst, '%s.%s' % (fn_name, what))
        if len(vals) != len(lists[name]): raise Refusal('%s: %s has %d entries for %d keywords' % (path, what, len(vals), len(lists[name])))
        out[key] = list(zip(lists[name], vals))

    is_self = lambda a: (lambda t: isinstance(t, ast.Attribute) and isinstance(t.value, ast.Name) and t.value.id == 'self' and t.attr == a)
    is_name = lambda a: (lambda t: isinstance(t, ast.Name) and t.id == a)
    zipped('update_read_write_functions', is_self('read_fn'), 'read_fn_names', 'read_fn')
    zipped('update_read_write_functions', is_self('write_fn'), 'write_fn_names', 'write_fn')
    zipped('update_read_write_functions', is_name('skip_fn'), 'skip_fn_names', 'skip_fn')
    zipped('read_extra_precision', is_name('read_fn'), 'xp_read_fn_names', 'read_fn')
    zipped('write_extra_precision', is_name('write_fn'), 'xp_write_fn_names', 'write_fn')
    # presence expressions
    fn = _method(cls, 'get_present_sections', path)
    name, lst = _dict_zip(_find_assign(fn, is_name('data_present'), 'get_present_sections.data_present'), 'get_present_sections')
    if name != 't2data_sections' or len(lst.elts) != len(secs): raise Refusal('%s: data_present does not zip t2data_sections' % path)
    out['present_exprs'] = [(k, ast.unparse(e)) for k, e in zip(secs, lst.elts)]
    # PARAM look-ahead keyword list: `for keyword in t2data_sections [+ [..]]` inside read_parameters
    fn = _method(cls, 'read_parameters', path)
    comps = [n for n in ast.walk(fn) if isinstance(n, ast.ListComp)
             and any(isinstance(c, ast.Call) and isinstance(c.func, ast.Attribute) and c.func.attr == 'startswith' for c in ast.walk(n.elt))]
    if len(comps) != 1 or len(comps[0].generators) != 1: raise Refusal('%s: read_parameters look-ahead test not found' % path)
    it = comps[0].generators[0].iter
    if isinstance(it, ast.Name) and it.id == 't2data_sections': extra = []
    elif isinstance(it, ast.BinOp) and isinstance(it.op, ast.Add) and isinstance(it.left, ast.Name) and it.left.id == 't2data_sections':
        extra = mod.ev(it.right)
        if not (isinstance(extra, list) and all(isinstance(s, str) for s in extra)): raise Refusal('%s: look-ahead keyword list' % path)
    else: raise Refusal('%s: read_parameters look-ahead iterates over %s' % (path, ast.unparse(it)))
    out['param_lookahead_extra'] = extra
    # end keywords in read()
    fn = _method(cls, 'read', path)
    ends = [n for n in ast.walk(fn) if isinstance(n, ast.Compare) and len(n.ops) == 1 and isinstance(n.ops[0], ast.In)
            and isinstance(n.left, ast.Name) and n.left.id == 'keyword' and isinstance(n.comparators[0], ast.List)]
    if len(ends) != 1: raise Refusal('%s: read(): end keyword test not found' % path)
    out['end_keywords'] = mod.ev(ends[0].comparators[0])
    # default_parameters keys
    dp = mod.find_assign('default_parameters').value
    if not isinstance(dp, ast.Dict) or not all(isinstance(k, ast.Constant) and isinstance(k.value, str) for k in dp.keys):
        raise Refusal('%s: default_parameters is not a dict literal with string keys' % path)
    out['default_parameter_keys'] = [k.value for k in dp.keys]
    out['chunk_consts'] = chunk_constants(cls, path)
    out['flags'] = repair_flags(cls, path)
    return out


CHUNK_METHODS = ['write_parameters', 'write_timesteps', 'read_generator', 'write_generator', 'read_times', 'write_times',
                 'write_selection', 'read_meshmaker_rz2d', 'write_meshmaker_rz2d', 'read_meshmaker_xyz', 'write_meshmaker_xyz',
                 'read_meshmaker_minc', 'write_meshmaker_minc']


def _is_len_vals(n):
    return isinstance(n, ast.Call) and isinstance(n.func, ast.Name) and n.func.id == 'len' and len(n.args) == 1


def _intconst(n):
    if isinstance(n, ast.Constant) and not isinstance(n.value, bool):
        if isinstance(n.value, int): return n.value
        if isinstance(n.value, float) and n.value == int(n.value): return int(n.value)
    return None


def chunk_constants(cls, path):
    """method -> sorted distinct values-per-line constants: `i * K`, `(i + 1) * K`, `ceil(n / K.)`,
    `len(vals) < K`, `K - len(vals)`"""
    out = []
    for m in CHUNK_METHODS:
        fn = _method(cls, m, path)
        ks = set()
        for n in ast.walk(fn):
            if isinstance(n, ast.BinOp) and isinstance(n.op, ast.Mult):
                for a, b in ((n.left, n.right), (n.right, n.left)):
                    k = _intconst(b)
                    if k is not None and any(isinstance(x, ast.Name) and x.id == 'i' for x in ast.walk(a)): ks.add(k)
            if isinstance(n, ast.Call) and isinstance(n.func, ast.Name) and n.func.id == 'ceil' and len(n.args) == 1:
                a = n.args[0]
                if not (isinstance(a, ast.BinOp) and isinstance(a.op, ast.Div) and _intconst(a.right) is not None):
                    raise Refusal('%s: %s: ceil() argument %s is not <n> / <constant>' % (path, m, ast.unparse(a)))
                ks.add(_intconst(a.right))
            if isinstance(n, ast.Compare) and len(n.ops) == 1 and isinstance(n.ops[0], ast.Lt) and _is_len_vals(n.left):
                k = _intconst(n.comparators[0])
                if k is None: raise Refusal('%s: %s: %s' % (path, m, ast.unparse(n)))
                ks.add(k)
            if isinstance(n, ast.BinOp) and isinstance(n.op, ast.Sub) and _is_len_vals(n.right):
                k = _intconst(n.left)
                if k is None: raise Refusal('%s: %s: %s' % (path, m, ast.unparse(n)))
                ks.add(k)
        if not ks: raise Refusal('%s: %s: no values-per-line constant found' % (path, m))
        out.append((m, sorted(ks)))
    return out


ECHO_REINFER = ("if self.extra_precision:\n    self._echo_extra_precision = any([section in self._sections for section in self.extra_precision])\n"
                "    self.update_read_write_functions()")
PRINT_BLOCK_OLD = ("if self.parameter['print_block'] is not None and self.parameter['print_block'].strip() == '':\n"
                   "    self.parameter['print_block'] = None")
PRINT_BLOCK_NEW = ("if self.parameter['print_block'] is not None:\n    if self.parameter['print_block'].strip() == '':\n"
                   "        self.parameter['print_block'] = None\n    elif len(self.parameter['print_block']) == 5:\n"
                   "        self.parameter['print_block'] = fix_blockname(self.parameter['print_block'])")


def _mentions(node, attr):
    return any(isinstance(n, ast.Attribute) and n.attr == attr for n in ast.walk(node)) or \
        any(isinstance(n, ast.Constant) and n.value == attr for n in ast.walk(node))


def repair_flags(cls, path):
    """Two statements of the readers exist in a defective and a repaired form (see the C01 findings);
    the model follows whichever form the source has.  Any third form is refused."""
    flags = {}
    fn = _method(cls, 'read', path)
    st = [n for n in fn.body if isinstance(n, (ast.If, ast.Assign, ast.Expr)) and _mentions(n, '_echo_extra_precision') or
          (isinstance(n, (ast.If, ast.Assign)) and _mentions(n, 'echo_extra_precision'))]
    if not st: flags['read_reinfers_echo'] = False
    elif len(st) == 1 and ast.unparse(st[0]) == ECHO_REINFER: flags['read_reinfers_echo'] = True
    else: raise Refusal('%s: read(): statement about echo_extra_precision has an unknown form: %s' % (path, ast.unparse(st[0])[:200]))
    fn = _method(cls, 'read_parameters', path)
    st = [n for n in fn.body if isinstance(n, ast.If) and _mentions(n, 'print_block')]
    if len(st) != 1: raise Refusal('%s: read_parameters(): expected one `if` about print_block, found %d' % (path, len(st)))
    txt = ast.unparse(st[0])
    if txt == PRINT_BLOCK_OLD: flags['read_fixes_print_block'] = False
    elif txt == PRINT_BLOCK_NEW: flags['read_fixes_print_block'] = True
    else: raise Refusal('%s: read_parameters(): the print_block statement has an unknown form: %s' % (path, txt[:300]))
    return flags


def emit(x):
    def sl(l): return '[' + '; '.join(coq_string(s) for s in l) + ']'
    def pl(l): return '[' + '; '.join('(%s, %s)' % (coq_string(a), coq_string(b)) for a, b in l) + ']'
    t = ['(* GENERATED by tools/props/c01_translate.py from the current /repo working tree -- do not edit *)',
         'From Coq Require Import String List.', 'Import ListNotations.', 'Open Scope string_scope.', '']
    for k in ('t2data_sections', 't2_extra_precision_sections', 'param_lookahead_extra', 'end_keywords', 'default_parameter_keys'):
        t.append('Definition %s : list string := %s.' % (k, sl(x[k])))
    for k in ('read_fn_names', 'write_fn_names', 'skip_fn_names', 'xp_read_fn_names', 'xp_write_fn_names', 'present_exprs'):
        t.append('Definition %s : list (string * string) := %s.' % (k, pl(x[k])))
    t.append('From Coq Require Import ZArith.')
    t.append('Definition chunk_consts : list (string * list Z) := [%s].' %
             '; '.join('(%s, [%s])' % (coq_string(m), '; '.join('%d%%Z' % k for k in ks)) for m, ks in x['chunk_consts']))
    for k, v in sorted(x['flags'].items()):
        t.append('Definition %s : bool := %s.' % (k, 'true' if v else 'false'))
    return '\n'.join(t) + '\n'


def gen_sections(repo):
    x = extract(repo)
    return emit(x), x
