"""C18 helpers: recipes for rectangular geometries (deterministic, replayable), the forward
generation t2grid().fromgeo(mulgrid().rectangular(...)), the call of t2grid.rectgeo, the
model-independent oracle (the property statement on the implementation) and the wire format
of the correspondence with the extracted Coq model (coq/C18)."""
import math, os, shutil, tempfile, warnings
from fractions import Fraction
import numpy as np

TRIPLES = [(3, 4, 5), (5, 12, 13), (8, 15, 17), (7, 24, 25), (20, 21, 29), (0, 1, 1), (1, 0, 1), (3, 4, 5), (119, 120, 169)]
CHARSETS = [None, 'abcdefghijklmnopqrstuvwxyz', 'ABCDEFGHIJKLMNOPQRSTUVWXYZ', 'qwertyuiopasdfghjklzxcvbnm', 'MNPQRSTUVWXYZabcdefgh']


# ----------------------------------------------------------------------------------------
# recipes
# ----------------------------------------------------------------------------------------
def dyadic_spacings(rng, n, lo=-2, hi=6):
    """positive spacings m * 2^e with small m: all sums/products/halves stay exact in double"""
    style = rng.choice(['uniform', 'random', 'random', 'grow'])
    if style == 'uniform':
        return [float(rng.choice([1, 3, 5, 25]) * 2.0 ** rng.randint(lo, hi))] * n
    if style == 'grow':
        b = rng.randint(lo, hi - 3)
        return [float((i + 1 + rng.randint(0, 2)) * 2.0 ** b) for i in range(n)]
    return [float(rng.randint(1, 15) * 2.0 ** rng.randint(lo, hi)) for _ in range(n)]


def float_spacings(rng, n):
    style = rng.choice(['uniform', 'random', 'log', 'mixed'])
    if style == 'uniform':
        return [rng.choice([0.5, 1.0, 10.0, 25.0, 100.0, 250.0, rng.uniform(0.3, 400.0)])] * n
    if style == 'log':
        a, r = rng.uniform(0.5, 50.0), rng.uniform(1.05, 1.8)
        return [a * r ** i for i in range(n)]
    if style == 'mixed':
        return [rng.choice([0.5, 1.0, 2.5, 10.0, 33.3, 100.0]) for _ in range(n)]
    return [rng.uniform(0.3, 500.0) for _ in range(n)]


def file_spacings(rng, n, zdir=False):
    """spacings whose centres, half-widths, volumes and areas are short decimals (exactly printable in
    the 10.4e / 10.3e fields of ELEME / CONNE)"""
    return [float(rng.choice([10, 20, 30, 40] if zdir else [10, 20, 40, 50, 80])) for _ in range(n)]


def choose_surface(rng, mode, dx, dy, dz, oz, exact):
    """Column surfaces (list, one per column in columnlist order, None = default) for a stepped or sloping
    surface that leaves the bottom layer complete.  A truncated top block keeps at least a quarter of its
    layer (so that the snapping tolerance passed to rectgeo is far below every block height)."""
    nx, ny, nz = len(dx), len(dy), len(dz)
    bots = [oz]
    for t in dz: bots.append(bots[-1] - t)          # bots[k] = bottom of layer k (k = 0 atmosphere layer)
    out = []
    if mode == 'flat': return None
    a, b = rng.uniform(-1, 1), rng.uniform(-1, 1)
    for j in range(ny):
        for i in range(nx):
            if mode == 'slope':
                u = (i + 0.5) / nx - 0.5; v = (j + 0.5) / ny - 0.5
                f = min(1.0, max(0.0, 0.5 + 0.6 * (a * u + b * v)))
                k = 1 + int(round(f * (nz - 2)))           # surface layer 1..nz-1
                fr = rng.choice([0.25, 0.5, 0.75, 1.0]) if exact else rng.uniform(0.25, 1.0)
            else:
                k = rng.randint(1, nz - 1) if rng.random() < 0.8 else 1
                r = rng.random()
                if r < 0.35: fr = 1.0                                      # on a layer boundary
                elif exact: fr = rng.choice([0.25, 0.5, 0.75])
                else: fr = rng.uniform(0.25, 0.999)
            if k >= nz: k = nz - 1
            # the surface lies in layer k (1-based), a fraction fr of the layer above its bottom;
            # k = nz-1, fr in (0,1]: the bottom layer nz is complete in every case
            s = bots[k - 1] if fr == 1.0 else bots[k] + fr * dz[k - 1]
            if rng.random() < 0.06: s = oz + (rng.choice([0.5, 1.0, 2.0]) if exact else rng.uniform(0.01, 1.5)) * dz[0]   # above the top of layer 1
            out.append(float(s))
    if rng.random() < 0.88 and not any(s >= oz for s in out):
        out[rng.randrange(len(out))] = float(oz)            # some column reaches the top of layer 1
    return out


def gen_recipe(rng, kind=None, maxn=(12, 12, 14), force=None):
    """kind: 'exact' (dyadic, unrotated: both the implementation and the exact model are exact),
    'rot' (dyadic spacings, rotated so that the x-axis points along a rational unit vector, e.g. (4/5, -3/5):
    the model is exact, the implementation rounds), 'float' (arbitrary spacings, origin, rotation),
    'file' (after t2data write/read)."""
    force = force or {}
    if kind is None: kind = rng.choices(['exact', 'float', 'file'], [40, 40, 20])[0]
    small = rng.random() < 0.6
    mx, my, mz = maxn
    nx = rng.randint(2, min(mx, 5 if small else mx)); ny = rng.randint(2, min(my, 5 if small else my))
    r = rng.random()
    if r < 0.07: nx = 1
    elif r < 0.19: ny = 1
    if nx == 1 and ny == 1:
        if rng.random() < 0.5: nx = rng.randint(2, min(mx, 6))
        else: ny = rng.randint(2, min(my, 6))
    nz = rng.randint(2, min(mz, 6 if small else mz))
    if 'n' in force: nx, ny, nz = force['n']
    exact = kind in ('exact', 'rot')
    axis = None
    if kind in ('exact', 'rot'):
        dx, dy, dz = dyadic_spacings(rng, nx), dyadic_spacings(rng, ny), dyadic_spacings(rng, nz, -2, 4)
        origin = [float(rng.choice([0, 0, 1, -3, 40, 1000, -2048]) * 2.0 ** rng.randint(-1, 3)) for _ in range(3)]
        angle = 0.0
        if kind == 'rot':
            p, q_, h = rng.choice(TRIPLES)
            if rng.random() < 0.5: p, q_ = q_, p
            axis = [p * rng.choice([1, -1]), q_ * rng.choice([1, -1]), h]
            angle = math.degrees(math.atan2(-axis[1] / h, axis[0] / h))      # rotate(angle): x-axis -> (cos, -sin)
    elif kind == 'file':
        dx, dy, dz = file_spacings(rng, nx), file_spacings(rng, ny), file_spacings(rng, nz, True)
        origin = [float(rng.choice([0, 0, 100, -200, 1000])), float(rng.choice([0, 0, 100, -500, 2000])), float(rng.choice([0, 0, 100, -100, 500]))]
        angle = 0.0 if rng.random() < 0.6 else rng.choice([30.0, 90.0, -45.0, 180.0, rng.uniform(-180, 180)])
    else:
        dx, dy, dz = float_spacings(rng, nx), float_spacings(rng, ny), float_spacings(rng, nz)
        sc = rng.choice([0.0, 1.0, 100.0, 1e4, 1e5])
        origin = [rng.uniform(-1, 1) * sc, rng.uniform(-1, 1) * sc, rng.choice([0.0, rng.uniform(-1, 1) * rng.choice([10.0, 1000.0, 3000.0])])]
        angle = rng.choice([0.0, 30.0, 45.0, 90.0, -90.0, 180.0, -17.5, 135.0, rng.uniform(-180, 180), rng.uniform(-180, 180)])
    mode = rng.choices(['flat', 'stepped', 'slope'], [35, 40, 25])[0]
    if 'mode' in force: mode = force['mode']
    surf = choose_surface(rng, mode, dx, dy, dz, origin[2], exact or kind == 'file')
    atm = rng.randrange(3)
    atmvol = rng.choice([None, None, 1.e25, 1.e50, 0.0, 1.e30]) if atm != 2 else None
    conv = rng.randrange(4)
    while conv == 1 and (nx + 1) * (ny + 1) > 99: conv = rng.randrange(4)       # convention 1 numbers columns/nodes with 2 digits
    recipe = dict(kind=kind, dx=dx, dy=dy, dz=dz, origin=origin, angle=angle,
                  convention=conv, atmos_type=atm, atmvol=atmvol,
                  atmconn=rng.choice([None, None, 1.e-6, 1.e-3, 0.5]) if atm != 2 else None,
                  justify=rng.choice(['r', 'l']), case=rng.choice([None, 'l', 'u']), chars=rng.choice(CHARSETS),
                  surface=surf, mode=mode, axis=axis,
                  rot_centre=rng.choice(['origin', 'centre', 'zero']),
                  extra_precision=(kind == 'file' and rng.random() < 0.25))
    if atm == 2 or (atmvol or 1.e25) > 0.0 or kind in ('exact', 'rot'):
        if rng.random() < 0.25: recipe['remove_inactive'] = True        # same result unless a block has volume <= 0
    if rng.random() < 0.2: recipe['origin_block'] = rng.choice(['name', 'block'])
    if rng.random() < 0.3:
        # the new geometry may be named by another convention / justification than the generating one
        rc = rng.randrange(4)
        if not (rc == 1 and (nx + 1) * (ny + 1) > 99): recipe['rconvention'] = rc
        recipe['rjustify'] = rng.choice(['r', 'l'])
    recipe.update({k: v for k, v in force.items() if k not in ('n', 'mode')})
    if recipe['atmos_type'] == 2: recipe['atmvol'] = recipe['atmconn'] = None
    return recipe


def min_top_height(recipe):
    """smallest height of a column's top block (for the snapping tolerance)"""
    dz = recipe['dz']; oz = recipe['origin'][2]
    bots = [oz]
    for t in dz: bots.append(bots[-1] - t)
    h = min(dz)
    if recipe['surface']:
        for s in recipe['surface']:
            for k in range(1, len(bots)):
                if bots[k] < s:
                    h = min(h, s - bots[k]); break
    return h


def layer_snap_for(recipe):
    """the tolerance below which rectgeo drops a surface block: far below every block height of the
    class (top blocks keep >= 1/4 of their layer), far above the rounding of the arithmetic / the file"""
    return min_top_height(recipe) * (0.2 if recipe['kind'] == 'file' else 1e-3)


# ----------------------------------------------------------------------------------------
# forward generation through the public API
# ----------------------------------------------------------------------------------------
def build_geo(recipe):
    from mulgrids import mulgrid
    kw = dict(convention=recipe['convention'], atmos_type=recipe['atmos_type'], origin=list(recipe['origin']),
              justify=recipe['justify'], case=recipe['case'])
    if recipe.get('chars'): kw['chars'] = recipe['chars']
    geo = mulgrid().rectangular(list(recipe['dx']), list(recipe['dy']), list(recipe['dz']), **kw)
    if recipe['surface']:
        for col, s in zip(geo.columnlist, recipe['surface']):
            if s is None: continue
            col.surface = s
            geo.set_column_num_layers(col)
        geo.setup_block_name_index()
        geo.setup_block_connection_name_index()
    if recipe.get('atmvol') is not None: geo.atmosphere_volume = recipe['atmvol']
    if recipe.get('atmconn') is not None: geo.atmosphere_connection = recipe['atmconn']
    ang = recipe['angle']
    if ang:
        c = {'origin': np.array(recipe['origin'][:2], dtype=float), 'zero': np.zeros(2), 'centre': None}[recipe['rot_centre']]
        geo.rotate(ang, c)
        geo.permeability_angle = -ang
    return geo


def build_grid(recipe, geo):
    """the grid the property is about: generated from the geometry; for kind 'file' written to a TOUGH2
    data file and read back"""
    from t2grids import t2grid
    grid = t2grid().fromgeo(geo)
    if recipe['kind'] != 'file': return grid
    from t2data import t2data
    d = tempfile.mkdtemp(prefix='c18-')
    try:
        dat = t2data()
        dat.grid = grid
        fn = os.path.join(d, 'm.dat')
        if recipe.get('extra_precision'):
            dat.simulator = 'AUTOUGH2'
            dat.write(fn, extra_precision=True)
        else: dat.write(fn)
        return t2data(fn).grid
    finally:
        shutil.rmtree(d, ignore_errors=True)


def rectgeo_kwargs(recipe):
    kw = dict(atmos_type=recipe['atmos_type'], convention=recipe.get('rconvention', recipe['convention']),
              layer_snap=recipe.get('layer_snap', layer_snap_for(recipe)))
    av = recipe.get('atmvol')
    if av is not None and 0.0 < av < 1.e25: kw['atmos_volume'] = av
    for k in ('justify',):
        if recipe.get('r' + k) is not None: kw[k] = recipe['r' + k]
    if recipe.get('remove_inactive'): kw['remove_inactive'] = True
    return kw


def origin_block_name(geo):
    """the block rectgeo's documentation calls the origin block: bottom layer, first column"""
    return geo.block_name(geo.layerlist[-1].name, geo.columnlist[0].name)


def all_inactive(recipe):
    """remove_inactive with a zero-volume atmosphere block at the head of the block list declares every block
    inactive (TOUGH2 convention): outside the class of the property"""
    return bool(recipe.get('remove_inactive')) and recipe['atmos_type'] != 2 and recipe.get('atmvol') == 0.0


def run_rectgeo(recipe, grid, geo=None):
    """-> (geo1, blockmap, None) or (None, None, 'ExcName: text')"""
    try:
        kw = rectgeo_kwargs(recipe)
        if recipe.get('origin_block') and geo is not None:
            nm = origin_block_name(geo)
            kw['origin_block'] = nm if recipe['origin_block'] == 'name' else grid.block[nm]
        with warnings.catch_warnings():
            warnings.simplefilter('ignore')
            geo1, bm = grid.rectgeo(**kw)
        return geo1, bm, None
    except Exception as e:
        return None, None, '%s: %s' % (type(e).__name__, str(e)[:200])


# ----------------------------------------------------------------------------------------
# the oracle: the property statement on the implementation alone
# ----------------------------------------------------------------------------------------
def input_class(recipe):
    """stable classifier of the input (finding keys)"""
    nx, ny = len(recipe['dx']), len(recipe['dy'])
    c = []
    if nx == 1: c.append('single-block-in-direction-1')
    elif ny == 1: c.append('single-block-in-direction-2')
    return c


def origin_column_single_layer(recipe):
    """column 0 holds only its bottom-layer block"""
    if not recipe['surface']: return False
    dz = recipe['dz']; oz = recipe['origin'][2]
    top_of_bottom = oz - sum(dz[:-1])
    return recipe['surface'][0] <= top_of_bottom


def reaches_top(recipe):
    """some column reaches the top of layer 1: only then is the top layer's thickness in the grid"""
    if not recipe['surface']: return True
    return any(s >= recipe['origin'][2] for s in recipe['surface'])


def oracle(recipe, geo, grid, geo1, bm, err, fail):
    """fail(key, observed, required) for every clause of the property text that does not hold.
    Returns counters."""
    from t2grids import t2grid
    st = dict(blocks=grid.num_blocks, connections=grid.num_connections, truncated=0, above=0, on_boundary=0, top_unrecoverable=0)
    nx, ny, nz = len(recipe['dx']), len(recipe['dy']), len(recipe['dz'])
    cls = input_class(recipe)
    tag = (':' + '+'.join(cls)) if cls else ''
    filed = recipe['kind'] == 'file'
    if all_inactive(recipe):
        st['outside_class_all_inactive'] = 1
        return st
    if err is not None:
        extra = ''
        if (nx == 1 or ny == 1) and recipe['atmos_type'] == 2 and origin_column_single_layer(recipe):
            extra = ':2d-no-atmosphere-origin-column-single-layer'
        fail('rectgeo:raises:' + err.split(':')[0] + extra + (tag if not extra else ''), 'rectgeo raised ' + err, 'a geometry and a block map')
        return st
    # scales and tolerances: double rounding of sums of up to 14 terms and a rotation (1e-9 of the
    # coordinate scale), or the 4..5 significant digits of the data file
    xy = [abs(float(v)) for n in geo.nodelist for v in n.pos]
    L = max([1.0] + xy)
    ext = max(sum(recipe['dx']), sum(recipe['dy']))
    zs = max([1.0] + [abs(float(l.bottom)) for l in geo.layerlist] + [abs(float(c.surface)) for c in geo.columnlist])
    rel = 2e-3 if filed and not recipe.get('extra_precision') else (2e-7 if filed else 1e-9)
    def close(a, b, scale):
        a, b = float(a), float(b)
        if a != a or b != b: return False
        return abs(a - b) <= rel * max(abs(a), abs(b), scale)
    # layers of the original geometry that hold no block at all are not in the grid; the thickness of the
    # topmost layer holding a block is in the grid only if some column reaches its top (DESIGN.md C18)
    bots = [float(l.bottom) for l in geo.layerlist]
    smax = max(float(c.surface) for c in geo.columnlist)
    kt = next(k for k in range(1, nz + 1) if bots[k] < smax)         # topmost layer holding a block
    top_ok = smax >= bots[kt - 1]
    if not top_ok: st['top_unrecoverable'] = 1
    if kt > 1: st['empty_top_layers'] = kt - 1
    nzr = nz - kt + 1                                                # layers the grid knows about
    # --- shape
    if geo1.num_columns != nx * ny or geo1.num_layers != nzr + 1:
        fail('block_spacings:counts' + tag, '%d columns, %d layers' % (geo1.num_columns, geo1.num_layers - 1), '%d columns (%d x %d), %d layers' % (nx * ny, nx, ny, nzr))
        return st
    # --- spacings in the three directions (read off the reconstructed geometry independently of its position)
    P1 = [np.array(n.pos, dtype=float) for n in geo1.nodelist]
    P0 = [np.array(n.pos, dtype=float) for n in geo.nodelist]
    if any(not np.all(np.isfinite(p)) for p in P1):
        fail('match_position:nan' + tag, 'node positions of the reconstructed geometry are NaN', 'finite positions')
        nan_pos = True
    else: nan_pos = False
    if len(P1) != (nx + 1) * (ny + 1):
        fail('block_spacings:counts' + tag, '%d nodes' % len(P1), '%d' % ((nx + 1) * (ny + 1))); return st
    if not nan_pos:
        dx1 = [float(np.linalg.norm(P1[i + 1] - P1[i])) for i in range(nx)]
        dy1 = [float(np.linalg.norm(P1[(j + 1) * (nx + 1)] - P1[j * (nx + 1)])) for j in range(ny)]
        hs = max(recipe['dx'] + recipe['dy']) if filed else 0.0          # the file rounds centres, not spacings
        if not all(close(a, b, hs) for a, b in zip(dx1, recipe['dx'])):
            fail('block_spacings:direction-1' + tag, 'spacings %r' % dx1, '%r' % recipe['dx'])
        if not all(close(a, b, hs) for a, b in zip(dy1, recipe['dy'])):
            fail('block_spacings:direction-2' + tag, 'spacings %r' % dy1, '%r' % recipe['dy'])
    else:
        # spacings through the column areas and the layer structure only
        pass
    dz1 = [float(l.top - l.bottom) for l in geo1.layerlist[1:]]
    zsc = max(recipe['dz']) if filed else 0.0
    lo = 0 if top_ok else 1
    if not all(close(a, b, zsc) for a, b in zip(dz1[lo:], recipe['dz'][kt - 1 + lo:])):
        fail('block_spacings:direction-3' + tag, 'spacings %r' % dz1, '%r' % recipe['dz'])
    if not all(close(c1.area, c0.area, (max(recipe['dx']) * max(recipe['dy'])) if filed else 0.0) for c1, c0 in zip(geo1.columnlist, geo.columnlist)):
        fail('block_spacings:column-areas' + tag, 'areas %r' % [float(c.area) for c in geo1.columnlist][:8], '%r' % [float(c.area) for c in geo.columnlist][:8])
    # --- position and orientation
    if not nan_pos:
        track = max(sum(recipe['dx']) - 0.5 * recipe['dx'][0] - 0.5 * recipe['dx'][-1], 1e-300)
        # after a data file the heading is known to (centre rounding) / (length of the direction-1 track); it acts on the whole extent
        psc = max(L, ext) * (1.0 + ext / track) if filed else max(L, ext)
        bad = [i for i, (p, q) in enumerate(zip(P1, P0)) if not (close(p[0], q[0], psc) and close(p[1], q[1], psc))]
        if bad:
            i = bad[0]
            fail('match_position:position' + tag, 'node %d at %r (%d nodes off)' % (i, P1[i].tolist(), len(bad)), 'at %r' % P0[i].tolist())
        da = (float(geo1.permeability_angle) - float(geo.permeability_angle)) % 360.0
        da = min(da, 360.0 - da)
        atol = 1e-6 if not filed else math.degrees(rel * L / track) + 1e-6
        if not (da <= atol):
            fail('match_position:orientation' + tag, 'permeability angle %r' % float(geo1.permeability_angle), '%r (mod 360)' % float(geo.permeability_angle))
    for k, (l1, l0) in enumerate(zip(geo1.layerlist, geo.layerlist[kt - 1:])):
        if k == 0 and not top_ok: continue
        if not close(l1.bottom, l0.bottom, zs):
            fail('match_position:elevation' + tag, 'layer %d bottom %r' % (k, float(l1.bottom)), '%r' % float(l0.bottom)); break
    # --- surfaces
    for i, (c1, c0) in enumerate(zip(geo1.columnlist, geo.columnlist)):
        s0 = float(c0.surface)
        if s0 > bots[0]: st['above'] += 1
        elif s0 in bots: st['on_boundary'] += 1
        elif s0 < bots[0]: st['truncated'] += 1
        if not close(c1.surface, s0, zs):
            fail('find_surface:surface' + tag, 'column %d surface %r' % (i, float(c1.surface)), '%r' % s0); break
    # --- atmosphere arrangement
    if geo1.atmosphere_type != geo.atmosphere_type:
        fail('rectgeo:atmosphere-type' + tag, 'atmosphere type %r' % geo1.atmosphere_type, '%r' % geo.atmosphere_type)
    # --- regeneration through the block map
    geo1.atmosphere_volume = geo.atmosphere_volume           # generation parameters rectgeo does not claim to recover
    geo1.atmosphere_connection = geo.atmosphere_connection
    if nan_pos: return st                                    # block centres would be NaN; already reported
    try:
        with warnings.catch_warnings():
            warnings.simplefilter('ignore')
            grid1 = t2grid().fromgeo(geo1, dict(bm))
    except Exception as e:
        fail('block_mapping:regeneration-raises' + tag, 'fromgeo(reconstructed geometry, block map) raised %s: %s' % (type(e).__name__, str(e)[:120]), 'the original grid')
        return st
    n0 = [b.name for b in grid.blocklist]; n1 = [b.name for b in grid1.blocklist]
    if sorted(n0) != sorted(n1):
        only0 = sorted(set(n0) - set(n1)); only1 = sorted(set(n1) - set(n0))
        fail('block_mapping:block-names' + tag, 'regenerated grid: %d blocks; missing %r, extra %r' % (len(n1), only0[:4], only1[:4]), '%d blocks with the original names' % len(n0))
        return st
    if n0 != n1:
        fail('block_mapping:block-order' + tag, 'regenerated block order differs first at %r' % next((a, b) for a, b in zip(n0, n1) if a != b)[0], 'the original order')
    atm0 = [b.name for b in grid.blocklist if not (0.0 < b.volume < 1.e25)] if recipe['atmos_type'] != 2 else []
    natm = {0: 1, 1: nx * ny, 2: 0}[recipe['atmos_type']]
    if n1[:natm] != n0[:natm]:
        fail('block_mapping:atmosphere-blocks' + tag, 'atmosphere blocks %r' % n1[:min(natm, 4)], '%r' % n0[:min(natm, 4)])
    amax = max(recipe['dx']) * max(recipe['dy'])
    vsc = amax * zs if filed else 0.0          # the file holds block centres to 4 digits: surfaces are known to 1e-3 of the elevation scale
    for b0 in grid.blocklist:
        b1 = grid1.block[b0.name]
        if not close(b1.volume, b0.volume, vsc):
            fail('block_mapping:block-volume' + tag, 'block %r volume %r' % (b0.name, float(b1.volume)), '%r' % float(b0.volume)); break
    k0 = {frozenset(k): c for k, c in grid.connection.items()}
    k1 = {frozenset(k): c for k, c in grid1.connection.items()}
    if set(k0) != set(k1):
        fail('block_mapping:connection-names' + tag, 'regenerated grid: %d connections; missing %r, extra %r' % (
            len(k1), [tuple(sorted(x)) for x in list(set(k0) - set(k1))[:3]], [tuple(sorted(x)) for x in list(set(k1) - set(k0))[:3]]), '%d connections between the original blocks' % len(k0))
        return st
    o0 = [tuple(b.name for b in c.block) for c in grid.connectionlist]; o1 = [tuple(b.name for b in c.block) for c in grid1.connectionlist]
    if o0 != o1:
        fail('block_mapping:connection-order-orientation' + tag, 'regenerated connection list differs first at %r' % (next((b for a, b in zip(o0, o1) if a != b)),),
             '%r' % (next((a for a, b in zip(o0, o1) if a != b)),))
    for key, c0 in k0.items():
        c1 = k1[key]
        if c1.direction != c0.direction:
            fail('block_mapping:connection-direction' + tag, 'connection %r direction %r' % (tuple(sorted(key)), c1.direction), '%r' % c0.direction); break
        d0 = {b.name: float(d) for b, d in zip(c0.block, c0.distance)}
        d1 = {b.name: float(d) for b, d in zip(c1.block, c1.distance)}
        dsc = max(recipe['dx'] + recipe['dy'] + recipe['dz'] + [zs]) if filed else (1e-3 * L if recipe['angle'] else 0.0)
        if not all(close(d1[n], d0[n], dsc) for n in d0):
            fail('block_mapping:connection-distance' + tag, 'connection %r distances %r' % (tuple(sorted(key)), d1), '%r' % d0); break
        asc = max(recipe['dx'] + recipe['dy']) * zs if filed else (1e-3 * L * max(recipe['dz']) if recipe['angle'] else 0.0)
        if not close(c1.area, c0.area, asc):
            fail('block_mapping:connection-area' + tag, 'connection %r area %r' % (tuple(sorted(key)), float(c1.area)), '%r' % float(c0.area)); break
        s = 1.0 if [b.name for b in c1.block] == [b.name for b in c0.block] else -1.0
        if abs(s * float(c1.dircos) - float(c0.dircos)) > (rel * zs / min(recipe['dx'] + recipe['dy']) + 1e-6 if filed else 1e-7):
            fail('block_mapping:connection-dircos' + tag, 'connection %r dircos %r' % (tuple(sorted(key)), float(c1.dircos)), '%r' % float(c0.dircos)); break
    return st


def grid_snapshot(grid):
    """everything of a t2grid that rectgeo reads, bit for bit (floats as hex)"""
    hx_ = lambda v: None if v is None else float(v).hex()
    blocks = [(b.name, hx_(b.volume), None if b.centre is None else tuple(hx_(v) for v in b.centre), bool(b.atmosphere),
               b.rocktype.name if b.rocktype is not None else None, tuple(sorted(b.connection_name))) for b in grid.blocklist]
    conns = [(tuple(b.name for b in c.block), int(c.direction), tuple(hx_(d) for d in c.distance), hx_(c.area), hx_(c.dircos))
             for c in grid.connectionlist]
    return (tuple(blocks), tuple(conns), tuple(grid.block.keys()), tuple(grid.connection.keys()))


def snapshot_diff(a, b):
    for part, (x, y) in zip(('blocks', 'connections', 'block dictionary', 'connection dictionary'), zip(a, b)):
        if x != y:
            if len(x) != len(y): return '%s: %d entries before, %d after' % (part, len(x), len(y))
            for u, v in zip(x, y):
                if u != v: return '%s: %r became %r' % (part, u, v)
    return None


def result_numbers(geo1, bm):
    """the result of rectgeo as plain numbers / names (for comparing two calls)"""
    return dict(nodes=[[float(v) for v in n.pos] for n in geo1.nodelist], node_names=[n.name for n in geo1.nodelist],
                columns=[c.name for c in geo1.columnlist], surfaces=[float(c.surface) for c in geo1.columnlist],
                num_layers=[int(c.num_layers) for c in geo1.columnlist],
                layers=[[l.name, float(l.bottom), float(l.centre), float(l.top)] for l in geo1.layerlist],
                angle=float(geo1.permeability_angle), atmosphere_type=int(geo1.atmosphere_type),
                block_names=list(geo1.block_name_list), blockmap=sorted([k, v] for k, v in bm.items()))


def same_numbers(a, b, rel=1e-12):
    """structural equality; floats equal up to rel (NaN equals NaN); returns None or the path of the first difference"""
    if isinstance(a, dict) and isinstance(b, dict):
        if sorted(a) != sorted(b): return 'keys'
        for k in a:
            d = same_numbers(a[k], b[k], rel)
            if d: return '%s/%s' % (k, d)
        return None
    if isinstance(a, (list, tuple)) and isinstance(b, (list, tuple)):
        if len(a) != len(b): return 'length %d vs %d' % (len(a), len(b))
        for i, (x, y) in enumerate(zip(a, b)):
            d = same_numbers(x, y, rel)
            if d: return '[%d]%s' % (i, '/' + d if not d.startswith('[') and not d.startswith('=') else d)
        return None
    if isinstance(a, float) or isinstance(b, float):
        a, b = float(a), float(b)
        if a != a or b != b: return None if (a != a and b != b) else '=%r vs %r' % (a, b)
        return None if abs(a - b) <= rel * max(abs(a), abs(b), 1.0) else '=%r vs %r' % (a, b)
    return None if a == b else '=%r vs %r' % (a, b)


def reference_eval(recipe):
    """rectgeo on the grid of a recipe, as plain data (run in a fresh interpreter by the history-independence clause)"""
    geo = build_geo(recipe)
    grid = build_grid(recipe, geo)
    geo1, bm, err = run_rectgeo(recipe, grid, geo)
    return dict(err=None if err is None else err.split(':')[0], res=None if err is not None else result_numbers(geo1, bm))


def check_recipe(recipe, fail):
    geo = build_geo(recipe)
    grid = build_grid(recipe, geo)
    before = grid_snapshot(grid)
    geo1, bm, err = run_rectgeo(recipe, grid, geo)
    # --- rectgeo reads its grid: it leaves it unchanged ...
    d = snapshot_diff(before, grid_snapshot(grid))
    if d: fail('rectgeo:modifies-its-grid', 'after rectgeo the grid differs: ' + d[:300], 'the grid as it was (reconstructing a geometry "from the grid alone")')
    # --- ... and is a function of the grid: a second call on the same grid returns the same geometry and block map
    geo2, bm2, err2 = run_rectgeo(recipe, grid, geo)
    if (err is None) != (err2 is None) or (err is not None and err.split(':')[0] != err2.split(':')[0]):
        fail('rectgeo:second-call-on-same-grid-differs', 'first call: %s, second call: %s' % (err or 'a geometry', err2 or 'a geometry'), 'the same outcome')
    elif err is None:
        d = same_numbers(result_numbers(geo1, bm), result_numbers(geo2, bm2))
        if d: fail('rectgeo:second-call-on-same-grid-differs', 'the second call differs at ' + d[:200], 'the same geometry and block map')
    return oracle(recipe, geo, grid, geo1, bm, err, fail), geo, grid, geo1, bm, err


# ----------------------------------------------------------------------------------------
# correspondence with the extracted Coq model (coq/C18/Drv.v)
# ----------------------------------------------------------------------------------------
def qs(x):
    n, d = float(x).as_integer_ratio()
    return '%d/%d' % (n, d)


def dec(x):
    """the decimal a double was written as (shortest repr), exactly: the model of the data file keeps decimals, and
    doubles nearest to short decimals compare like the decimals"""
    f = Fraction(repr(float(x)))
    return '%d/%d' % (f.numerator, f.denominator)


def hx(s):
    return s.encode('latin-1').hex()


def unhx(s):
    return bytes.fromhex(s).decode('latin-1')


def pq(s):
    n, d = s.split('/')
    return Fraction(int(n), int(d))


def new_names(recipe, kw):
    """layer and column names of the geometry rectgeo builds: they depend on the block counts and the
    naming arguments only (taken from an independent call of mulgrid.rectangular on unit spacings)"""
    from mulgrids import mulgrid
    nx, ny, nz = len(recipe['dx']), len(recipe['dy']), len(recipe['dz'])
    args = dict(convention=kw.get('convention', 0), atmos_type=kw.get('atmos_type', 2))
    if 'justify' in kw: args['justify'] = kw['justify']
    g = mulgrid().rectangular([1.0] * nx, [1.0] * ny, [1.0] * nz, **args)
    return [l.name for l in g.layerlist], [c.name for c in g.columnlist]


def case_line(recipe, geo, grid):
    """the abstract rectangular geometry (numbers from the recipe, names and the iteration order of the
    connection_name sets from the real objects) + the rectgeo arguments"""
    kw = rectgeo_kwargs(recipe)
    nx, ny = len(recipe['dx']), len(recipe['dy'])
    oz = recipe['origin'][2]
    surf = recipe['surface'] or [oz] * (nx * ny)
    rl, rc = new_names(recipe, kw)
    cn = ';'.join('%s=%s' % (hx(b.name), ','.join('%s:%s' % (hx(p[0]), hx(p[1])) for p in b.connection_name)) for b in grid.blocklist)
    ax = recipe.get('axis') or [1, 0, 1]
    p0 = geo.nodelist[0].pos                       # position of the first node (after the rotation, as the implementation computed it)
    f = ['R', str(recipe['atmos_type']), qs(geo.atmosphere_volume), qs(geo.atmosphere_connection),
         qs(p0[0]), qs(p0[1]), qs(oz), '%d/%d' % (ax[0], ax[2]), '%d/%d' % (ax[1], ax[2]),
         ';'.join(qs(v) for v in recipe['dx']), ';'.join(qs(v) for v in recipe['dy']), ';'.join(qs(v) for v in recipe['dz']),
         ';'.join(qs(v) for v in surf),
         str(recipe['convention']), ';'.join(hx(l.name) for l in geo.layerlist), ';'.join(hx(c.name) for c in geo.columnlist),
         (dec(kw.get('atmos_volume', 1.e25)) if recipe['kind'] == 'file' else qs(kw.get('atmos_volume', 1.e25))), qs(kw['layer_snap']), str(kw['atmos_type']), str(kw['convention']),
         ';'.join(hx(n) for n in rl), ';'.join(hx(n) for n in rc), cn,
         hx(origin_block_name(geo)) if recipe.get('origin_block') else '-']
    return '\t'.join(f)


def F(x):
    return Fraction(float(x))


def first_diff(a, b):
    for i, (x, y) in enumerate(zip(a, b)):
        if x != y: return '[%d] %r vs %r' % (i, x, y)
    return 'lengths %d vs %d' % (len(a), len(b))


def compare_model(recipe, geo, grid, geo1, bm, err, out):
    """Extracted model vs implementation.  Unrotated dyadic cases: exactly (==; both sides are exact).
    Rotated cases (x-axis along a rational unit vector): the model is exact, the implementation rounds
    (sin/cos/asin/sqrt in floating point): numbers within 1e-9 of the coordinate scale, names exactly.
    Returns a list of difference strings."""
    parts = out.split('\t')
    diffs = []
    if len(parts) < 3: return ['model output malformed: %r' % out[:200]]
    rot = bool(recipe.get('axis')) and recipe['axis'][:2] != [1, 0]
    filed = recipe['kind'] == 'file'       # the model rounds every number as the data file does; the implementation then
                                           # computes in doubles from the re-read decimals: results within 1e-9
    Ls = max([1.0] + [abs(float(v)) for n in geo.nodelist for v in n.pos])
    Zs = max([1.0] + [abs(float(l.bottom)) for l in geo.layerlist] + [abs(float(c.surface)) for c in geo.columnlist])

    def same(m, v, scale=0.0):
        """model rational m vs implementation float v"""
        if not rot and not filed: return m == F(v)
        v = float(v)
        if v != v: return False
        mf = m.numerator / m.denominator
        return abs(mf - v) <= 1e-9 * max(abs(mf), abs(v), scale)

    if filed:
        # the re-read grid: each number is the double nearest to the decimal the model computed
        def same_fwd(m, v, scale=0.0): return (m.numerator / m.denominator) == float(v)
    else: same_fwd = same
    # --- the forward map: rect_grid vs t2grid().fromgeo(mulgrid().rectangular(...))
    mb = [x.split(':') for x in parts[0].split(';')] if parts[0] else []
    ib = grid.blocklist
    mnames = [unhx(x[0]) for x in mb]
    if mnames != [b.name for b in ib]:
        diffs.append('forward: block names/order: model vs impl ' + first_diff(mnames, [b.name for b in ib]))
    else:
        for x, b in zip(mb, ib):
            if not same_fwd(pq(x[1]), b.volume): diffs.append('forward: block %r volume: model %s impl %r' % (b.name, x[1], float(b.volume))); break
            if (x[2] == 'None') != (b.centre is None): diffs.append('forward: block %r centre: model %r impl %r' % (b.name, x[2], b.centre)); break
            if b.centre is not None and not (same_fwd(pq(x[2]), b.centre[0], Ls) and same_fwd(pq(x[3]), b.centre[1], Ls) and (same_fwd(pq(x[4]), b.centre[2]) if filed else pq(x[4]) == F(b.centre[2]))):
                diffs.append('forward: block %r centre: model %r impl %r' % (b.name, [float(pq(v)) for v in x[2:5]], b.centre)); break
    mc_ = [x.split(':') for x in parts[1].split(';')] if parts[1] else []
    ic_ = grid.connectionlist
    mk = [(unhx(x[0]), unhx(x[1])) for x in mc_]
    ik = [tuple(b.name for b in c.block) for c in ic_]
    if mk != ik:
        diffs.append('forward: connection names/order/orientation: model vs impl ' + first_diff(mk, ik))
    else:
        for x, c in zip(mc_, ic_):
            if int(x[2]) != int(c.direction): diffs.append('forward: connection %r direction: model %s impl %r' % (tuple(b.name for b in c.block), x[2], c.direction)); break
            hz = int(x[2]) != 3
            if not (same_fwd(pq(x[3]), c.distance[0], 1e-3 * Ls if hz else 0.0) and same_fwd(pq(x[4]), c.distance[1], 1e-3 * Ls if hz else 0.0)):
                diffs.append('forward: connection %r distances: model %s,%s impl %r' % (tuple(b.name for b in c.block), x[3], x[4], [float(d) for d in c.distance])); break
            if not same_fwd(pq(x[5]), c.area, 1e-3 * Ls * Zs if hz else 0.0): diffs.append('forward: connection %r area: model %s impl %r' % (tuple(b.name for b in c.block), x[5], float(c.area))); break
            mdc = float(pq(x[6])) / math.sqrt(float(pq(x[7])))          # the model carries dircos as numerator / sqrt(radicand)
            if abs(mdc - float(c.dircos)) > (1e-7 if filed else 1e-9): diffs.append('forward: connection %r dircos: model %r impl %r' % (tuple(b.name for b in c.block), mdc, float(c.dircos))); break
    # --- rectgeo
    if parts[2].startswith('RAISE '):
        exn = parts[2][6:]
        if err is None: diffs.append('rectgeo: model raises %s, implementation returns a geometry' % exn)
        elif err.split(':')[0] != exn: diffs.append('rectgeo: model raises %s, implementation raises %s' % (exn, err))
        return diffs
    if err is not None:
        diffs.append('rectgeo: implementation raises %s, model returns a result' % err); return diffs
    if len(parts) != 10: return diffs + ['model result malformed']
    lst = lambda s: [pq(v) for v in s.split(';')] if s else []
    mdx, mdy, mdz, mpos, moz, msurf, mmap = lst(parts[3]), lst(parts[4]), lst(parts[5]), parts[6], pq(parts[7]), lst(parts[8]), parts[9]
    nxm, nym = len(mdx), len(mdy)
    if geo1.num_columns != nxm * nym or geo1.num_layers != len(mdz) + 1 or geo1.num_nodes != (nxm + 1) * (nym + 1):
        diffs.append('rectgeo: counts: model %d x %d x %d, implementation %d columns, %d layers' % (nxm, nym, len(mdz), geo1.num_columns, geo1.num_layers - 1))
        return diffs
    P = [n.pos for n in geo1.nodelist]
    nanpos = any(v != v for p in P for v in p)
    if (mpos == 'NAN') != nanpos: diffs.append('rectgeo: position: model %s, implementation %s' % (mpos, 'NaN' if nanpos else 'finite'))
    elif not nanpos:
        x0, y0, ax, ay = (pq(v) for v in mpos.split(':'))
        # every node of the new geometry, from the model's position, orientation and spacings
        X = [Fraction(0)]; Y = [Fraction(0)]
        for d in mdx: X.append(X[-1] + d)
        for d in mdy: Y.append(Y[-1] + d)
        k = 0
        for j in range(nym + 1):
            for i in range(nxm + 1):
                mx, my = x0 + X[i] * ax - Y[j] * ay, y0 + X[i] * ay + Y[j] * ax
                if not (same(mx, P[k][0], Ls) and same(my, P[k][1], Ls)):
                    diffs.append('rectgeo: node %d: model (%r, %r), implementation %r' % (k, float(mx), float(my), P[k].tolist())); break
                k += 1
            else: continue
            break
        ang = math.radians(float(geo1.permeability_angle))
        if not rot:
            if float(geo1.permeability_angle) != 0.0 or (ax, ay) != (1, 0): diffs.append('rectgeo: orientation: implementation angle %r, model axis (%s, %s)' % (float(geo1.permeability_angle), ax, ay))
        elif abs(math.cos(ang) - float(ax)) > 1e-9 or abs(math.sin(ang) - float(ay)) > 1e-9:
            diffs.append('rectgeo: orientation: implementation angle %r, model axis (%r, %r)' % (float(geo1.permeability_angle), float(ax), float(ay)))
    # areas carry the horizontal spacings also when the position is NaN
    ia = [c.area for c in geo1.columnlist]
    ma = [mdx[i] * mdy[j] for j in range(nym) for i in range(nxm)]
    if not all(same(m, v) for m, v in zip(ma, ia)): diffs.append('rectgeo: column areas: ' + first_diff(ma, [F(v) for v in ia]))
    idz = [F(l.top) - F(l.bottom) for l in geo1.layerlist[1:]]
    if idz != mdz: diffs.append('rectgeo: spacings 3: ' + first_diff(mdz, idz))
    if F(geo1.layerlist[0].bottom) != moz: diffs.append('rectgeo: top elevation: model %s implementation %r' % (moz, float(geo1.layerlist[0].bottom)))
    isf = [c.surface for c in geo1.columnlist]
    if not all(same(m, v, Zs) for m, v in zip(msurf, isf)) or len(isf) != len(msurf): diffs.append('rectgeo: surfaces: ' + first_diff(msurf, [F(v) for v in isf]))
    md = {}
    for kv in (mmap.split(';') if mmap else []):
        k, v = kv.split(':')
        md[unhx(k)] = unhx(v)
    if md != dict(bm):
        ks = sorted(set(md) | set(bm))
        bad = [k for k in ks if md.get(k) != bm.get(k)]
        diffs.append('rectgeo: block map differs at %r: model %r implementation %r (%d entries differ)' % (bad[0], md.get(bad[0]), bm.get(bad[0]), len(bad)))
    return diffs
