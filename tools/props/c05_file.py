"""C05 file level: the whole reader (open + set_index) on the real implementation and on the
extracted Coq model coq/C05/Reader.v, and the abstraction of a listing into the generative shape
of coq/C05/FileGen.v.

impl_run      t2listing(path, skip_tables) through the public entry points, then `index = i` for
              each i: table structures (names, keys, row_format, header_skiplines, skiplines,
              row_line, row names) and at each index the index / time / step and every cell.
case_line     the same question for the model (one driver case).
parse_model   the driver's answer in the same canonical form; compare() lists the differences.
"""
import struct, bisect


def hx(s): return s.encode('latin-1', 'replace').hex()


def fbits(x):
    x = float(x)
    if x != x: return 'nan'
    return struct.pack('>d', x).hex()


def file_lines(raw):
    """the lines readline() returns (binary file split after every \\n), as latin-1 text"""
    parts = raw.split(b'\n')
    lines = [p + b'\n' for p in parts[:-1]]
    if parts[-1]: lines.append(parts[-1])
    return [l.decode('latin-1') for l in lines]


def line_starts(lines):
    out, o = [], 0
    for l in lines:
        out.append(o); o += len(l)
    out.append(o)
    return out


def keyl(k): return [k] if isinstance(k, str) else list(k)


def dump_tables(lst):
    out = []
    for tn in lst._tablenames:
        t = lst._table[tn]
        out.append((tn, [fbits(x) for row in t._data for x in row], t._data.shape[0]))
    return out


def val_step(s):
    if s is None: return 'NONE'
    return 'I %d' % int(s)


def impl_run(T, path, skip, idxs, lines):
    """-> canonical dict; {'raise': name} when the listing does not open"""
    starts = line_starts(lines)
    n = len(lines)
    def remaining(pos):
        i = bisect.bisect_left(starts, pos)
        if i >= len(starts) or starts[i] != pos: return -1            # not a line boundary
        return n - i
    try: lst = T.t2listing(path, skip_tables=list(skip))
    except Exception as e:
        return {'raise': type(e).__name__}
    res = {'nlines': n, 'fullpos': [remaining(p) for p in lst._fullpos], 'title': lst.title, 'sim': lst.simulator, 'tables': [], 'visits': []}
    for tn in lst._tablenames:
        t = lst._table[tn]
        res['tables'].append({'name': tn, 'nkeys': t.num_keys, 'cols': list(t.column_name), 'keypos': [int(x) for x in t.row_format['key']],
                              'values': [int(x) for x in t.row_format['values']], 'hskip': int(t.header_skiplines),
                              'skips': [int(x) for x in t.skiplines], 'rowline': [int(x) for x in (t.row_line or [])],
                              'rows': [keyl(k) for k in t.row_name]})
    def visit(i):
        return {'i': i, 'index': int(lst.index), 'time': fbits(lst.time), 'step': val_step(lst.step), 'data': dump_tables(lst)}
    res['visits'].append(visit(0))
    for i in idxs:
        try: lst.index = i
        except Exception as e:
            res['visits'].append({'i': i, 'raise': type(e).__name__}); continue
        res['visits'].append(visit(i))
    lst.close()
    return res


def case_line(sim, skip, idxs, lines):
    return 'file\t%s\t%s\t%s\t%s' % (sim, ','.join(hx(s) for s in skip), ','.join(str(i) for i in idxs), '\t'.join(hx(l) for l in lines))


EXN = {'Exception': 'Exception'}


def mval(t):
    """a model value (show_pyval) as the bit pattern of the double CPython makes of it"""
    if t.startswith('F '):
        _, ng, m, e = t.split(' ')
        return fbits(float('%s%se%s' % ('-' if ng == '1' else '', m, e)))
    if t.startswith('INF '): return fbits(float('-inf' if t[4] == '1' else 'inf'))
    if t == 'NAN': return 'nan'
    return '?' + t


def unhx(h): return bytes.fromhex(h).decode('latin-1')


def ints(s): return [int(x) for x in s.split(',')] if s else []


def parse_model(out):
    if out.startswith('RAISE '): return {'raise': out[6:]}
    segs = out.split('|')
    if segs[0] != 'OK': return {'bad': out[:200]}
    res = {'tables': [], 'visits': []}
    for sg in segs[1:]:
        f = sg.split('\t')
        if f[0] == 'N': res['nlines'] = int(f[1]); res['fullpos'] = ints(f[2])
        elif f[0] == 'H': res['title'] = unhx(f[1])
        elif f[0] == 'T':
            res['tables'].append({'name': unhx(f[1]), 'nkeys': int(f[2]), 'cols': [unhx(x) for x in f[3].split(',')] if f[3] else [],
                                  'keypos': ints(f[4]), 'values': ints(f[5]), 'hskip': int(f[6]), 'skips': ints(f[7]), 'rowline': ints(f[8]),
                                  'rows': [[unhx(x) for x in r.split('.')] for r in f[9].split(',')] if f[9] else []})
        elif f[0] == 'I':
            if f[2].startswith('RAISE '): res['visits'].append({'i': int(f[1]), 'raise': f[2][6:]})
            else: res['visits'].append({'i': int(f[1]), 'index': int(f[2]), 'time': mval(f[3]), 'step': f[4], 'data': []})
        elif f[0] == 'D':
            rows = f[2].split('/') if f[2] else []
            cells = [mval(x) for r in rows for x in (r.split(';') if r else [])]
            res['visits'][-1]['data'].append((unhx(f[1]), cells, len(rows)))
    return res


def compare(impl, model):
    """-> list of (what, implementation, model)"""
    d = []
    if 'raise' in impl or 'raise' in model:
        a, b = impl.get('raise'), model.get('raise')
        if a != b: d.append(('open', 'raises ' + a if a else 'opens', 'raises ' + b if b else 'opens'))
        return d
    if 'bad' in model: return [('driver', '', model['bad'])]
    for k in ('nlines', 'fullpos', 'title'):
        if impl[k] != model[k]: d.append((k, repr(impl[k])[:200], repr(model[k])[:200]))
    if [t['name'] for t in impl['tables']] != [t['name'] for t in model['tables']]:
        d.append(('table names', [t['name'] for t in impl['tables']], [t['name'] for t in model['tables']]))
        return d
    for a, b in zip(impl['tables'], model['tables']):
        for k in ('nkeys', 'cols', 'keypos', 'values', 'hskip', 'skips', 'rowline', 'rows'):
            if a[k] != b[k]:
                x, y = a[k], b[k]
                if isinstance(x, list) and isinstance(y, list) and len(x) == len(y):
                    j = next(i for i in range(len(x)) if x[i] != y[i])
                    x, y = ('[%d]' % j, x[j]), ('[%d]' % j, y[j])
                d.append(('%s.%s' % (a['name'], k), repr(x)[:200], repr(y)[:200]))
    if len(impl['visits']) != len(model['visits']):
        d.append(('visits', len(impl['visits']), len(model['visits']))); return d
    for a, b in zip(impl['visits'], model['visits']):
        if 'raise' in a or 'raise' in b:
            if a.get('raise') != b.get('raise'): d.append(('index=%d' % a['i'], a.get('raise', 'ok'), b.get('raise', 'ok')))
            continue
        for k in ('index', 'time', 'step'):
            if a[k] != b[k]: d.append(('index=%d %s' % (a['i'], k), a[k], b[k]))
        for (n1, c1, r1), (n2, c2, r2) in zip(a['data'], b['data']):
            if n1 != n2 or r1 != r2 or c1 != c2:
                j = next((i for i in range(min(len(c1), len(c2))) if c1[i] != c2[i]), None)
                d.append(('index=%d %s cells' % (a['i'], n1), '%d rows, first difference at cell %r: %s' % (r1, j, c1[j] if j is not None else len(c1)),
                          '%d rows, %s' % (r2, c2[j] if j is not None else len(c2))))
    return d


# ---------------------------------------------------------------------------------------------
# abstraction of a TOUGH2-family listing into the generative shape of coq/C05/FileT2.v: one role tag
# per line, assigned from the printed text alone (no PyTOUGH code).  The tags are only a proposal: the
# extracted checker (CheckT2.file_check, proved sound) decides whether the file is in the class.
import re
import c05_oracle as O

TABLE_TAG = {'element': 'E', 'connection': 'C', 'primary': 'P', 'generation': 'G'}


def table_kind(words):
    """the table a header line announces, from its first words"""
    w = words[:3]
    if len(w) >= 3 and w[0] == 'ELEM.' and w[1] in ('INDEX', 'IND.'):
        return 'element' if w[2] == 'P' else ('primary' if w[2] == 'X1' else None)
    if w == ['ELEM1', 'ELEM2', 'INDEX']: return 'connection'
    if len(w) == 3 and w[0] in ('ELEMENT', 'ELEM.') and w[1] == 'SOURCE' and w[2] == 'INDEX': return 'generation'
    return None


def is_at(line): return line[1:6] == '@@@@@'


def tag_table(lines, tags, i, end, kind):
    """tags the table whose header is line i; -> index after its separator, or None (nothing tagged)"""
    hw = O.header_words(lines[i])
    if kind is None or hw is None: return None
    z = next((q for q in range(i + 1, end) if is_at(lines[q])), None)
    if z is None: return None
    nkeys, cols = hw
    nint = 2 if cols and cols[0] == 'I' else 1
    rows, keypos = [], None
    for q in range(i + 1, z):
        r = O.parse_row(lines[q], nkeys, nint, keypos)
        if r is not None:
            if keypos is None: keypos = r[4]
            rows.append(q)
    if not rows: return None
    tags[i] = TABLE_TAG[kind]
    for q in range(i + 1, rows[0]): tags[q] = 'f'
    rs = set(rows)
    for q in range(rows[0], rows[-1] + 1): tags[q] = 'r' if q in rs else 'g'
    for q in range(rows[-1] + 1, z): tags[q] = 'e'
    tags[z] = 'z'
    return z + 1


def tag_lines(lines):
    """-> string of tags (one per line) or None when the text does not even have the outline of a listing"""
    n = len(lines)
    tags = ['?'] * n
    oda = [i for i, l in enumerate(lines) if l.lstrip().lower().startswith('output data after')]
    if not oda: return None
    pos = 0
    for k, o in enumerate(oda):
        end = oda[k + 1] if k + 1 < len(oda) else n
        tt = next((i for i in range(o + 1, end) if 'total time' in lines[i].lower()), None)
        if tt is None or tt + 1 >= end: return None
        for i in range(pos, tt + 1): tags[i] = 'l'          # lead: up to and including the TOTAL TIME line
        tags[tt + 1] = 't'
        i = tt + 2
        while i < end and not is_at(lines[i]): tags[i] = 'h'; i += 1
        if i >= end: return None
        tags[i] = 's'; i += 1
        while i < end and not lines[i].strip(): tags[i] = 'b'; i += 1
        if i < end and len(lines[i].split()) < 4:             # one short line ('NCG = CO2') and blank lines before the header
            tags[i] = 'y'; i += 1
            while i < end and not lines[i].strip(): tags[i] = 'y'; i += 1
        if i >= end: return None
        i = tag_table(lines, tags, i, end, 'element')        # the reader calls the first table 'element' whatever its header
        if i is None: return None
        while i < end:
            # lines up to the header of the next table: ..., a KCYC/ITER line, blank lines, the header; an EOS7c
            # 'MASS FLOW RATES' block (title after the KCYC/ITER line, lines up to an @@@@@ line) is passed over
            scan = i
            q = None
            while True:
                kc = next((j for j in range(scan, end) if lines[j].strip().startswith('KCYC') and 'ITER' in lines[j]), None)
                if kc is None: break
                j = kc + 1
                while j < end and not lines[j].strip(): j += 1
                if j >= end: break
                if lines[j].strip() == 'MASS FLOW RATES (KG/S) FROM DIFFUSION':
                    z = next((k2 for k2 in range(j + 1, end) if is_at(lines[k2])), None)
                    if z is None: break
                    scan = z + 1
                    continue
                q = j
                break
            if q is None: break
            nxt = tag_table(lines, tags, q, end, table_kind(lines[q].split()))
            if nxt is None: break
            for p in range(i, q): tags[p] = 'i'
            i = nxt
        for p in range(i, end): tags[p] = 'x'
        pos = end
    return ''.join(tags)


def fchk_line(sim, tags, lines):
    return 'fchk\t%s\t%s\t%s' % (sim, tags, '\t'.join(hx(l) for l in lines))


# AUTOUGH2: tags p K h k c b H B r z a n x (see coq/C05/Drv.v)
AKW = ('EEEEE', 'CCCCC', 'GGGGG')


def tag_lines_AUT(lines):
    n = len(lines)
    tags = ['p'] * n
    def kw(i): return lines[i][1:6] if i < n else ''
    def table(i, letter):
        """tags the table whose three header lines start at line i; -> index after it or None"""
        if i + 9 > n or kw(i + 3) != letter * 5: return None
        j = i + 8
        if not lines[j].strip() or kw(j) == letter * 5: return None
        z = next((q for q in range(j, n) if kw(q) == letter * 5), None)
        if z is None or z + 1 >= n: return None
        tags[i] = tags[i + 1] = tags[i + 2] = 'h'
        tags[i + 3] = 'k'; tags[i + 4] = 'c'; tags[i + 5] = 'b'; tags[i + 6] = 'H'; tags[i + 7] = 'B'
        for q in range(j, z): tags[q] = 'r'
        tags[z] = 'z'; tags[z + 1] = 'a'
        return z + 2
    i = 0
    found = False
    while i < n:
        if kw(i) != 'EEEEE': i += 1; continue
        nxt = table(i + 1, 'E')
        if nxt is None: i += 1; continue
        tags[i] = 'K'; found = True
        i = nxt
        while i < n and kw(i) in ('CCCCC', 'GGGGG'):
            nx2 = table(i + 1, kw(i)[0])
            if nx2 is None: break
            tags[i] = 'n'; i = nx2
        # lines after the last table of this set and before the next set: 'x' up to the next set's keyword line
        j = i
        while j < n and not (kw(j) == 'EEEEE'): j += 1
        # give the lines to this set's post; the next set then has an empty 'p' part
        for q in range(i, j): tags[q] = 'x'
        i = j
    return ''.join(tags) if found else None


def achk_line(tags, lines):
    return 'achk\t-\t%s\t%s' % (tags, '\t'.join(hx(l) for l in lines))


# TOUGH+: same tags as tag_lines; '1' '2' '3' header of the second / third / fourth ELEM INDEX table (element1, ...);
# the header block ends at a '=====' line, a table at its '@@@@@' line, the primary table at the '_____' line after a blank
def tag_lines_TP(lines):
    n = len(lines)
    tags = ['?'] * n
    oda = [i for i, l in enumerate(lines) if l.lstrip().lower().startswith('output data after')]
    if not oda: return None
    def kind(line):
        w = line.split()[:3]
        if len(w) >= 3 and w[0] == 'ELEM' and w[1] == 'INDEX': return 'primary' if w[2] == 'X1' else 'element'
        if w == ['ELEM1', 'ELEM2', 'INDEX']: return 'connection'
        if w == ['ELEMENT', 'SOURCE', 'INDEX']: return 'generation'
        return None
    def table(i, end, tag, primary):
        hw = O.header_words(lines[i])
        if hw is None: return None
        nkeys, cols = hw
        rows, keypos = [], None
        z = None
        for q in range(i + 1, end):
            if rows and ((lines[q].startswith('_____')) if primary else is_at(lines[q])): z = q; break
            if not rows and is_at(lines[q]): return None
            r = O.parse_row(lines[q], nkeys, 1, keypos)
            if r is not None:
                if keypos is None: keypos = r[4]
                rows.append(q)
        if z is None or not rows: return None
        tags[i] = tag
        for q in range(i + 1, rows[0]): tags[q] = 'f'
        rs = set(rows)
        for q in range(rows[0], rows[-1] + 1): tags[q] = 'r' if q in rs else 'g'
        for q in range(rows[-1] + 1, z): tags[q] = 'e'
        tags[z] = 'z'
        return z
    pos = 0
    for k, o in enumerate(oda):
        end = oda[k + 1] if k + 1 < len(oda) else n
        tt = next((i for i in range(o + 1, end) if 'total time' in lines[i].lower()), None)
        if tt is None or tt + 1 >= end: return None
        for i in range(pos, tt + 1): tags[i] = 'l'
        tags[tt + 1] = 't'
        i = tt + 2
        while i < end and lines[i][1:6] != '=====': tags[i] = 'h'; i += 1
        if i >= end: return None
        tags[i] = 's'; i += 1
        while i < end and not lines[i].strip(): tags[i] = 'b'; i += 1
        if i < end and len(lines[i].split()) < 4:
            tags[i] = 'y'; i += 1
            while i < end and not lines[i].strip(): tags[i] = 'y'; i += 1
        if i >= end: return None
        z = table(i, end, 'E', False)
        if z is None: return None
        nel, was_primary = 0, False
        while True:
            us = z if was_primary else next((q for q in range(z + 1, end) if lines[q].startswith('_____')), None)
            if us is None or us + 2 >= end: break
            h = us + 2
            kd = kind(lines[h])
            if kd is None: break
            if kd == 'element':
                tag = str(nel + 1)
            else: tag = TABLE_TAG[kd]
            z2 = table(h, end, tag, kd == 'primary')
            if z2 is None: break
            if kd == 'element': nel += 1
            for p in range(z + 1, h): tags[p] = 'i'
            z, was_primary = z2, kd == 'primary'
        for p in range(z + 1, end): tags[p] = 'x'
        pos = end
    return ''.join(tags)
