"""C09 -- Reordering, renaming and MINC do not change the physics the grid describes.

tie: H.  coq/C09/GridPhys.v is the t2grid model of C08 extended with the physical payload of blocks
(volume, centre) and connections (distance pair, area, direction, gravity cosine, nad1/nad2) as opaque
tokens; rename_blocks and reorder follow the statement order of t2grids.py.
  * correspondence: grids built from geometries by the real fromgeo are replayed into the extracted model,
    then the same sequence of reorder / rename_blocks calls runs on both; the dump of every block and
    connection WITH its payload is compared after every step.
    coq/C09/MincModel.v is a second hand model (heap of objects, volumes / distances / areas as exact
    rationals) of t2grid.minc, __add__ and embed: the same grids are replayed into it, the same minc() /
    embed() call runs on both sides and the whole grid afterwards (rock types, blocks with volume / rock /
    centre / connection_name, connections with distances / area, the three dictionaries in order) is
    compared, numbers to 1e-12 relative (the model is exact, the implementation works in doubles).  The
    MINC geometry values d[], a[] the model takes as inputs are read off a probe run of the real minc on a
    one-block grid of volume 1 (same fractions / spacing / planes).
  * oracle (independent of the model): the physical signature of the real grid -- per block (volume, rock
    type, centre), per connected pair (area, direction, each block's own distance and nad, gravity cosine
    oriented from one named block to the other) -- must be unchanged by reorder and relabelled by rename;
    MINC must split every processed block's volume in the requested fractions, chain the continua, and
    leave the other blocks alone; embed must conserve total volume.
"""
import os, sys, json, random, re, zlib, math, traceback, itertools
from collections import Counter
import numpy as np
import vf

NAME_OK = re.compile(r'^[A-Za-z0-9 ]+$')
CASE_SECONDS = 30          # a single minc / embed call on a grid of <= 250 blocks takes milliseconds


class CaseTimeout(BaseException):
    pass


import contextlib, signal


@contextlib.contextmanager
def time_limit(sec):
    """turn a call that does not return into an exception (the workers run in the main thread of their process)"""
    def handler(sig, frm): raise CaseTimeout()
    old = signal.signal(signal.SIGALRM, handler)
    signal.alarm(sec)
    try: yield
    finally:
        signal.alarm(0); signal.signal(signal.SIGALRM, old)


def _impl():
    import t2grids
    return t2grids


def hx(s): return s.encode('latin-1').hex()


# ---- tokens: the repr of the Python value -----------------------------------------------------
def tok(x):
    if x is None: return 'None'
    if isinstance(x, (bool, int, np.integer)): return repr(int(x))
    return repr(float(x))


def ctok(c):
    if c is None: return 'None'
    return '_'.join(repr(float(v)) for v in c)


def exn_name(e):
    return 'Exception' if type(e) is Exception else type(e).__name__


# ---- canonical dump (exactly what coq/C09/Drv.v `observe` prints) --------------------------------
def dump(g):
    B = ','.join('%s/%s/%s/%s' % (b.name, tok(b.volume), b.rocktype.name, ctok(b.centre)) for b in g.blocklist)
    C = ','.join('%s~%s/%s/%s/%s/%s/%s/%s/%s' % (c.block[0].name, c.block[1].name, tok(c.distance[0]), tok(c.distance[1]), tok(c.area),
                                                 tok(c.direction), tok(c.dircos), tok(c.nad1), tok(c.nad2)) for c in g.connectionlist)
    BD = ','.join('%s=%s' % (k, v.name) for k, v in g.block.items())
    CD = ','.join('%s~%s=%s~%s' % (k[0], k[1], v.block[0].name, v.block[1].name) for k, v in g.connection.items())
    return 'B:%s;C:%s;BD:%s;CD:%s' % (B, C, BD, CD)


def adler(s):
    v = zlib.adler32(s.encode('latin-1'))
    return '%d.%d' % (v & 0xffff, v >> 16)


def grid_as_fields(g):
    f = ['ar,' + hx(r.name) for r in g.rocktypelist]
    f += [','.join(['ab', hx(b.name), hx(b.rocktype.name), hx(tok(b.volume)), hx(ctok(b.centre))]) for b in g.blocklist]
    f += [','.join(['ac', hx(c.block[0].name), hx(c.block[1].name)] +
                   [hx(tok(v)) for v in (c.distance[0], c.distance[1], c.area, c.direction, c.dircos, c.nad1, c.nad2)])
          for c in g.connectionlist]
    return f


# ---- MincModel.v wire format: numbers as exact rationals ----------------------------------------------
def qtok(x):
    n, d = float(x).as_integer_ratio()
    return '%d:%d' % (n, d)


def rock_props_tok(r):
    return '_'.join([tok(r.density), tok(r.porosity)] + [repr(float(v)) for v in r.permeability] + [tok(r.conductivity), tok(r.specific_heat)])


def rock_rest_tok(r):
    dflt = (r.compressibility, r.expansivity, r.dry_conductivity, r.tortuosity) == (0.0, 0.0, 0.0, 0.0) and \
        r.relative_permeability == {} and r.capillarity == {}
    return 'dflt' if dflt else 'set'


def qgrid_fields(g):
    f = [','.join(['qr', hx(r.name), hx(tok(r.nad)), hx(rock_props_tok(r)), hx(rock_rest_tok(r))]) for r in g.rocktypelist]
    f += [','.join(['qb', hx(b.name), qtok(b.volume), hx(b.rocktype.name), hx(ctok(b.centre))]) for b in g.blocklist]
    f += [','.join(['qc', hx(c.block[0].name), hx(c.block[1].name), qtok(c.distance[0]), qtok(c.distance[1]), qtok(c.area),
                    hx(tok(c.direction)), hx(tok(c.dircos))]) for c in g.connectionlist]
    return f


def qdump(g):
    """what coq/C09/Drv.v `qobserve` prints (connection_name sets sorted here, compared as sets)"""
    R = ','.join('%s/%s/%s/%s' % (r.name, tok(r.nad), rock_props_tok(r), rock_rest_tok(r)) for r in g.rocktypelist)
    B = ','.join('%s/#%s/%s/%s/%s' % (b.name, qtok(b.volume), b.rocktype.name, ctok(b.centre),
                                      '+'.join('%s~%s' % tuple(k) for k in sorted(b.connection_name))) for b in g.blocklist)
    C = ','.join('%s~%s/#%s/#%s/#%s/%s/%s' % (c.block[0].name, c.block[1].name, qtok(c.distance[0]), qtok(c.distance[1]), qtok(c.area),
                                             tok(c.direction), tok(c.dircos)) for c in g.connectionlist)
    RD = ','.join('%s=%s' % (k, v.name) for k, v in g.rocktype.items())
    BD = ','.join('%s=%s' % (k, v.name) for k, v in g.block.items())
    CD = ','.join('%s~%s=%s~%s' % (k[0], k[1], v.block[0].name, v.block[1].name) for k, v in g.connection.items())
    return 'R:%s;B:%s;C:%s;RD:%s;BD:%s;CD:%s' % (R, B, C, RD, BD, CD)


QTOL = 1e-12


def _qnum(t):
    from fractions import Fraction
    n, d = t[1:].split(':')
    return Fraction(int(n), int(d))


def qdump_diff(model, impl):
    """None when the two dumps agree (numbers to QTOL relative, connection_name as sets), else a description"""
    if model == impl: return None
    pm, pi = model.split('|'), impl.split('|')
    if len(pm) != len(pi): return 'number of dumps %d / %d' % (len(pm), len(pi))
    for dm, di in zip(pm, pi):
        if dm == di: continue
        sm, si = dm.split(';'), di.split(';')
        if len(sm) != len(si): return 'sections differ: %r / %r' % (dm[:200], di[:200])
        for a, b in zip(sm, si):
            if a == b: continue
            ia, ib = a.split(','), b.split(',')
            if len(ia) != len(ib): return 'section %s has %d / %d entries' % (a[:3], len(ia), len(ib))
            for x, y in zip(ia, ib):
                if x == y: continue
                fx, fy = x.split('/'), y.split('/')
                if len(fx) != len(fy): return 'entry %r / %r' % (x, y)
                for k, (u, v) in enumerate(zip(fx, fy)):
                    if u == v: continue
                    if u.startswith('#') and v.startswith('#'):
                        qu, qv = _qnum(u), _qnum(v)
                        if abs(qu - qv) <= QTOL * max(abs(qu), abs(qv)): continue
                        return 'entry %r: model %r, implementation %r' % (fx[0], float(qu), float(qv))
                    if a.startswith('B:') and k == 4 and sorted(u.split('+')) == sorted(v.split('+')): continue
                    return 'entry %r field %d: model %r, implementation %r' % (fx[0], k, u, v)
    return None


class ProbeInconsistent(Exception):
    pass


def probe_minc_geometry(T, fr, spacing, nplanes):
    """d[0..L-1], a[0..L-2] as the real minc computes them: run it on a one-block grid of volume 1, where the
    connection areas are 1.0 * a[m-1] and the distances [d[m-1], d[m]]"""
    g = T.t2grid(); rt = T.rocktype(); g.add_rocktype(rt); g.add_block(T.t2block('probe', 1.0, rt))
    g.minc(list(fr), spacing=spacing, num_fracture_planes=nplanes, blocks=['probe'])
    cons = g.connectionlist
    d = [float(cons[0].distance[0])] + [float(c.distance[1]) for c in cons]
    a = [float(c.area) for c in cons]
    for k in range(1, len(cons)):
        if float(cons[k].distance[0]) != d[k]: raise ProbeInconsistent('connection %d of the chain has distances %r, the previous one %r' % (k, cons[k].distance, cons[k - 1].distance))
    return d, a


def wf_real(g):
    """the hypothesis [wf] of the MINC theorems, read off the real grid (ids below the allocation counter aside)"""
    if len(set(map(id, g.blocklist))) != len(g.blocklist) or len(g.block) != len(g.blocklist): return False
    if any(g.block.get(b.name) is not b for b in g.blocklist): return False
    if len(set(map(id, g.connectionlist))) != len(g.connectionlist) or len(g.connection) != len(g.connectionlist): return False
    for c in g.connectionlist:
        if g.connection.get(tuple(b.name for b in c.block)) is not c: return False
        if any(g.block.get(b.name) is not b for b in c.block): return False
    return all(r.name == k for k, r in g.rocktype.items())


def encode_op(op):
    if op[0] == 'rn': return ','.join(['rn'] + [hx(x) for kv in op[1] for x in kv])
    if op[0] == 'ro': return ','.join(['ro'] + [hx(n) for n in op[1]]) + ';' + ','.join(hx(x) for c in op[2] for x in c)
    raise RuntimeError(op)


def apply_op(g, op, geo=None):
    if op[0] == 'rn': g.rename_blocks(dict(op[1]), fix_blocknames=bool(op[2]))
    elif op[0] == 'wr': reread(g, op[1] if len(op) > 1 else 'in-file')       # a data file is written in between (a checkpoint); nothing is done with it
    elif op[0] == 'ro':
        if len(op) > 3 and op[3] == 'geo-dmplex' and geo is not None:
            try:
                geo.block_order = 'dmplex'
                g.reorder(geo=geo)
            except Exception: pass            # refused: the grid must be as it was (the signature is compared by the caller)
        elif len(op) > 3 and op[3] == 'geo' and geo is not None: g.reorder(geo=geo)          # the lists in op[1], op[2] are the geometry's
        else: g.reorder(block_names=list(op[1]) or None, connection_names=[tuple(c) for c in op[2]] or None)
    else: raise RuntimeError(op)


# ---- the physical signature of a real grid --------------------------------------------------------
def neg(x): return None if x is None else -x


def phys(g):
    """per block name: (volume, rock type name, centre); per unordered connected pair: the sorted list of
    (area, direction, {name: own distance}, {name: own nad}, cosine oriented from the smaller name to the larger)"""
    B = {}
    for b in g.blocklist:
        B[b.name] = (float(b.volume), b.rocktype.name, None if b.centre is None else tuple(float(v) for v in b.centre))
    C = {}
    for c in g.connectionlist:
        n0, n1 = c.block[0].name, c.block[1].name
        cos = c.dircos if n0 <= n1 else neg(c.dircos)
        sig = (float(c.area), c.direction, tuple(sorted([(n0, float(c.distance[0]), c.nad1), (n1, float(c.distance[1]), c.nad2)],
                                                        key=lambda t: (t[0], t[1]))), None if cos is None else float(cos))
        C.setdefault(tuple(sorted((n0, n1))), []).append(sig)
    for k in C: C[k].sort(key=repr)
    return B, C


def relabel(ph, m):
    B, C = ph
    f = lambda n: m.get(n, n)
    B2 = {f(n): v for n, v in B.items()}
    C2 = {}
    for (a, b), sigs in C.items():
        for (area, d, ends, cos) in sigs:
            # cos is oriented from the smaller old name to the larger old name: re-orient for the new names
            lo, hi = (a, b)
            nlo, nhi = f(lo), f(hi)
            ncos = cos if nlo <= nhi else neg(cos)
            nends = tuple(sorted([(f(n), dist, nad) for (n, dist, nad) in ends], key=lambda t: (t[0], t[1])))
            C2.setdefault(tuple(sorted((nlo, nhi))), []).append((area, d, nends, ncos))
    for k in C2: C2[k].sort(key=repr)
    return B2, C2


def phys_diff(p, q):
    """first difference between two signatures, or None"""
    (B, C), (B2, C2) = p, q
    if set(B) != set(B2): return 'block names differ: %r' % sorted(set(B) ^ set(B2))[:4]
    for n in B:
        if B[n] != B2[n]: return 'block %r: %r became %r' % (n, B[n], B2[n])
    if set(C) != set(C2): return 'connected pairs differ: %r' % sorted(set(C) ^ set(C2))[:4]
    for k in C:
        if C[k] != C2[k]: return 'connection %r: %r became %r' % (k, C[k], C2[k])
    return None


# ---- geometries ------------------------------------------------------------------------------------
def make_geo(params):
    """rectangular geometry, optionally made irregular: tilt, uneven surface, locally refined columns"""
    from mulgrids import mulgrid
    nx, ny, nz, at, seed, tilt, surf, refine = params[:8]
    at0 = params[8] if len(params) > 8 else None        # built with this atmosphere type, set to `at` through the property at the end
    r = random.Random(seed)
    if len(params) > 10 and params[10]: return make_poly_geo(r, nz, at, at0, tilt)
    dx = [r.choice([5., 10., 12.5, 20.]) for _ in range(nx)]
    dy = [r.choice([6., 10., 15.]) for _ in range(ny)]
    dz = [r.choice([2., 5., 8.]) for _ in range(nz)]
    geo = mulgrid().rectangular(dx, dy, dz, atmos_type=at if at0 is None else at0)
    if tilt:
        geo.gdcx, geo.gdcy = r.choice([0.1, -0.2, 0.05]), r.choice([0., 0.15])
    if surf:
        for col in r.sample(geo.columnlist, max(1, len(geo.columnlist) // 3)):
            col.surface = -r.uniform(0., 0.8 * sum(dz))
            geo.set_column_num_layers(col)
        geo.setup_block_name_index(); geo.setup_block_connection_name_index()
    if refine:
        cols = [c.name for c in r.sample(geo.columnlist, 1)]
        geo.refine(cols)
    if at0 is not None: geo.atmosphere_type = at         # the geometry reaches its atmosphere type by an edit, nothing refreshes it afterwards
    return geo


def make_poly_geo(r, nz, at, at0, tilt):
    """an irregular geometry built node by node: one square, one triangular and one five-sided column"""
    import mulgrids as M
    k = r.choice([0.5, 1., 2.])
    geo = M.mulgrid(type='GENER', convention=0, atmos_type=at if at0 is None else at0)
    geo.empty()
    pos = {'  a': (0., 0.), '  b': (100., 0.), '  c': (100., 100.), '  d': (0., 100.), '  e': (r.choice([30., 50., 70.]), 160.),
           '  f': (200., 0.), '  g': (r.choice([230., 260.]), r.choice([40., 50.])), '  h': (200., 100.)}
    for name in sorted(pos): geo.add_node(M.node(name, np.array(pos[name]) * k))
    cols = {' sq': ['  a', '  b', '  c', '  d'], ' tr': ['  d', '  c', '  e'], ' pe': ['  b', '  f', '  g', '  h', '  c']}
    for name in [' sq', ' tr', ' pe']: geo.add_column(M.column(name, [geo.node[n] for n in cols[name]]))
    geo.add_connection(M.connection([geo.column[' sq'], geo.column[' tr']]))
    geo.add_connection(M.connection([geo.column[' sq'], geo.column[' pe']]))
    geo.add_layers([r.choice([10., 20., 30.]) for _ in range(nz)], 0.)
    geo.set_default_surface()
    geo.identify_neighbours()
    geo.setup_block_name_index()
    geo.setup_block_connection_name_index()
    if tilt: geo.gdcx, geo.gdcy = r.choice([0.1, -0.2, 0.05]), r.choice([0., 0.15])
    if at0 is not None: geo.atmosphere_type = at
    return geo


def random_geo_params(rng, size):
    if size == 'small': nx, ny, nz = rng.randint(1, 3), rng.randint(1, 2), rng.randint(1, 3)
    elif size == 'medium': nx, ny, nz = rng.randint(2, 5), rng.randint(2, 4), rng.randint(1, 3)
    else: nx, ny, nz = rng.randint(5, 7), rng.randint(4, 6), rng.randint(3, 4)
    at = rng.choice([0, 1, 2])
    return (nx, ny, nz, at, rng.getrandbits(30), rng.random() < 0.3, rng.random() < 0.3,
            rng.random() < 0.25 and nx * ny >= 4 and size != 'large',
            rng.choice([t for t in (0, 1, 2) if t != at]) if rng.random() < 0.35 else None,      # initial atmosphere type, changed by the setter
            rng.random() < 0.4,                                                                  # several rock types, some named with digits
            rng.random() < 0.1)                                                                  # square + triangle + pentagon columns, built node by node


ROCK_NAMES = ['    1', '    2', '    3', '    4', ' 2   ', '3    ', '00001', '   12', 'rock1', 'other', 'sand ']


def assign_rocks(T, g, seed):
    """1-3 more rock types with five-character names (digits included) spread over the blocks"""
    r = random.Random(seed ^ 0x5eed)
    for n in r.sample(ROCK_NAMES, r.randint(1, 3)):
        g.add_rocktype(T.rocktype(n, density=r.choice([2400., 2650.]), porosity=r.choice([0.05, 0.2]), permeability=[r.choice([1.e-13, 2.e-14]), 1.e-14, 1.e-16]))
    for b in g.blocklist:
        if r.random() < 0.7: b.rocktype = r.choice(g.rocktypelist)


def build(params):
    T = _impl()
    geo = make_geo(params)
    g = T.t2grid().fromgeo(geo)
    if len(params) > 9 and params[9]: assign_rocks(T, g, params[4])
    return geo, g


# ---- random reorder / rename ops ---------------------------------------------------------------------
LETTERS = 'abcdefghijklmnopqrstuvwxyz'


def fresh_name(rng, taken, zero_tail=False):
    """zero_tail: a name like 'qa105' that TOUGH2 writes as 'qa1 5' (digit, '0', digit at the end; read back unchanged)"""
    while True:
        if zero_tail or rng.random() < 0.15:
            n = rng.choice(['q', 'z', ' ']) + rng.choice(LETTERS) + rng.choice('123456789') + '0' + rng.choice('0123456789')
        else: n = (rng.choice(['q', 'zz', ' w']) + ''.join(rng.choice(LETTERS) for _ in range(2)))[:3] + rng.choice([' 1', ' 7', '12', '99'])
        if n not in taken: return n


def write_changes_grid(g, mode='in-file'):
    """writing a data file is an observation: the grid in memory must be the same afterwards (None) -- else the first difference"""
    before = dump(g)
    reread(g, mode)
    after = dump(g)
    if before == after: return None
    for a, b in zip(before.split(','), after.split(',')):
        if a != b: return 'after t2data.write the grid in memory has %r where it had %r' % (b[:80], a[:80])
    return 'after t2data.write the dump of the grid in memory differs in length'


def random_op(rng, g, geo, first, prefer_geo=False, dmplex=0.0):
    names = [b.name for b in g.blocklist]
    keys = list(g.connection.keys())
    if first and geo is not None and rng.random() < dmplex:
        # geo.block_order = 'dmplex'; g.reorder(geo = geo) -- the library may refuse the ordering (columns that are neither
        # triangles nor quadrilaterals): then the grid must be left as it was
        try:
            geo.block_order = 'dmplex'
            return ('ro', tuple(geo.block_name_list), tuple(tuple(c) for c in geo.block_connection_name_list), 'geo-dmplex'), 'reorder:geo-dmplex'
        except Exception:
            return ('ro', (), (), 'geo-dmplex'), 'reorder:geo-dmplex'
    if first and geo is not None and prefer_geo and rng.random() < 0.6:
        return ('ro', tuple(geo.block_name_list), tuple(tuple(c) for c in geo.block_connection_name_list), 'geo'), 'reorder:geo'
    if rng.random() < 0.55:
        style = rng.choice(['b', 'c', 'bc', 'bc', 'geo'])
        if style == 'geo' and first and geo is not None:
            # g.reorder(geo = geo): the lists are whatever the geometry holds at this moment
            return ('ro', tuple(geo.block_name_list), tuple(tuple(c) for c in geo.block_connection_name_list), 'geo'), 'reorder:geo'
        bns, cns = (), ()
        if 'b' in style or style == 'geo':
            p = list(names); rng.shuffle(p); bns = tuple(p)
        nrev = 0
        if 'c' in style or style == 'geo':
            p = list(keys); rng.shuffle(p)
            fr = rng.choice([0.0, 0.2, 0.5, 1.0])
            q = []
            for c in p:
                if rng.random() < fr and (c[1], c[0]) not in g.connection and c[0] != c[1]:
                    c = (c[1], c[0]); nrev += 1
                q.append(c)
            cns = tuple(q)
        return ('ro', bns, cns), ('reorder:reversed-connection' if nrev else 'reorder:permutation')
    style = rng.choice(['fresh', 'all-fresh', 'swap', 'cycle', 'chain', 'mixed'])
    nk = len(names) if style == 'all-fresh' else min(len(names), rng.choice([1, 2, 3, 4, 6, 10]))
    ks = rng.sample(names, nk)
    taken = set(g.block)
    if style in ('fresh', 'all-fresh'):
        m = []
        for x in ks:
            v = fresh_name(rng, taken); taken.add(v); m.append((x, v))
    elif style == 'swap' and nk >= 2: m = [(ks[0], ks[1]), (ks[1], ks[0])]
    elif style in ('cycle', 'mixed') and nk >= 2:
        m = [(ks[i], ks[(i + 1) % nk]) for i in range(nk)]
        if style == 'mixed':
            rest = [n for n in names if n not in ks]
            if rest:
                v = fresh_name(rng, taken); m.append((rng.choice(rest), v))
    elif style == 'chain' and nk >= 2:
        v = fresh_name(rng, taken)
        m = [(ks[i], ks[i + 1]) for i in range(nk - 1)] + [(ks[-1], v)]
        rng.shuffle(m)
    else:
        v = fresh_name(rng, taken); m = [(ks[0], v)]
    return ('rn', tuple(m), rng.randint(0, 1)), 'rename_blocks:one-to-one-map'


class Stats(object):
    def __init__(self):
        self.cases = 0; self.steps = 0; self.kinds = Counter(); self.sizes = Counter(); self.skipped = Counter()
        self.fail = {}; self.failn = Counter(); self.disagree = []; self.ndis = 0; self.distinct = []; self.samples = []
        self.errors = Counter(); self.reversed_conns = 0; self.filerounds = 0

    def merge(self, o):
        self.cases += o.cases; self.steps += o.steps; self.ndis += o.ndis; self.reversed_conns += o.reversed_conns; self.filerounds += o.filerounds
        for a in ('kinds', 'sizes', 'skipped', 'failn', 'errors'): getattr(self, a).update(getattr(o, a))
        for k, v in o.fail.items():
            if k not in self.fail: self.fail[k] = v
        self.disagree += o.disagree[:max(0, 20 - len(self.disagree))]
        self.distinct += o.distinct
        self.samples += o.samples[:max(0, 4 - len(self.samples))]

    def failure(self, key, inp, observed, required):
        self.failn[key] += 1
        if key not in self.fail: self.fail[key] = (inp, observed, required)


FILE_MODES = ('in-file', 'ascii-mesh', 'binary-mesh')


def file_mode_for(rng, g):
    """where ELEME / CONNE go: into the data file, into a separate ASCII MESH file, or into the binary MESHA / MESHB pair
    (which the library can only write when every block has a centre)"""
    mode = rng.choice(['in-file', 'in-file', 'ascii-mesh', 'binary-mesh', 'binary-mesh'])
    if mode == 'binary-mesh' and any(b.centre is None for b in g.blocklist): mode = 'ascii-mesh'
    return mode


def reread(g, mode='in-file'):
    """the grid after t2data.write / t2data(filename), the mesh in the data file, in an ASCII MESH file or in binary MESHA / MESHB"""
    import tempfile, shutil
    from t2data import t2data
    d = tempfile.mkdtemp()
    try:
        dat = t2data(); dat.grid = g
        fn = os.path.join(d, 'rt.dat')
        mesh = '' if mode == 'in-file' else os.path.join(d, 'MESH') if mode == 'ascii-mesh' else (os.path.join(d, 'MESHA'), os.path.join(d, 'MESHB'))
        dat.write(fn, meshfilename=mesh)
        return t2data(fn, meshfilename=mesh).grid
    finally: shutil.rmtree(d, ignore_errors=True)


def field_half_unit(val, fmt):
    """half a unit of the last digit a fixed-width field of format `fmt` (e.g. '10.4e', '10.7f') carries for `val`:
    the text is '%<fmt>' % val, with fewer decimals when that is wider than the field (the writer's rule); None if no
    precision fits.  This is the statement's "to the digits its field carries", computed here from the format alone."""
    spec, typ = fmt[:-1], fmt[-1]
    w, _, prec = spec.partition('.')
    width, prec = abs(int(w)), int(prec or 6)
    for p in range(prec, -1, -1):
        text = ('%%%s.%d%s' % (w, p, typ)) % val
        if len(text) <= width:
            if typ == 'f': return 0.5 * 10.0 ** (-p)
            if typ == 'e': return 0.5 * 10.0 ** (int(text.lower().partition('e')[2]) - p)
            return 0.5 * 10.0 ** (math.floor(math.log10(abs(val))) - max(p, 1) + 1) if val else 0.5 * 10.0 ** (-p)
    return None


def file_formats():
    """the formats of the ELEME / CONNE fields the signature goes through (standard precision), from the module's table"""
    import t2data as M
    b = dict(zip(*M.t2data_format_specification['blocks'])); c = dict(zip(*M.t2data_format_specification['connections']))
    return {'volume': b['volume'], 'centre': (b['x'], b['y'], b['z']), 'distance': (c['distance1'], c['distance2']), 'area': c['area'], 'dircos': c['dircos']}


def carried(a, b, fmt):
    """b is a read back from a field of format fmt: equal to the digits the field carries (either sign: the signature re-orients cosines);
    fmt None: a binary 8-byte field, the value itself"""
    if fmt is None and a is None: return b is None or b != b        # the binary mesh file holds a missing value as NaN
    if a is None or b is None: return a is None and b is None
    a, b = float(a), float(b)
    if fmt is None: return abs(a - b) <= 1e-12 * max(abs(a), abs(b))
    hs = [h for h in (field_half_unit(a, fmt), field_half_unit(-a, fmt)) if h is not None]
    if not hs: return False
    return abs(a - b) <= max(hs) * (1. + 1e-9) + 1e-300


def centre_close(c, c2, fmts):
    if c is None or c2 is None: return c is None and c2 is None
    return len(c) == len(c2) and all(carried(a, b, f) for a, b, f in zip(c, c2, fmts))


def file_roundtrip_diff(g, ph, mode='in-file'):
    """write the grid in a TOUGH2 data file and read it back: the whole signature (volume, rock type, centre of every block;
    area, direction, own distances, oriented cosine of every connected pair) must come back to the digits its field carries"""
    back = reread(g, mode)
    F = file_formats()
    if mode == 'binary-mesh': F = {'volume': None, 'centre': (None, None, None), 'distance': (None, None), 'area': None, 'dircos': None}
    (B, C), (B2, C2) = ph, phys(back)
    if set(B) != set(B2): return 'block names differ after write/read: %r' % sorted(set(B) ^ set(B2))[:4]
    for n in B:
        if not carried(B[n][0], B2[n][0], F['volume']) or B[n][1] != B2[n][1]: return 'block %r: %r read back as %r' % (n, B[n], B2[n])
        if not centre_close(B[n][2], B2[n][2], F['centre']): return 'block %r: centre %r read back as %r' % (n, B[n][2], B2[n][2])
    if set(C) != set(C2): return 'connected pairs differ after write/read: %r' % sorted(set(C) ^ set(C2))[:4]
    for k in C:
        if len(C[k]) != len(C2[k]): return 'pair %r multiplicity' % (k,)
        for (a, d_, e, cs), (a2, d2, e2, cs2) in zip(C[k], C2[k]):
            # either end of the pair may be written first: a distance goes through distance1 or distance2 (same format in the table)
            if not carried(a, a2, F['area']) or d_ != d2 or not carried(cs, cs2, F['dircos']) or [x[0] for x in e] != [x[0] for x in e2] or \
               any(not (carried(x[1], y[1], F['distance'][0]) or carried(x[1], y[1], F['distance'][1])) for x, y in zip(e, e2)):
                return 'connection %r: %r read back as %r' % (k, (a, d_, e, cs), (a2, d2, e2, cs2))
    return None


REQ_RO = 'reorder leaves every block (volume, rock type, centre) and every connected pair (area, direction, each block\'s own distance and nad, oriented gravity cosine) unchanged'
REQ_RN = 'rename_blocks relabels the network and changes nothing else'


def reorder_rename_worker(args):
    seed, ncases, exe, sizes, with_files = args
    rng = random.Random(seed)
    st = Stats()
    lines, cases, expects = [], [], []
    for ci in range(ncases):
        params = random_geo_params(rng, rng.choice(sizes))
        try: geo, g = build(params)
        except Exception as e:
            st.skipped['geometry-construction-failed:' + exn_name(e)] += 1; continue
        if any(not NAME_OK.match(b.name) for b in g.blocklist): st.skipped['name-alphabet'] += 1; continue
        nblk = len(g.blocklist)
        st.sizes['blocks:%d' % (10 * (nblk // 10))] += 1
        st.sizes['atmos_type:%d' % params[3]] += 1
        if params[5]: st.sizes['tilted'] += 1
        if params[6]: st.sizes['uneven-surface'] += 1
        if params[7]: st.sizes['refined(irregular columns)'] += 1
        if params[8] is not None: st.sizes['atmosphere-type-set-by-property(from %d)' % params[8]] += 1
        if params[9]: st.sizes['several-rock-types:%d' % len(g.rocktypelist)] += 1
        if params[10]: st.sizes['square+triangle+pentagon-columns'] += 1
        prefix = grid_as_fields(g)
        hash_mode = nblk > 24
        show = (lambda s: adler(s)) if hash_mode else (lambda s: s)
        obs = [show(dump(g))]
        ops = []                       # the edits (what the model replays)
        hist = []                      # the edits and the data-file writes in between (what a replay repeats)
        ph = phys(g)
        nops = rng.choice([1, 1, 2, 3, 4])
        broken = False
        first_obj = g.blocklist[0]
        do_file = bool(with_files) and rng.random() < with_files and nblk <= 120
        if do_file and nblk > 1: nops = max(nops, 3)
        for t in range(nops):
            op, key = random_op(rng, g, geo, t == 0, prefer_geo=len(params) > 8 and params[8] is not None,
                                dmplex=0.5 if params[10] else 0.3 if params[7] else 0.04)
            if do_file and t == 0 and nblk > 1:
                # the written file must not depend on where a block sits in the list: start with a block permutation
                # that takes the first block (the atmosphere block of an atmosphere-type-0 grid) off position 0
                names0 = [b.name for b in g.blocklist]
                perm = list(names0)
                while perm[0] == names0[0]: rng.shuffle(perm)
                cns = op[2] if op[0] == 'ro' else ()
                op, key = ('ro', tuple(perm), tuple(cns)), ('reorder:reversed-connection' if any(c not in g.connection for c in cns) else 'reorder:permutation')
            if do_file and t == 1 and nblk > 1:
                # names that the file spells differently (' a105' is written ' a1 5'), given to one or two blocks before the checkpoint
                taken = set(g.block); m = []
                for x in rng.sample([b.name for b in g.blocklist], min(nblk, rng.randint(1, 2))):
                    v = fresh_name(rng, taken, zero_tail=True); taken.add(v); m.append((x, v))
                op, key = ('rn', tuple(m), rng.randint(0, 1)), 'rename_blocks:one-to-one-map'
            ops.append(op); hist.append(op); st.kinds[key] += 1
            if op[0] == 'ro': st.reversed_conns += sum(1 for c in op[2] if c not in g.connection)
            case = {'geo': list(params), 'ops': [list(o) for o in hist]}
            try: apply_op(g, op, geo)
            except Exception as e:
                obs.append('E:' + exn_name(e)); st.errors[exn_name(e)] += 1
                if not broken: st.failure(key.split(':')[0] + ':raises', case, 'raised %s' % exn_name(e), 'no exception for a valid ' + key.split(':')[0])
                broken = True
                break
            st.steps += 1
            obs.append(show(dump(g)))
            want = relabel(ph, dict(op[1])) if op[0] == 'rn' else ph
            got = phys(g)
            d = phys_diff(want, got)
            if d and not broken:
                broken = True
                st.failure(key if op[0] == 'ro' else 'rename_blocks:one-to-one-map', case, d, REQ_RO if op[0] == 'ro' else REQ_RN)
            ph = got if broken else want
            if do_file and not broken and t >= 1 and t < nops - 1 and rng.random() < 0.6:
                # a checkpoint: the data file is written in the middle of the sequence and the edits go on
                cmode = file_mode_for(rng, g)
                hist.append(('wr', cmode)); st.kinds['write:checkpoint-between-edits:' + cmode] += 1
                try: d = write_changes_grid(g, cmode)
                except Exception as e:
                    d = None; st.skipped['file-round-trip-raised:' + exn_name(e)] += 1
                if d:
                    broken = True
                    st.failure('write:changes-the-grid-in-memory', {'geo': list(params), 'ops': [list(o) for o in hist]}, d, 'writing the data file leaves the grid as it is')
        if do_file and not broken:
            st.kinds['write-read:atmos_type:%d%s' % (params[3], ':first-block-moved' if g.blocklist[0] is not first_obj else '')] += 1
            fmode = file_mode_for(rng, g)
            st.kinds['write-read:' + fmode] += 1
            try:
                before = dump(g)
                d = file_roundtrip_diff(g, ph, fmode); st.filerounds += 1
                if not d and dump(g) != before:
                    st.failure('write:changes-the-grid-in-memory', {'geo': list(params), 'ops': [list(o) for o in hist] + [['wr', fmode]]}, 'the dump of the grid in memory differs after t2data.write',
                               'writing the data file leaves the grid as it is')
            except Exception as e:
                d = None; st.skipped['file-round-trip-raised:' + exn_name(e)] += 1
            if d: st.failure('write-read:after-reorder-rename', {'geo': list(params), 'ops': [list(o) for o in hist], 'file_mode': fmode}, d,
                             'the signature survives t2data.write / t2data(filename) to file precision')
        line = '%s%d\t' % ('H' if hash_mode else 'F', len(prefix) - 1) + '\t'.join(prefix + [encode_op(o) for o in ops])
        st.cases += 1
        st.distinct.append(zlib.crc32(line.encode()) ^ (len(line) << 32))
        lines.append(line); cases.append({'geo': list(params), 'ops': [list(o) for o in hist]}); expects.append('|'.join(obs))
        if len(st.samples) < 2 and nblk <= 6:
            st.samples.append({'geometry(nx,ny,nz,atmos,seed,tilt,surface,refine)': list(params), 'blocks': nblk,
                               'ops': [list(o) for o in ops], 'dump_after_last_step': dump(g)[:600]})
    if exe and lines:
        outs = vf.run_driver(exe, lines, shards=1)
        for c, e, o in zip(cases, expects, outs):
            if o != e:
                st.ndis += 1
                if len(st.disagree) < 20:
                    mo, im = o.split('|'), e.split('|')
                    i = 0
                    while i < min(len(mo), len(im)) and mo[i] == im[i]: i += 1
                    st.disagree.append({'case': c, 'step': i, 'model': (mo[i] if i < len(mo) else '<none>')[:1200],
                                        'impl': (im[i] if i < len(im) else '<none>')[:1200]})
    return st


# ---- MINC ---------------------------------------------------------------------------------------------
def compare_with_model(st, exe, lines, cases, expects):
    if not (exe and lines): return
    outs = vf.run_driver(exe, lines, shards=1)
    for c, e, o in zip(cases, expects, outs):
        d = qdump_diff(o, e)
        if d:
            st.ndis += 1
            if len(st.disagree) < 20: st.disagree.append({'case': c, 'step': 0, 'model': (d + ' :: ' + o)[:1500], 'impl': e[:1500]})


def minc_worker(args):
    seed, ncases, exe, sizes, with_files = args
    rng = random.Random(seed)
    st = Stats()
    T = _impl()
    lines, cases, expects = [], [], []
    priors = PRIORS          # per process, not per job: what leaks between calls lives as long as the process
    for ci in range(ncases):
        if st.failn.get('minc:does-not-return'): break          # one hanging call per worker is enough
        params = random_geo_params(rng, rng.choice(sizes))
        params = params[:7] + (False, params[8], False, params[10])
        try: geo, g = build(params)
        except Exception as e:
            st.skipped['geometry-construction-failed:' + exn_name(e)] += 1; continue
        if any(not NAME_OK.match(b.name) for b in g.blocklist): st.skipped['name-alphabet'] += 1; continue
        nlev = rng.randint(2, 6)
        fmode = rng.choice(['mixed', 'mixed', 'small', 'unit'])
        if fmode == 'small': fr = [rng.choice([0.02, 0.05, 0.1, 0.15]) for _ in range(nlev)]             # sum < 1
        else: fr = [rng.choice([0.05, 0.1, 0.2, 0.3, 1.0, 2.5, 3, rng.uniform(0.01, 3.)]) for _ in range(nlev)]
        if fmode == 'unit': fr = [f / sum(fr) for f in fr]                                              # sum = 1 up to rounding
        fsum = sum(fr)
        nplanes = rng.randint(1, 3)
        spacing = rng.choice([50., 10., 100., [30., 40., 50.][:nplanes], rng.uniform(1., 300.)])
        names = [b.name for b in g.blocklist]
        sel = None
        style = 'all-blocks'
        foreign = False
        if rng.random() < 0.55 and len(names) > 1:
            sel = rng.sample(names, rng.randint(1, len(names))); style = 'partial'
            if rng.random() < 0.08:
                sel.insert(rng.randrange(len(sel) + 1), rng.choice(sel)); style = 'partial-with-a-repeated-name'
            elif rng.random() < 0.4:
                if rng.random() < 0.5:
                    sel = [g.block[n] for n in sel]; style = 'partial(block objects)'          # block objects are accepted too
                else:
                    # equal-named block objects of another grid made from the same geometry: the selection is by name
                    twin = build(params)[1]
                    sel = [twin.block[n] for n in sel]; style = 'partial(block objects of an identical second grid)'; foreign = True
        elif rng.random() < 0.12:
            twin = build(params)[1]
            sel = list(twin.blocklist); style = 'all-blocks(block objects of an identical second grid)'; foreign = True
        atmos_volume = rng.choice([1.e25, 1.e25, 1.e25, 300., 1000.])
        how = rng.choice(['omitted', 'omitted', 'None', 'empty-list', 'shared-empty-list']) if sel is None else 'given'
        if rng.random() < 0.3:                                      # a rock type that is not the default one
            rt = g.rocktypelist[0]
            rt.density, rt.porosity, rt.conductivity, rt.specific_heat = rng.choice([2500., 2650.]), rng.choice([0.05, 0.25]), rng.choice([2.0, 2.5]), rng.choice([800., 1000.])
            rt.permeability = np.array([rng.choice([1.e-14, 2.e-13]), 5.e-15, rng.choice([1.e-16, 3.e-15])])
            if rng.random() < 0.6: rt.compressibility = 1.e-9       # not copied by duplicate_rock
            case_rock = [rt.density, rt.porosity, rt.conductivity, rt.specific_heat, [float(v) for v in rt.permeability], rt.compressibility]
        else: case_rock = None
        case = {'geo': list(params), 'volume_fractions': fr, 'spacing': spacing, 'num_fracture_planes': nplanes,
                'blocks': None if sel is None else [b if isinstance(b, str) else b.name for b in sel],
                'blocks_as_objects': bool(sel) and not isinstance(sel[0], str), 'atmos_volume': atmos_volume, 'rock': case_rock, 'blocks_arg': how, 'blocks_foreign': foreign}
        if how in priors: case['prior'] = priors[how]          # the first call of this process that asked for the default selection the same way
        elif how in ('omitted', 'shared-empty-list'): priors[how] = dict(case)
        try:
            with time_limit(CASE_SECONDS): d_, a_ = probe_minc_geometry(T, fr, spacing, nplanes)
        except CaseTimeout:
            st.cases += 1
            st.failure('minc:does-not-return', case, 'minc on a one-block grid did not return within %d s' % CASE_SECONDS, 'minc completes'); continue
        except ProbeInconsistent as e:
            # the model's reading of the chain (connection m carries [d[m-1], d[m]]) does not fit the implementation
            st.cases += 1; st.ndis += 1
            if len(st.disagree) < 20: st.disagree.append({'case': case, 'step': 0, 'model': 'consecutive nested connections share the distance of the common continuum', 'impl': str(e)})
            continue
        except Exception as e:
            st.skipped['minc-geometry-raises:' + exn_name(e)] += 1; continue
        st.kinds['levels:%d' % nlev] += 1; st.kinds['planes:%d' % nplanes] += 1
        st.kinds['fractions-sum:' + ('<1' if fsum < 0.999 else '>1' if fsum > 1.001 else '=1')] += 1
        st.kinds[style] += 1
        if sel is None: st.kinds['default-selection:' + how + (':after-an-earlier-such-call' if 'prior' in case else '')] += 1
        st.kinds['wf-hypothesis-holds' if wf_real(g) else 'wf-hypothesis-fails'] += 1
        st.cases += 1
        st.distinct.append(zlib.crc32(json.dumps(case, sort_keys=True).encode()))
        line = 'M\t' + '\t'.join(qgrid_fields(g) + ['mi;%s;%s;%s;%s;%s' % (
            qtok(atmos_volume), ','.join(qtok(f) for f in fr), ','.join(hx(n) for n in (case['blocks'] or [])),
            ','.join(qtok(x) for x in d_), ','.join(qtok(x) for x in a_))])
        d, exc = minc_check(g, case, sel)
        for key, obs, req in d: st.failure(key, case, obs, req)
        if exc: st.kinds['raises:' + exc] += 1
        lines.append(line); cases.append(case); expects.append('E:' + exc if exc else qdump(g))
        if with_files and not exc and not d and rng.random() < with_files and len(g.blocklist) <= 150:
            fmode = file_mode_for(rng, g); case['file_mode'] = fmode; st.kinds['write-read:' + fmode] += 1
            try:
                fd = file_roundtrip_diff(g, phys(g), fmode); st.filerounds += 1
            except Exception as e:
                fd = None; st.skipped['file-round-trip-raised:' + exn_name(e)] += 1
            if fd: st.failure('write-read:after-minc', case, fd, 'the MINC grid (volumes of every continuum, the nested connections) survives t2data.write / t2data(filename) to file precision')
        if len(st.samples) < 2 and len(names) <= 6:
            st.samples.append({'minc_case': case, 'blocks_after': [(b.name, float(b.volume)) for b in g.blocklist][:12]})
    compare_with_model(st, exe, lines, cases, expects)
    return st


SHARED_EMPTY = []
PRIORS = {}


def minc_check(g, case, sel):
    """run minc on the real grid and evaluate the three MINC clauses; returns ([(key, observed, required)], exception name or None)"""
    fr = list(case['volume_fractions'])
    before = {b.name: (float(b.volume), set(b.connection_name), b.rocktype.name) for b in g.blocklist}
    order = [b.name for b in g.blocklist]
    oldcons = phys(g)[1]
    nold = len(g.connectionlist)
    selnames = order if sel is None else [b if isinstance(b, str) else b.name for b in sel]
    atm = case['atmos_volume']
    kw = {}
    how = case.get('blocks_arg', 'None') if sel is None else 'given'
    if how == 'None': kw['blocks'] = None
    elif how == 'empty-list': kw['blocks'] = []
    elif how == 'shared-empty-list': kw['blocks'] = SHARED_EMPTY       # one caller-owned list object used for every such call of this process
    elif how == 'given': kw['blocks'] = sel                              # 'omitted': the parameter is left out
    try:
        with time_limit(CASE_SECONDS):
            g.minc(list(fr), spacing=case['spacing'], num_fracture_planes=case['num_fracture_planes'], atmos_volume=atm, **kw)
    except CaseTimeout:
        return [('minc:does-not-return', 'minc did not return within %d s' % CASE_SECONDS, 'minc completes')], 'Timeout'
    except Exception as e:
        # duplicate matrix block names are a documented refusal; anything else is reported
        if type(e) is Exception and 'Duplicate MINC matrix block name' in str(e): return [], exn_name(e)
        return [('minc:raises', 'raised %s: %s' % (exn_name(e), str(e)[:200]), 'minc completes on a grid built from a geometry')], exn_name(e)
    out = []
    tot = sum(fr)
    vf_ = [f / tot for f in fr]
    L = len(fr)
    close = lambda a, b: abs(a - b) <= 1e-9 * max(abs(a), abs(b), 1e-300)
    expected_new = []
    processed = set()
    for n in selnames:
        if n in processed: continue
        V = before[n][0]
        if not (0. < V < atm): continue
        processed.add(n)
        chain = [n] + [str(m) + n[len(str(m)):] for m in range(1, L)]
        vols = []
        for k, cn_ in enumerate(chain):
            b = g.block.get(cn_)
            if b is None:
                out.append(('minc:volume-split', 'continuum %d (%r) of block %r is missing' % (k, cn_, n), 'one block per continuum')); break
            vols.append(float(b.volume))
            if not close(b.volume, V * vf_[k]):
                out.append(('minc:volume-split', 'block %r level %d has volume %r, original %r x fraction %r = %r' % (n, k, float(b.volume), V, vf_[k], V * vf_[k]),
                            'volume of each continuum = original volume x its normalised fraction'))
        if len(vols) == L and not close(sum(vols), V):
            out.append(('minc:volume-split', 'continua of %r sum to %r, original volume %r' % (n, sum(vols), V), 'the continua of a block add up to its original volume'))
        for k in range(1, L): expected_new.append((chain[k - 1], chain[k]))
    # chain: exactly these connections were added, in this orientation, and each continuum's record agrees
    newkeys = [tuple(b.name for b in c.block) for c in g.connectionlist[nold:]]
    if sorted(newkeys) != sorted(expected_new):
        extra = sorted(set(newkeys) - set(expected_new))[:3]; missing = sorted(set(expected_new) - set(newkeys))[:3]
        out.append(('minc:chain', 'connections added by minc: unexpected %r, missing %r' % (extra, missing),
                    'each processed block gets exactly the chain fracture - matrix 1 - ... - innermost matrix'))
    else:
        for n in processed:
            chain = [n] + [str(m) + n[len(str(m)):] for m in range(1, L)]
            for k, cn_ in enumerate(chain):
                want = set()
                if k > 0: want.add((chain[k - 1], cn_))
                if k < L - 1: want.add((cn_, chain[k + 1]))
                have = set(g.block[cn_].connection_name) - (before[n][1] if k == 0 else set())
                if have != want:
                    out.append(('minc:chain', 'continuum %r has new connections %r, expected %r' % (cn_, sorted(have), sorted(want)),
                                'continua are chained fracture-to-innermost-matrix and nothing else')); break
    # partial: everything not processed is untouched, old connections keep their physics
    for n in order:
        if n in processed: continue
        b = g.block.get(n)
        if b is None or float(b.volume) != before[n][0] or set(b.connection_name) != before[n][1] or b.rocktype.name != before[n][2]:
            out.append(('minc:partial', 'block %r (not selected, or outside 0 < V < atmos_volume) changed: %r -> %r' % (
                n, before[n], None if b is None else (float(b.volume), sorted(b.connection_name), b.rocktype.name)), 'blocks not processed are untouched')); break
    allc = phys(g)[1]
    for k, v in oldcons.items():
        if allc.get(k) != v:
            out.append(('minc:partial', 'existing connection %r changed: %r -> %r' % (k, v, allc.get(k)), 'existing connections are untouched')); break
    nexp = len(order) + (L - 1) * len(processed)
    if len(g.blocklist) != nexp:
        out.append(('minc:partial', '%d blocks after minc, expected %d' % (len(g.blocklist), nexp), 'L-1 matrix blocks per processed block'))
    return out[:3], None


# ---- embed -----------------------------------------------------------------------------------------------
def embed_setup(T, g, case):
    """the grid embed is called on, the sub-grid, the host / connecting block objects of the connection, the connection, and the
    block objects of the connection that belong to neither grid (as a grid, for the wire format).
    host_mode: 'own' = self's block; 'copy' = an equal-named t2block with copy_factor x its volume; 'reread' = self is the grid
    after a data-file write/read and the connection still holds the block of the earlier in-memory instance."""
    from mulgrids import mulgrid
    sx, sy, sz, scale = case['sub']
    kw = {} if case.get('collide') else {'chars': 'uvwxyz'}
    subgeo = mulgrid().rectangular([scale] * sx, [scale] * sy, [scale] * sz, atmos_type=2, convention=case.get('convention', 0), **kw)
    sub = T.t2grid().fromgeo(subgeo)
    hm, im = case.get('host_mode', 'own'), case.get('inner_mode', 'own')
    selfgrid = reread(g) if hm == 'reread' else g
    src = g.block[case['host']]
    if hm == 'own': host = src
    elif hm == 'copy': host = T.t2block(src.name, float(src.volume) * case.get('copy_factor', 1.0), src.rocktype, centre=src.centre)
    else: host = src
    innerown = sub.block[case['inner']] if case.get('inner') in sub.block else sub.blocklist[0]
    inner = innerown if im == 'own' else T.t2block(innerown.name, float(innerown.volume), innerown.rocktype, centre=innerown.centre)
    con = T.t2connection([host, inner], 1, list(case['distances']), case['area'], 0.0)
    loose = T.t2grid()
    for b in ([host] if hm != 'own' else []) + ([inner] if im != 'own' else []):
        if b.rocktype.name not in loose.rocktype: loose.add_rocktype(b.rocktype)
        loose.add_block(b)
    return selfgrid, sub, host, inner, con, loose


def embed_check(selfgrid, sub, host, inner, con):
    """call embed on the real grid and evaluate the statement; returns (result, [(key, observed, required)], kind label)"""
    import io, contextlib
    subvol = sum(float(b.volume) for b in sub.blocklist)
    total = sum(float(b.volume) for b in selfgrid.blocklist)
    own = selfgrid.block.get(host.name)
    ownvol = None if own is None else float(own.volume)          # the block of self that carries the host's name
    convol = float(host.volume)                                   # the host object the caller put in the connection
    dup = set(b.name for b in selfgrid.blocklist) & set(b.name for b in sub.blocklist)
    nself = len(selfgrid.blocklist)
    try:
        with contextlib.redirect_stdout(io.StringIO()), time_limit(CASE_SECONDS):
            r = selfgrid.embed(sub, con)
    except CaseTimeout:
        return None, [('embed:does-not-return', 'embed did not return within %d s' % CASE_SECONDS, 'embed returns a grid or None')], 'E:Timeout'
    except Exception as e:
        return None, [('embed:raises', 'raised %s: %s' % (exn_name(e), str(e)[:200]), 'embed returns a grid or None')], 'E:' + exn_name(e)
    out = []
    if r is None:
        if not dup and subvol < convol: out.append(('embed:refused', 'embed returned None', 'a sub-grid smaller than its host with distinct names is embedded'))
        return r, out, 'refused:' + ('host-too-small' if not subvol < convol else 'duplicate-names')
    newtotal = sum(float(b.volume) for b in r.blocklist)
    if ownvol is not None and ownvol < 1e20 and abs(newtotal - total) > 1e-9 * max(abs(total), 1.):
        out.append(('embed:volume', 'total volume %r before, %r after (sub-grid %r)' % (total, newtotal, subvol), 'embedding conserves total volume'))
    hb = r.block.get(host.name)
    if hb is None or ownvol is None or abs(float(hb.volume) - (ownvol - subvol)) > 1e-9 * max(abs(ownvol), 1.):
        out.append(('embed:volume', 'host volume %r, expected %r - %r' % (None if hb is None else float(hb.volume), ownvol, subvol), 'the sub-grid volume is taken out of the host block'))
    if len(r.blocklist) != nself + len(sub.blocklist) or (host.name, inner.name) not in r.connection:
        out.append(('embed:structure', '%d blocks, connection present: %r' % (len(r.blocklist), (host.name, inner.name) in r.connection),
                    'all blocks of both grids and the linking connection are present'))
    return r, out, 'embedded' + (':atmosphere-host(total-not-compared)' if ownvol is not None and ownvol >= 1e20 else '')


def embed_worker(args):
    seed, ncases, exe, sizes = args
    rng = random.Random(seed)
    st = Stats()
    T = _impl()
    lines, cases, expects = [], [], []
    for ci in range(ncases):
        if st.failn.get('embed:does-not-return'): break
        params = random_geo_params(rng, rng.choice(sizes))
        params = params[:7] + (False, params[8], False, params[10])
        try: geo, g = build(params)
        except Exception as e:
            st.skipped['geometry-construction-failed:' + exn_name(e)] += 1; continue
        if any(not NAME_OK.match(b.name) for b in g.blocklist): st.skipped['name-alphabet'] += 1; continue
        case = {'geo': list(params), 'sub': [rng.randint(1, 2), rng.randint(1, 2), rng.randint(1, 2), rng.choice([0.5, 1., 2., 4.])],
                'convention': rng.choice([0, 1, 2]), 'collide': rng.random() < 0.12, 'host': rng.choice(g.blocklist).name,
                'distances': [rng.uniform(0.1, 5.), rng.uniform(0.1, 2.)], 'area': rng.uniform(0.1, 10.),
                'host_mode': rng.choice(['own'] * 5 + ['copy'] * 3 + ['reread'] * 2), 'inner_mode': rng.choice(['own'] * 4 + ['copy']),
                'copy_factor': rng.choice([1.0, 1.0, 0.5, 2.0])}
        if case['host_mode'] == 'reread' and len(g.blocklist) > 120: case['host_mode'] = 'copy'
        # the connecting block: a random block of the sub-grid (its name depends on the convention)
        _, sub0, _, _, _, _ = embed_setup(T, g, dict(case, host_mode='own', inner_mode='own'))
        case['inner'] = rng.choice(sub0.blocklist).name
        if any(not NAME_OK.match(b.name) for b in sub0.blocklist): st.skipped['name-alphabet'] += 1; continue
        if case['inner'] == case['host']: case['inner_mode'] = 'own'
        try: selfgrid, sub, host, inner, con, loose = embed_setup(T, g, case)
        except Exception as e:
            st.skipped['embed-setup-raised:' + exn_name(e)] += 1; continue
        st.cases += 1
        st.distinct.append(zlib.crc32(json.dumps(case, sort_keys=True).encode()))
        st.kinds['host-object:' + case['host_mode']] += 1; st.kinds['connecting-object:' + case['inner_mode']] += 1
        line = 'E\t' + '\t'.join(qgrid_fields(selfgrid) + ['sub'] + qgrid_fields(sub) + ['loose'] + qgrid_fields(loose) + [','.join(
            ['em', hx(host.name), hx(inner.name), qtok(con.distance[0]), qtok(con.distance[1]), qtok(con.area), hx(tok(con.direction)), hx(tok(con.dircos)),
             'l' if case['host_mode'] != 'own' else 's', 'l' if case['inner_mode'] != 'own' else 'u'])])
        r, out, label = embed_check(selfgrid, sub, host, inner, con)
        st.kinds[label] += 1
        for key, obs, req in out: st.failure(key, case, obs, req)
        lines.append(line); cases.append(case)
        expects.append(label if label.startswith('E:') else ('None' if r is None else qdump(r)) + '|' + qdump(selfgrid))
    compare_with_model(st, exe, lines, cases, expects)
    return st


# ---- driver ---------------------------------------------------------------------------------------------
def sweep(ctx, exe, n_rr, n_minc, n_embed, sizes, with_files, label=''):
    import multiprocessing as mp
    jobs = []

    def split(n, kind, mk):
        per = max(1, n // (vf.NPROC * 2))
        k = 0
        while k < n:
            jobs.append((kind, mk(ctx.rng.getrandbits(48), min(per, n - k)))); k += per
    split(n_rr, 'rr', lambda s, n: (s, n, exe, sizes, with_files))
    split(n_minc, 'minc', lambda s, n: (s, n, exe, sizes, with_files))
    split(n_embed, 'embed', lambda s, n: (s, n, exe, sizes))
    tot = {'rr': Stats(), 'minc': Stats(), 'embed': Stats()}
    fn = {'rr': reorder_rename_worker, 'minc': minc_worker, 'embed': embed_worker}
    with mp.Pool(vf.NPROC) as pool:
        res = [(k, pool.apply_async(fn[k], (a,))) for k, a in jobs]
        for k, r in res: tot[k].merge(r.get(timeout=7200))
    st = tot['rr']
    if st.cases:
        cname = 'reorder-rename-sequences-on-fromgeo-grids' + label
        if exe:
            ctx.corr_cases(cname, st.cases, steps_compared=st.steps, op_kinds=dict(st.kinds), grids=dict(st.sizes), skipped=dict(st.skipped))
            for d in st.disagree: ctx.disagreement(cname, d['case'], 'step %d: %s' % (d['step'], d['model']), d['impl'])
            extra = st.ndis - len(st.disagree)
            if extra > 0: ctx.corr[cname]['n_disagreements'] = ctx.corr[cname].get('n_disagreements', 0) + extra
        ctx.oracle_cases('physics-unchanged-by-reorder-and-rename' + label, st.cases, steps_checked=st.steps, op_kinds=dict(st.kinds),
                         connections_listed_reversed=st.reversed_conns, exceptions=dict(st.errors), file_round_trips=st.filerounds,
                         failures_by_key=dict(st.failn), grids=dict(st.sizes), skipped=dict(st.skipped))
    for k, oname, cname in (('minc', 'minc-volume-split-chain-partial', 'minc-on-fromgeo-grids'), ('embed', 'embed-conserves-volume', 'embed-of-a-rectangular-subgrid')):
        s2 = tot[k]
        if not s2.cases: continue
        ctx.oracle_cases(oname + label, s2.cases, kinds=dict(s2.kinds), failures_by_key=dict(s2.failn), skipped=dict(s2.skipped),
                         file_round_trips=s2.filerounds)
        if exe:
            ctx.corr_cases(cname + label, s2.cases, kinds=dict(s2.kinds), skipped=dict(s2.skipped), relative_tolerance=QTOL)
            for d in s2.disagree: ctx.disagreement(cname + label, d['case'], d['model'], d['impl'])
            extra = s2.ndis - len(s2.disagree)
            if extra > 0: ctx.corr[cname + label]['n_disagreements'] = ctx.corr[cname + label].get('n_disagreements', 0) + extra
    names = {'rr': 'physics-unchanged-by-reorder-and-rename', 'minc': 'minc-volume-split-chain-partial', 'embed': 'embed-conserves-volume'}
    for k in ('rr', 'minc', 'embed'):
        s2 = tot[k]
        ctx.evaluations += s2.cases
        ctx.distinct.update((k, d) for d in s2.distinct)
        for s in s2.samples: ctx.sample(s)
        for key, (inp, obs, req) in sorted(s2.fail.items()):
            inp = dict(inp); inp['kind'] = k
            ctx.failure(names[k], key, inp, obs, req)
    return tot


def run(ctx):
    ctx.rule = ('grids built by the real t2grid().fromgeo from generated geometries (rectangular with uneven spacings, all three atmosphere types; '
                'irregular variants: tilted gravity (gdcx/gdcy), uneven surface (truncated columns), locally refined columns with triangular transitions); '
                '10% are built node by node with a square, a triangular and a five-sided column; in 35% the geometry is built with another atmosphere type and reaches its own through the atmosphere_type property as the last edit; in 40% of the reorder/rename grids 1-3 more rock types with '
                'five-character names (digit names such as \'    2\', \' 2   \', \'00001\' included) are spread over the blocks; '
                '(1) 1-4 random calls of reorder (random permutation of blocks and/or connections, a random 0/20/50/100% of the connections listed with their blocks swapped, '
                'or g.reorder(geo=geo) as first call, also after geo.block_order = \'dmplex\' (50% of the first calls on pentagon geometries, 30% on refined ones; a refusal by exception must leave the grid alone) -- 60% of the first calls when the atmosphere type was set by the property) and rename_blocks (fresh names, all blocks, swaps, cycles, chains; fix_blocknames on and off), each step compared with the '
                'extracted model (payload dump) and with the physical signature before; a sample (15% quick, 25% thorough; all three atmosphere types; at least three edits) starts with a block permutation that takes the first block '
                '(the atmosphere block of a type-0 grid) off position 0 and ends with t2data.write / t2data(filename): the FULL signature (volume, rock type, CENTRE of every block; area, direction, own '
                'distances, oriented cosine of every pair) must come back to file precision; its second edit renames one or two blocks to names the file spells differently (\'qa105\' is written \'qa1 5\'), data files are also written BETWEEN the '
                'edits (checkpoints, 60% after each later edit) and every write must leave the grid in memory as it is; each write puts ELEME/CONNE into the data file, into a separate ASCII MESH file or '
                'into the binary MESHA/MESHB pair (binary only when every block has a centre; numbers then exact, a missing cosine comes back as NaN); '
                '(2) minc with 2-6 volume fractions (summing to less than, exactly and more than 1; integers and floats), 1-3 fracture-plane sets, assorted spacings, all blocks (blocks omitted / None / a fresh [] / one [] object re-used by every such call of the worker process, so that an earlier call of the same process precedes most of them) or a random selection (names, the grid\'s block objects, or equal-named block objects of an identical second grid -- also as full selection; '
                'the selection is by name) (names or block '
                'objects, sometimes with a repeated name: refusal), three atmos_volume cut-offs, a non-default rock type in 30%: the whole grid afterwards is '
                'compared with the extracted MincModel and the three MINC clauses are evaluated on the real grid; a sample is written to a data file and read back; '
                '(3) embed of a small rectangular sub-grid into a random host block (12% with colliding block names, some hosts too small, some atmosphere hosts); the connection handed to embed holds the grid\'s own '
                'host block (50%), an equal-named t2block of 1x / 0.5x / 2x the volume that belongs to no grid (30%), or the block of the in-memory grid while embed runs on that grid after a data-file write/read (20%); '
                'the connecting block is the sub-grid\'s own or an equal-named copy (20%): result grid and the (aliased) self grid compared with the model; total volume, volume of the block filed under the host\'s name '
                'and structure evaluated on the real result. A case is one grid with its call sequence / parameter '
                'set; all counted cases are non-trivial (at least one call on a non-empty grid); distinct by the encoded case')
    ctx.trusted += ['Coq 8.16.1 kernel (coqc)',
                    'hand-written model coq/C09/GridPhys.v (C08 model + payload tokens) of fromgeo\'s add_* calls, rename_blocks and reorder; agreement with t2grids.py is TESTED on this run, not proved',
                    'hand-written model coq/C09/MincModel.v (object heap, rational volumes/distances/areas) of minc, __add__, embed, add_rocktype/add_block/add_connection; agreement with t2grids.py is TESTED on this run, not proved',
                    'the MINC geometry (proximity function, scipy bisect inversion, d[] and a[]) is NOT modelled: the model takes d[], a[] as inputs, read off a probe run of the real minc on a one-block grid',
                    'extraction: ExtrOcamlBasic + ExtrOcamlString, OCaml 4.13.1, ocaml/main.ml; PTBase.Wire helpers',
                    'the Python statement of the physical signature and of the MINC / embed clauses, the dump comparator (1e-12 relative on numbers) in tools/props/C09.py',
                    'float arithmetic of the interpreter for the MINC/embed volume comparisons of the oracle (relative tolerance 1e-9)']
    ctx.assumptions += ['payload values are compared exactly for reorder/rename (they are moved, at most negated, never recomputed); to the digits the ELEME/CONNE field carries after a data-file write/read',
                        'rename maps are one-to-one on the grid\'s blocks; reorder lists name every block / connection exactly once',
                        'MINC / embed theorems are in exact rational arithmetic (fractions normalised by their exact sum); the implementation works in doubles (dumps compared to 1e-12, oracle to 1e-9)',
                        'MINC theorems assume a well-formed grid (dictionaries describe the lists, connections join blocks of the grid, rock types filed under their names) and a selection of distinct names of blocks of the grid; the oracle counts how many real grids meet this (wf-hypothesis-holds)',
                        'MINC connection areas/distances: the model reproduces original_vol * a[m-1] and [d[m-1], d[m]] from the probed d[], a[]; whether d[], a[] are the right geometry for the proximity function is not checked',
                        'embed: total volume is compared by the oracle when the host is not a 1e25 atmosphere block (1e25 - v is not representable); the model comparison covers those too',
                        'embed: the size test uses the volume of the host OBJECT in the connection, the subtraction goes to the block of the result filed under its name (as the code and the model do); after a file round trip every number is compared to half a unit of the last digit its field carries (format from t2data_format_specification, fewer decimals when the text would not fit)',
                        'the state of a grid after minc / embed raised is not modelled (only the exception class is compared)']
    ctx.stage()
    ok = ctx.coq_build(props=('Props.v',))
    exe = vf.build_driver(ctx)
    if ctx.thorough: n_rr, n_minc, n_embed, sizes, wf = 6000, 3000, 1500, ['small'] * 4 + ['medium'] * 4 + ['large'] * 2, 0.25
    else: n_rr, n_minc, n_embed, sizes, wf = 700, 480, 240, ['small'] * 5 + ['medium'] * 4 + ['large'], 0.15
    tot = sweep(ctx, exe, n_rr, n_minc, n_embed, sizes, wf)
    ctx.extra['input_distribution'] = {'reorder_rename': dict(tot['rr'].kinds), 'grids': dict(tot['rr'].sizes), 'minc': dict(tot['minc'].kinds),
                                       'embed': dict(tot['embed'].kinds)}

    def deep(broken):
        ctx.rng = random.Random(ctx.seed + 909)
        sweep(ctx, None, 3000, 1500, 500, ['small'] * 5 + ['medium'] * 4 + ['large'], 0.2, label='(deep)')
    return ctx.finish(deep_search=deep)


def replay(ctx, data):
    case = data.get('input') or {}
    if not case: return True
    kind = case.get('kind', 'rr')
    params = tuple(case['geo'])
    geo, g = build(params)
    print('replay (%s): geometry %r -> %d blocks' % (kind, params, len(g.blocklist)))
    if kind == 'rr':
        ph = phys(g)
        for o in case['ops']:
            if o[0] == 'wr':
                d = write_changes_grid(g, o[1] if len(o) > 1 else 'in-file')
                if d: print('  ' + d); return True
                continue
            op = (o[0], tuple(tuple(x) for x in o[1]), o[2]) if o[0] == 'rn' else (o[0], tuple(o[1]), tuple(tuple(c) for c in o[2])) + tuple(o[3:])
            try: apply_op(g, op, geo)
            except Exception as e:
                print('  %s raised %s' % (op[0], exn_name(e))); return True
            want = relabel(ph, dict(op[1])) if op[0] == 'rn' else ph
            d = phys_diff(want, phys(g))
            if d:
                print('  after %s: %s' % (op[0], d)); return True
            ph = want
        if data.get('finding_key', '').startswith('write-read'):
            d = file_roundtrip_diff(g, ph, case.get('file_mode', 'in-file'))
            if d: print('  ' + d); return True
        print('  physics unchanged'); return False
    if kind == 'minc':
        sel = case['blocks']
        if sel is not None and case.get('blocks_as_objects'):
            src = build(params)[1] if case.get('blocks_foreign') else g
            sel = [src.block[n] for n in sel]
        if case.get('prior'):
            # the same process made an earlier minc call asking for the default selection the same way: repeat it first
            pc = case['prior']
            pgeo, pg = build(tuple(pc['geo']))
            pout, pexc = minc_check(pg, pc, None)
            print('  earlier call in the same process: geometry %r, blocks %s -> %s' % (tuple(pc['geo']), pc.get('blocks_arg'), pexc or 'ok'))
        if case.get('rock'):
            rt = g.rocktypelist[0]
            rt.density, rt.porosity, rt.conductivity, rt.specific_heat, perm, rt.compressibility = case['rock']
            rt.permeability = np.array(perm)
        out, exc = minc_check(g, case, sel)
        for key, obs, req in out: print('  %s: %s' % (key, obs))
        if not out and data.get('finding_key', '').startswith('write-read'):
            d = file_roundtrip_diff(g, phys(g), case.get('file_mode', 'in-file'))
            if d: print('  ' + d); return True
        return bool(out)
    if kind == 'embed':
        T = _impl()
        if 'distances' not in case: case = dict(case, distances=[1., 1.], area=1.)
        selfgrid, sub, host, inner, con, loose = embed_setup(T, g, case)
        r, out, label = embed_check(selfgrid, sub, host, inner, con)
        print('  embed (%s host object, %s connecting object): %s' % (case.get('host_mode', 'own'), case.get('inner_mode', 'own'), label))
        for key, obs, req in out: print('  %s: %s' % (key, obs))
        return bool(out)
    return True
