"""C02 -- fixed-column records never spill.

tie: T (the four format tables regenerated from the AST on every run) + H (model of
fixed_format_file's preprocess/parse/write and of Python %-formatting, Base/Fmt.v +
Base/FixedFormat.v, run against the implementation on the field x value lattice)."""
import os, math, tempfile, shutil
import vf
from translate import tables
from props import c02_oracle as orc


def enc(v):
    if v is None: return 'N'
    if isinstance(v, bool): return 'N'
    if isinstance(v, int): return 'I:%d' % v
    if isinstance(v, str): return 'S:' + vf.hexs(v)
    if isinstance(v, float):
        neg = math.copysign(1.0, v) < 0
        if v == 0: return 'R:%d:0:0' % neg
        n, d = abs(v).as_integer_ratio()
        e = 0
        if d > 1: e = -(d.bit_length() - 1)
        else:
            while n % 2 == 0: n //= 2; e += 1
        return 'R:%d:%d:%d' % (neg, n, e)
    raise ValueError(v)


def show_impl_value(v):
    if v is None: return ('none',)
    if isinstance(v, str): return ('s', v)
    if isinstance(v, float): return ('nan',) if v != v else ('f', v, math.copysign(1, v))
    if isinstance(v, int): return ('i', v)
    return ('?', repr(v))


def show_model_value(t):
    if t == 'NONE': return ('none',)
    if t.startswith('S '): return ('s', bytes.fromhex(t[2:]).decode('latin-1'))
    if t.startswith('I '): return ('i', int(t[2:]))
    if t.startswith('F '):
        _, ng, m, e = t.split(' ')
        x = float('%s%se%s' % ('-' if ng == '1' else '', m, e))
        return ('f', x, math.copysign(1, x))
    if t.startswith('INF '): return ('f', -math.inf if t[4] == '1' else math.inf, -1.0 if t[4] == '1' else 1.0)
    if t == 'NAN': return ('nan',)
    return ('?', t)


def translate(ctx):
    try:
        text, tabs = tables.gen_format_tables(ctx.repo)
        ctx.gen('GenTables', text)
        return tabs
    except tables.Refusal as e:
        ctx.refusal('tables(format specifications)', e)
        return None


def correspond(ctx, exe, thorough):
    """Model writer/parser vs fixed_format_file on the lattice (sub-sampled in the quick tier)."""
    tmpdir = tempfile.mkdtemp(prefix='c02c_')
    rng = ctx.rng
    try:
        reals = orc.real_lattice(rng, thorough)
        cases = []      # (tname, rec, vals, spec list, file)
        files = {}
        for tname, table, rf in orc.load_tables():
            f = orc.make_file(table, rf, tmpdir); files[tname] = f
            for rec, (names, specs) in table.items():
                base = [orc.neutral(s) for s in specs]
                for i, spec in enumerate(specs):
                    lat = orc.lattice(spec, reals, rng)
                    if not thorough and len(lat) > 60:
                        lat = lat[:8] + rng.sample(lat[8:], 52)
                    for v in lat:
                        vals = list(base); vals[i] = v
                        cases.append((tname, rec, vals))
                # a few records with several unusual values at once and short value lists
                for _ in range(6):
                    vals = [rng.choice(orc.lattice(s, reals[:40], rng)) for s in specs]
                    if rng.random() < 0.3: vals = vals[:rng.randint(0, len(vals))]
                    cases.append((tname, rec, vals))
        wl = ['\t'.join(['w', vf.hexs(t), vf.hexs(r)] + [enc(v) for v in vals]) for t, r, vals in cases]
        wout = vf.run_driver(exe, wl)
        plines, pidx = [], []
        nraise = 0
        for idx, ((t, r, vals), mo) in enumerate(zip(cases, wout)):
            try: line = ('ok', files[t].write_values_to_string(vals, r))
            except Exception as e: line = ('raise', type(e).__name__); nraise += 1
            if mo.startswith('OK '): m = ('ok', bytes.fromhex(mo[3:]).decode('latin-1'))
            elif mo.startswith('RAISE '): m = ('raise', mo[6:])
            else: m = ('?', mo)
            if m != line:
                ctx.disagreement('model-writer-vs-write_values_to_string', {'table': t, 'record': r, 'values': [repr(v) for v in vals]}, repr(m), repr(line))
            if line[0] == 'ok':
                for text in (line[1] + '\n', line[1][:max(0, len(line[1]) - rng.randint(0, 12))]):
                    plines.append('p\t%s\t%s\t%s' % (vf.hexs(t), vf.hexs(r), vf.hexs(text))); pidx.append((t, r, text))
        ctx.corr_cases('model-writer-vs-write_values_to_string', len(cases), implementation_raised=nraise)
        pout = vf.run_driver(exe, plines)
        for (t, r, text), mo in zip(pidx, pout):
            got = [show_impl_value(v) for v in files[t].parse_string(text, r)]
            mod = [show_model_value(x) for x in mo.split('|')] if mo else []
            if got != mod:
                ctx.disagreement('model-parser-vs-parse_string', {'table': t, 'record': r, 'line': text}, repr(mod), repr(got))
        ctx.corr_cases('model-parser-vs-parse_string', len(plines))
        for f in files.values(): f.close()
    finally:
        shutil.rmtree(tmpdir, ignore_errors=True)


def tail_wrong(f, rec, specs, vals):
    """Short value list (zip truncation in write_values_to_string): the positions at or beyond the end of the value
    list of the parsed line -- as returned, and with the newline write_values appends -- must hold nothing (None, or a
    blank/empty name in an 's' field), never a piece of a written neighbour.  Returns the offending (rest, position, value)."""
    line = f.write_values_to_string(list(vals), rec)
    out = []
    for rest in ('', '\n'):
        got = f.parse_string(line + rest, rec)
        if len(got) != len(specs): out.append((rest, -1, 'length %d' % len(got))); continue
        for i in range(len(vals), len(specs)):
            g = got[i]
            if not (g is None or (specs[i][-1] == 's' and isinstance(g, str) and g.strip() == '')): out.append((rest, i, repr(g)))
    return out


def tail_sweep(ctx):
    """Oracle clause (implementation alone; a test): every record kind x every length k of the value list."""
    tmpdir = tempfile.mkdtemp(prefix='c02t_')
    n = 0
    try:
        for tname, table, rf in orc.load_tables():
            f = orc.make_file(table, rf, tmpdir)
            for rec, (names, specs) in table.items():
                for k in range(len(specs) + 1):
                    vals = [orc.neutral(s) for s in specs[:k]]
                    n += 1
                    ctx.count(('short-list', tname, rec, k), nontrivial=k < len(specs))
                    case = {'table': tname, 'record': rec, 'values': [repr(v) for v in vals], 'short_list': True}
                    try: bad = tail_wrong(f, rec, specs, vals)
                    except Exception as e: bad = [('', -1, 'raised %s' % type(e).__name__)]
                    if bad:
                        ctx.failure('short-value-list', 'parse_string:unwritten-tail-not-absent', case, repr(bad[:4]), 'None (blank name) at every position beyond the value list')
            f.close()
    finally:
        shutil.rmtree(tmpdir, ignore_errors=True)
    ctx.oracle_cases('short-value-list', n, lengths='0..len(specs) per record kind', tail='as returned and with the trailing newline')


def run(ctx):
    ctx.rule = ('for every field of every record kind of the four format tables: every lattice value of its type (reals: sign x '
                'decimal exponent -120..120 (quick: 14 boundary exponents) x 12 mantissa patterns + random; integers 10^k-1, 10^k, -10^(k-1) up to one past the width; '
                'names of length 0..width+1; None) written with exactly fitting neighbours; distinct by (table, record, field, value), non-trivial unless the value is None. '
                'File level: every record kind of the four tables x {neutral, mixed boundary values with an absent one, latin-1 names, a name with 3-byte characters} written with write_values '
                'to real files through the library parser classes and read back with read_values, in two fresh processes creating all parsers in opposite orders')
    ctx.trusted += ['Coq 8.16.1 kernel (coqc); vm_compute for the finite table obligations; no native_compute',
                    'translator tools/translate/tables.py (AST literal evaluator, fail-closed; its output is compared with the imported tables on every run)',
                    'Base/Fmt.v (model of Python %-formatting for d, s, e, f on exact doubles) and Base/FixedFormat.v (model of fixed_format_file): hand-written, run against the implementation on the lattice on every run',
                    'Base/PyNum.v float()/int() grammar (validated in C16; here by the parser correspondence); float() is modelled up to the decimal the text denotes: the final decimal->double rounding (strtod) is CPython, not modelled',
                    'stdlib Decimal*/DecimalString (the model prints integers with NilZero.string_of_uint (N.to_uint n)); QArith for the accuracy statements', 'extraction: ExtrOcamlBasic + ExtrOcamlString, OCaml 4.13.1, ocaml/main.ml',
                    "CPython's float formatting/strtod as the ground truth of the correspondence"]
    ctx.assumptions += ['values are str / int / finite float / None (inf, nan, %g formats and %s of a float are outside the model)',
                        'the Coq model is over byte strings (ASCII / latin-1, one character = one column); the file encoding layer (open() with the locale encoding, non-ASCII names) is not modelled: it is covered only by the file-level oracle (a test)']
    ctx.stage()
    tabs = translate(ctx)
    exe = None
    if tabs is not None:
        # translator validation: the AST evaluation equals what the imported modules hold
        import t2data, t2incons, mulgrids
        real = [t2data.t2data_format_specification, t2data.t2data_extra_precision_format_specification,
                t2incons.t2incon_format_specification, mulgrids.mulgrid_format_specification]
        for (n, t), r in zip(tabs, real):
            if t != r: ctx.disagreement('tables-translator-vs-imported-module', {'table': n}, 'ast literal', 'imported value differs')
        ctx.corr_cases('tables-translator-vs-imported-module', 4)
        ctx.coq_build()
        exe = vf.build_driver(ctx)
    if exe: correspond(ctx, exe, ctx.thorough)
    orc.sweep(ctx, thorough=ctx.thorough)
    orc.file_sweep(ctx, thorough=ctx.thorough)
    orc.data_sweep(ctx, thorough=ctx.thorough)
    tail_sweep(ctx)

    def deep(broken):
        if not ctx.thorough: orc.sweep(ctx, thorough=True)
    return ctx.finish(deep_search=deep)


def replay(ctx, data):
    inp = data.get('input') or {}
    if 'file' in inp: return orc.file_replay(ctx, inp)
    if 'data_case' in inp: return orc.data_replay(ctx, inp)
    if 'table' not in inp: return True
    if inp.get('short_list'):
        tmpdir = tempfile.mkdtemp(prefix='c02r_')
        try:
            for tname, table, rf in orc.load_tables():
                if tname != inp['table']: continue
                f = orc.make_file(table, rf, tmpdir)
                vals = [eval(x, {'inf': math.inf, 'nan': math.nan}) for x in inp['values']]
                try: bad = tail_wrong(f, inp['record'], table[inp['record']][1], vals)
                except Exception as e: print('replay: raised', type(e).__name__); return True
                print('replay: short value list -> offending positions %r' % (bad,))
                return bool(bad)
        finally:
            shutil.rmtree(tmpdir, ignore_errors=True)
        return True
    tmpdir = tempfile.mkdtemp(prefix='c02r_')
    try:
        for tname, table, rf in orc.load_tables():
            if tname != inp['table']: continue
            f = orc.make_file(table, rf, tmpdir)
            names, specs = table[inp['record']]
            vals = [eval(x, {'inf': math.inf, 'nan': math.nan}) for x in inp['values']]
            try: line = f.write_values_to_string(vals, inp['record'])
            except Exception as e:
                print('replay: write raised', type(e).__name__); return 'raises-on-representable' in data.get('finding_key', '')
            got = f.parse_string(line + '\n', inp['record'])
            print('replay: line %r -> %r' % (line, got))
            # the sequence clause: parse twice, the caller edits both results, parse the identical line again
            snap = list(got)
            again = f.parse_string(line + '\n', inp['record'])
            del got[len(got) // 2:]
            if got: got[0] = '#edited by the caller#'
            del again[1:]
            third = f.parse_string(line + '\n', inp['record'])
            if not orc.same_list(third, snap): print('replay: third parse %r' % (third,)); return True
            got = snap
            if f.write_values_to_string(list(vals), inp['record']) != line: return True
            for j, s2 in enumerate(specs):
                if not orc.check_field(orc.expected_readback(s2, vals[j], None), got[j], s2): return True
            i = inp.get('field')
            if isinstance(i, int) and i < len(specs) and i < len(vals) and vals[i] is not None and orc.parse_spec(specs[i])[2] in 'ef' \
                    and all(orc.parse_spec(s2)[0] > 0 for s2 in specs):
                pos = sum(abs(orc.parse_spec(s2)[0]) for s2 in specs[:i])
                if not orc.printed_digits_ok(line[pos: pos + abs(orc.parse_spec(specs[i])[0])], vals[i], got[i]): return True
            return False
    finally:
        shutil.rmtree(tmpdir, ignore_errors=True)
    return True
