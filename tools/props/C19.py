"""C19 -- transfers between geometries are total, nearest-based, identity on equal grids.

tie: H.  coq/C19/Transfer.v + Generators.v model mulgrid.column_mapping / layer_mapping /
block_mapping, t2incon.transfer_from and the bookkeeping of t2data.transfer_generators_from over
abstract geometries (exact integer coordinates, `nearest` an abstract search specified as "an index
at minimal distance").  The extracted model (nearest := first arg-min) is run against the real
methods on abstract geometries extracted from real mulgrid objects; the oracle evaluates the
property statement on the implementation alone."""
import os, sys, json, copy, random, time
from fractions import Fraction
import vf
from props import c19_geo as G
from props import c19_oracle as O


JOBS = max(1, min(8, vf.NPROC))


def drive(exe, lines):
    """run the extracted model on the case lines with up to 8 processes; the assignment of cases to
    processes depends only on the lines (longest first, least-loaded bin), results come back in order."""
    n = len(lines)
    if n <= 4 or JOBS == 1: return vf.run_driver(exe, lines, shards=1)
    from concurrent.futures import ThreadPoolExecutor
    bins = [[] for _ in range(JOBS)]; load = [0] * JOBS
    for i in sorted(range(n), key=lambda i: (-len(lines[i]), i)):
        j = load.index(min(load)); bins[j].append(i); load[j] += len(lines[i]) ** 2
    bins = [b for b in bins if b]
    with ThreadPoolExecutor(max_workers=len(bins)) as ex:
        outs = list(ex.map(lambda b: vf.run_driver(exe, [lines[i] for i in b], shards=1), bins))
    res = [None] * n
    for b, o in zip(bins, outs):
        for i, l in zip(b, o): res[i] = l
    return res


# ---------------------------------------------------------------- cases
class Pair(object):
    def __init__(self, family, sspec, dspec, repo):
        self.family, self.sspec, self.dspec = family, sspec, dspec
        self.src = G.build_geo(sspec, repo)
        self.dst = G.build_geo(dspec, repo)
        self.case = {'kind': 'block_mapping', 'family': family, 'src': sspec, 'dst': dspec}
        self._enc = None
        self._cmp = None

    def enc(self):
        if self._enc is None:
            d = G.common_scale([self.src, self.dst])
            self._enc = (G.geo_fields(self.src, d), G.geo_fields(self.dst, d))
        return self._enc

    def comparable(self):
        """target blocks on which the model's tie resolution is certain to be the implementation's"""
        if self._cmp is None: self._cmp = self._comparable()
        return self._cmp

    def _comparable(self):
        self.ties = G.column_tie_classes(self.src, self.dst)
        uc = G.unique_nearest_columns(self.src, self.dst, classes=self.ties)
        cl = G.comparable_layers(self.src, self.dst)
        dst = self.dst
        l0 = dst.layerlist[0].name
        ok = set()
        if G.atm_code(dst) == 0: ok.add(dst.block_name_list[0])
        elif G.atm_code(dst) == 1:
            for c in dst.columnlist:
                if c.name in uc: ok.add(dst.block_name(l0, c.name))
        for l in dst.layerlist[1:]:
            if l.name not in cl: continue
            for c in dst.columnlist:
                if c.name in uc and c.surface > l.bottom: ok.add(dst.block_name(l.name, c.name))
        return ok, uc, cl


def shipped_file(k, thorough):
    """the shipped geometry of the k-th pair of a shipped-* family: every file of tests/mulgrid once in
    the thorough tier (g4/g2 have ~29000 blocks), the two mid-sized ones (g5, g1: ~8000 blocks) once in
    the quick tier, otherwise the small ones (the model's association lists make a case quadratic)."""
    if thorough:
        return G.SHIPPED[k] if k < len(G.SHIPPED) else G.SHIPPED[k % 3]
    return {0: 'g5.dat', 2: 'g1.dat'}.get(k, 'g7.dat')


def make_pairs(ctx, n):
    rng = ctx.rng
    nship = {}
    pairs, skipped = [], 0
    combos = [(a, b) for a in range(3) for b in range(3)]
    i = 0
    attempts = 0
    while len(pairs) < n and attempts < 4 * n + 50:
        attempts += 1
        fam = G.FAMILIES[i % len(G.FAMILIES)]
        ta, tb = combos[(i // len(G.FAMILIES) + i) % 9]
        if fam == 'identical': tb = ta
        i += 1
        shipped = None
        if fam.startswith('shipped'):
            k = nship.get(fam, 0); nship[fam] = k + 1
            shipped = shipped_file(k, ctx.thorough)
        try:
            f, a, b = G.gen_pair(rng, fam, ctx.repo, ta, tb, thorough=ctx.thorough, shipped=shipped)
            pairs.append(Pair(f, a, b, ctx.repo))
        except Exception as e:
            # naming capacity of a convention exceeded etc.: not a case
            skipped += 1
            if skipped < 4: ctx.log('case generation skipped (%s): %r' % (fam, e))
    return pairs, skipped


# ---------------------------------------------------------------- correspondence
def impl_bm(p):
    try:
        m, cm = p.src.block_mapping(p.dst, True)
        return ('ok', m, cm)
    except Exception as e:
        return ('raise', type(e).__name__)


def parse_bm(line):
    if line.startswith('RAISE '): return ('raise', line[6:])
    f = line.split('\t')
    if f[0] != 'OK' or len(f) != 3: return ('?', line[:200])
    return ('ok', G.parse_dict(f[1]), G.parse_dict(f[2]))


def correspond_mapping(ctx, exe, pairs):
    lines = []
    for p in pairs:
        s, d = p.enc()
        lines.append('\t'.join(['bm'] + s + d))
        lines.append('\t'.join(['bl'] + d))
        lines.append('\t'.join(['wf'] + s))
        lines.append('\t'.join(['wf'] + d))
    out = drive(exe, lines)
    nblocks = ncmp = 0
    wf_ok = wf_all = dc = dl = 0
    kinds = {}
    tie = ctx.extra.setdefault('tie_classes_of_target_columns', {})
    for i, p in enumerate(pairs):
        mo, bl, w1, w2 = out[4 * i: 4 * i + 4]
        m = parse_bm(mo); im = impl_bm(p)
        name = 'model-block_mapping-vs-mulgrid.block_mapping'
        kinds[im[0] if im[0] != 'raise' else 'raise ' + im[1]] = kinds.get(im[0] if im[0] != 'raise' else 'raise ' + im[1], 0) + 1
        if m[0] != im[0] or (m[0] == 'raise' and m[1] != im[1]):
            ctx.disagreement(name, p.case, repr(m)[:300], repr(im)[:300])
        elif m[0] == 'ok':
            ok, uc, cl = p.comparable()
            nblocks += len(im[1]); ncmp += len(ok)
            # ties: where nearest_spec leaves the answer open the implementation must still return AN arg-min
            for cn, (cls, exact, near) in p.ties.items():
                tie[cls] = tie.get(cls, 0) + 1
                got = im[2].get(cn)
                if cls == 'exact-tie':
                    if got in exact: tie['exact-tie: implementation returns an exact arg-min'] = tie.get('exact-tie: implementation returns an exact arg-min', 0) + 1
                    else: ctx.disagreement('search-meets-nearest_spec', p.case, 'one of %r' % exact[:4], 'column %r -> %r' % (cn, got))
                elif got not in near:
                    ctx.disagreement('search-meets-nearest_spec', p.case, 'one of %r' % near[:4], 'column %r -> %r' % (cn, got))
            nl = p.dst.num_layers - 1
            tie['layers compared (exact differences or clear margin)'] = tie.get('layers compared (exact differences or clear margin)', 0) + len(cl)
            tie['layers near-tie (not compared)'] = tie.get('layers near-tie (not compared)', 0) + nl - len(cl)
            if list(m[1].keys()) != list(im[1].keys()):
                ctx.disagreement(name, p.case, 'keys %r' % list(m[1].keys())[:6], 'keys %r' % list(im[1].keys())[:6])
            else:
                bad = [(b, m[1][b], im[1][b]) for b in im[1] if b in ok and m[1][b] != im[1][b]]
                badc = [(c, m[2].get(c), im[2].get(c)) for c in im[2] if (c in uc or c not in p.dst.column) and m[2].get(c) != im[2].get(c)]
                if bad or badc or set(m[2]) != set(im[2]):
                    ctx.disagreement(name, p.case, 'blocks %r columns %r' % ([x[:2] for x in bad[:3]], [x[:2] for x in badc[:3]]),
                                     'blocks %r columns %r' % ([(x[0], x[2]) for x in bad[:3]], [(x[0], x[2]) for x in badc[:3]]))
        # block_name_list
        mbl = [bytes.fromhex(x).decode('latin-1') for x in bl.split(',')] if bl else []
        if mbl != list(p.dst.block_name_list):
            ctx.disagreement('model-block_name_list-vs-mulgrid.block_name_list', p.case, repr(mbl[:8]), repr(p.dst.block_name_list[:8]))
        for w in (w1, w2):
            wf_all += 1
            wf_ok += w[0] == '1'; dc += w[1] == '1'; dl += w[2] == '1'
    ctx.corr_cases('model-block_mapping-vs-mulgrid.block_mapping', len(pairs), implementation_results=kinds,
                   target_blocks=nblocks, blocks_compared_tie_free=ncmp)
    ctx.corr_cases('model-block_name_list-vs-mulgrid.block_name_list', len(pairs))
    ctx.corr_cases('search-meets-nearest_spec', len(pairs), target_columns=dict(tie))
    ctx.hyp_met['nearest_spec on the real search: target columns unique / exact-tie (implementation returned an exact arg-min) / near-tie (within 1e-9, rounding may decide)'] = \
        '%d / %d (%d) / %d' % (tie.get('unique', 0), tie.get('exact-tie', 0), tie.get('exact-tie: implementation returns an exact arg-min', 0), tie.get('near-tie', 0))
    ctx.hyp_met['wf (hypothesis of the mapping theorems) holds on the extracted real geometry'] = '%d of %d' % (wf_ok, wf_all)
    ctx.hyp_met['distinct column centres / distinct layer centres (hypotheses of block_mapping_self_id)'] = '%d / %d of %d' % (dc, dl, wf_all)
    if wf_ok != wf_all:
        ctx.disagreement('wf-holds-on-real-geometries', {'note': 'a real geometry fails the well-formedness predicate of the theorems'},
                         '%d of %d' % (wf_ok, wf_all), 'all')
    ctx.corr_cases('wf-holds-on-real-geometries', wf_all)


def enc_incon(inc):
    items = []
    for b in inc._blocklist:
        por = '-' if b.porosity is None else G.qstr(b.porosity)
        seq = '-' if b.nseq is None else '%d;%d' % (b.nseq, b.nadd)
        items.append('%s:%s:%s:%s' % (vf.hexs(b.block), por, seq, ';'.join(G.qstr(v) for v in b.variable)))
    return ','.join(items)


def parse_incon(s):
    out = []
    if not s: return out
    for it in s.split(','):
        n, por, seq, vs = it.split(':')
        out.append((bytes.fromhex(n).decode('latin-1'), [G.parse_q(v) for v in vs.split(';')] if vs else [],
                    None if por == '-' else G.parse_q(por), None if seq == '-' else tuple(int(x) for x in seq.split(';'))))
    return out


def impl_incon(b):
    return (b.block, [G.fr(v) for v in b.variable], None if b.porosity is None else G.fr(b.porosity),
            None if b.nseq is None else (b.nseq, b.nadd))


def q_close(a, b, rtol=Fraction(1, 10 ** 12)):
    return len(a) == len(b) and all(x == y or abs(x - y) <= rtol * max(abs(x), abs(y)) for x, y in zip(a, b))


def correspond_incon(ctx, exe, jobs):
    """jobs: (pair, case dict with nvar/vseed/explicit)"""
    from t2incons import t2incon
    name = 'model-incon_transfer-vs-t2incon.transfer_from'
    lines, impl = [], []
    for p, case in jobs:
        inc = O.make_incon(p.src, case['nvar'], case['vseed'])
        s, d = p.enc()
        new = t2incon()
        try:
            if case.get('explicit'):
                m, cm = O.explicit_maps(p.src, p.dst)
                new.transfer_from(inc, p.src, p.dst, m, cm)
                mf = ['m', G.show_dict(m), G.show_dict(cm)]
            else:
                new.transfer_from(inc, p.src, p.dst)
                mf = ['-', '', '']
            impl.append(('ok', [impl_incon(b) for b in new._blocklist]))
        except Exception as e:
            impl.append(('raise', type(e).__name__))
            mf = ['-', '', ''] if not case.get('explicit') else None
            if mf is None:
                m, cm = O.explicit_maps(p.src, p.dst); mf = ['m', G.show_dict(m), G.show_dict(cm)]
        lines.append('\t'.join(['it'] + mf + s + d + [enc_incon(inc)]))
    out = drive(exe, lines)
    kinds = {}
    for (p, case), mo, im in zip(jobs, out, impl):
        c = dict(case, src=p.sspec, dst=p.dspec, kind='incon')
        k = '%d->%d%s' % (G.atm_code(p.src), G.atm_code(p.dst), ' explicit-maps' if case.get('explicit') else '')
        kinds[k] = kinds.get(k, 0) + 1
        if mo.startswith('RAISE '):
            if im != ('raise', mo[6:]): ctx.disagreement(name, c, mo, repr(im)[:300])
            continue
        f = mo.split('\t')
        if im[0] != 'ok' or f[0] != 'OK':
            ctx.disagreement(name, c, mo[:300], repr(im)[:300]); continue
        m = parse_incon(f[1] if len(f) > 1 else '')
        ok, uc, cl = p.comparable()
        averaged = G.atm_code(p.src) == 1 and G.atm_code(p.dst) == 0
        if [x[0] for x in m] != [x[0] for x in im[1]]:
            ctx.disagreement(name, c, 'blocks %r' % [x[0] for x in m][:6], 'blocks %r' % [x[0] for x in im[1]][:6]); continue
        for j, (a, b) in enumerate(zip(m, im[1])):
            if a[0] not in ok: continue
            same = (a == b) if not (averaged and j == 0) else (q_close(a[1], b[1]) and a[2:] == b[2:])
            if not same:
                ctx.disagreement(name, c, repr((a[0], [float(x) for x in a[1]], a[2], a[3])), repr((b[0], [float(x) for x in b[1]], b[2], b[3])))
                break
    ctx.corr_cases(name, len(jobs), atmosphere_cases=kinds)


TAGS = {}


def enc_gen(g):
    tag = (g.nseq, g.nadd, g.nads, g.itab, g.ex, g.hg, g.fg, tuple(g.time or []), tuple(g.enthalpy or []))
    t = TAGS.setdefault(tag, len(TAGS) + 1)
    return '%s:%s:%s:%s:%d:%s:%d' % (vf.hexs(g.name), vf.hexs(g.block), vf.hexs(g.type), '-' if g.gx is None else G.qstr(g.gx),
                                     g.ltab or 0, ';'.join(G.qstr(r) for r in (g.rate or [])), t)


def dec_gen(s):
    n, b, t, gx, lt, rs, tg = s.split(':')
    h = lambda x: bytes.fromhex(x).decode('latin-1')
    return (h(n), h(b), h(t), None if gx == '-' else G.parse_q(gx), int(lt), [G.parse_q(r) for r in rs.split(';')] if rs else [], int(tg))


def impl_gen(g):
    tag = (g.nseq, g.nadd, g.nads, g.itab, g.ex, g.hg, g.fg, tuple(g.time or []), tuple(g.enthalpy or []))
    return (g.name, g.block, g.type, None if g.gx is None else G.fr(g.gx), g.ltab or 0, [G.fr(r) for r in (g.rate or [])], TAGS.get(tag, -1))


def gens_close(a, b):
    if a[:3] != b[:3] or a[4] != b[4] or a[6] != b[6]: return False
    if (a[3] is None) != (b[3] is None): return False
    if a[3] is not None and not q_close([a[3]], [b[3]]): return False
    return q_close(a[5], b[5])


def correspond_generators(ctx, exe, jobs):
    """jobs: (pair, case with gseed/rename/preserve); only tie-free pairs on which block_mapping works."""
    from t2data import t2data
    from t2grids import t2grid
    name = 'model-transfer_generators-vs-t2data.transfer_generators_from'
    lines, impl, used = [], [], []
    for p, case in jobs:
        dat, top, bot = O.make_source_data(p.src, case['gseed'], conforming_names=bool(case.get('rename')))
        new = t2data(); new.grid = t2grid().fromgeo(p.dst)
        encg = ','.join(enc_gen(g) for g in dat.generatorlist)
        try:
            new.transfer_generators_from(dat, p.src, p.dst, top, bot, rename=bool(case.get('rename')),
                                         preserve_totals=bool(case.get('preserve')))
            impl.append(('ok', [impl_gen(g) for g in new.generatorlist]))
        except Exception as e:
            impl.append(('raise', type(e).__name__))
        incols = [c.name for c in p.dst.columnlist if p.src.column_containing_point(c.centre) is not None]
        s, d = p.enc()
        flags = ('1' if case.get('rename') else '0') + ('1' if case.get('preserve') else '0')
        lines.append('\t'.join(['tg'] + s + d + [flags, ','.join(vf.hexs(x) for x in top), ','.join(vf.hexs(x) for x in bot),
                                                ','.join(vf.hexs(x) for x in incols),
                                                ','.join('%s=%s' % (vf.hexs(b.name), G.qstr(b.volume)) for b in dat.grid.blocklist),
                                                ','.join('%s=%s' % (vf.hexs(b.name), G.qstr(b.volume)) for b in new.grid.blocklist),
                                                encg]))
        used.append((p, case))
    out = drive(exe, lines) if lines else []
    res = {}
    for (p, case), mo, im in zip(used, out, impl):
        c = dict(case, src=p.sspec, dst=p.dspec, kind='generators-pair')
        res[im[0] if im[0] == 'ok' else 'raise ' + im[1]] = res.get(im[0] if im[0] == 'ok' else 'raise ' + im[1], 0) + 1
        if mo.startswith('RAISE '):
            if im != ('raise', mo[6:]): ctx.disagreement(name, c, mo, repr(im)[:300])
            continue
        f = mo.split('\t')
        if im[0] != 'ok' or f[0] != 'OK':
            ctx.disagreement(name, c, mo[:300], repr(im)[:300]); continue
        m = [dec_gen(x) for x in f[1].split(',')] if len(f) > 1 and f[1] else []
        if len(m) != len(im[1]) or any(not gens_close(a, b) for a, b in zip(m, im[1])):
            d = [(a[:3], b[:3]) for a, b in zip(m, im[1]) if not gens_close(a, b)][:2]
            ctx.disagreement(name, c, '%d generators; first differences (model, impl) %r' % (len(m), d), '%d generators' % len(im[1]))
    ctx.corr_cases(name, len(used), implementation_results=res)


def correspond_data(ctx, exe, jobs):
    """t2data.transfer_from as a whole (public entry point) against DataTransfer.v: rock type of every block,
    rock type list, print block, generators, in-file initial conditions.  jobs: (pair, case)."""
    from t2data import t2data
    name = 'model-data_transfer-vs-t2data.transfer_from'
    lines, impl = [], []
    for p, case in jobs:
        dat, top, bot = O.make_model(p.src, case['gseed'], conforming_names=bool(case.get('rename')))
        tags = {id(v): i + 1 for i, v in enumerate(dat.incon.values())}
        encg = ','.join(enc_gen(g) for g in dat.generatorlist)
        sblocks = ','.join('%s:%s:%s' % (vf.hexs(b.name), vf.hexs(b.rocktype.name), G.qstr(b.volume)) for b in dat.grid.blocklist)
        rocks = ','.join(vf.hexs(r.name) for r in dat.grid.rocktypelist)
        pb = dat.parameter['print_block']
        inc = ','.join('%s=%d' % (vf.hexs(k), tags[id(v)]) for k, v in dat.incon.items())
        new = t2data()
        try:
            new.transfer_from(dat, p.src, p.dst, top_generator=top, bottom_generator=bot,
                              rename_generators=bool(case.get('rename')), preserve_generation_totals=bool(case.get('preserve')))
            impl.append(('ok', [(b.name, b.rocktype.name) for b in new.grid.blocklist], [r.name for r in new.grid.rocktypelist],
                         new.parameter['print_block'], [impl_gen(g) for g in new.generatorlist],
                         [(k, tags.get(id(v), -1)) for k, v in new.incon.items()]))
        except Exception as e:
            impl.append(('raise', type(e).__name__))
        from t2grids import t2grid
        dgrid = t2grid().fromgeo(p.dst)
        incols = [c.name for c in p.dst.columnlist if p.src.column_containing_point(c.centre) is not None]
        s, d = p.enc()
        flags = ('1' if case.get('rename') else '0') + ('1' if case.get('preserve') else '0')
        lines.append('\t'.join(['tf'] + s + d + [flags, ','.join(vf.hexs(x) for x in top), ','.join(vf.hexs(x) for x in bot),
                                                ','.join(vf.hexs(x) for x in incols), sblocks, rocks, '-' if pb is None else vf.hexs(pb),
                                                ','.join('%s=%s' % (vf.hexs(b.name), G.qstr(b.volume)) for b in dgrid.blocklist), encg, inc]))
    out = drive(exe, lines) if lines else []
    res = {}
    h = lambda x: bytes.fromhex(x).decode('latin-1')
    for (p, case), mo, im in zip(jobs, out, impl):
        c = dict(case, src=p.sspec, dst=p.dspec, kind='data')
        k = im[0] if im[0] == 'ok' else 'raise ' + im[1]
        res[k] = res.get(k, 0) + 1
        if mo.startswith('RAISE '):
            if im != ('raise', mo[6:]): ctx.disagreement(name, c, mo, repr(im)[:300])
            continue
        f = mo.split('\t')
        if im[0] != 'ok' or f[0] != 'OK' or len(f) != 6:
            ctx.disagreement(name, c, mo[:300], repr(im)[:300]); continue
        mrock = [tuple(h(y) for y in x.split('=')) for x in f[1].split(',')] if f[1] else []
        mrl = [h(x) for x in f[2].split(',')] if f[2] else []
        mpb = None if f[3] == '-' else h(f[3])
        mg = [dec_gen(x) for x in f[4].split(',')] if f[4] else []
        minc = [(h(x.split('=')[0]), int(x.split('=')[1])) for x in f[5].split(',')] if f[5] else []
        if mrock != im[1] or mrl != im[2] or mpb != im[3] or minc != im[5]:
            d1 = [(a, b) for a, b in zip(mrock, im[1]) if a != b][:2]
            ctx.disagreement(name, c, 'rock %r list %r print %r incon %r' % (d1, mrl, mpb, minc[:4]),
                             'rock %r list %r print %r incon %r' % ([b for a, b in d1], im[2], im[3], im[5][:4]))
        elif len(mg) != len(im[4]) or any(not gens_close(a, b) for a, b in zip(mg, im[4])):
            dd = [(a[:3], b[:3]) for a, b in zip(mg, im[4]) if not gens_close(a, b)][:2]
            ctx.disagreement(name, c, '%d generators; first differences (model, impl) %r' % (len(mg), dd), '%d generators' % len(im[4]))
    ctx.corr_cases(name, len(jobs), implementation_results=res)


# ---------------------------------------------------------------- oracle sweep
def oracle(ctx, pairs, seed_base=0):
    fam, atm, nseq, ndata = {}, {}, {}, {}
    firsts = []
    for i, p in enumerate(pairs):
        fam[p.family] = fam.get(p.family, 0) + 1
        k = '%d->%d' % (G.atm_code(p.src), G.atm_code(p.dst)); atm[k] = atm.get(k, 0) + 1
        r1 = O.guarded(ctx, 'block-mapping', p.case, O.check_mapping, ctx, p.case, p.src, p.dst)
        if r1 is not None and p.src.num_blocks + p.dst.num_blocks <= 4000: firsts.append((i, r1))
        O.guarded(ctx, 'self-mapping-identity', p.case, O.check_self_identity, ctx, p.case, 'src', p.src)
        O.guarded(ctx, 'self-mapping-identity', p.case, O.check_self_identity, ctx, p.case, 'dst', p.dst)
        if i < 6: ctx.sample({'family': p.family, 'source': '%d cols x %d layers, atm %d, conv %d' % (
            p.src.num_columns, p.src.num_layers - 1, G.atm_code(p.src), p.src.convention),
            'target': '%d cols x %d layers, atm %d, conv %d' % (p.dst.num_columns, p.dst.num_layers - 1, G.atm_code(p.dst), p.dst.convention)})
        big = p.src.num_blocks + p.dst.num_blocks > 30000
        if not big or i % 3 == 0:
            case = {'kind': 'incon', 'src': p.sspec, 'dst': p.dspec, 'nvar': 1 + (i + seed_base) % 6, 'vseed': seed_base + i}
            O.guarded(ctx, 'incon-transfer', case, O.check_incon, ctx, case, p.src, p.dst, ctx.repo)
            if not big:      # the same with the source populated through `inc.variable = array` (blocks hold views of the caller's array)
                O.guarded(ctx, 'incon-transfer', dict(case, populate='array'), O.check_incon, ctx, dict(case, populate='array'), p.src, p.dst, ctx.repo)
            if O.atm_finding_class(p.src, p.dst):
                O.guarded(ctx, 'incon-transfer', dict(case, explicit=True), O.check_incon, ctx, dict(case, explicit=True), p.src, p.dst, ctx.repo)
        if p.src.num_blocks <= 4000:
            case = {'kind': 'generators', 'geo': p.sspec, 'gseed': seed_base + i, 'rename': bool(i & 1), 'preserve': bool(i & 2),
                    'all_columns': p.src.num_columns <= 120}      # a top and a bottom generator in EVERY column of small geometries
            O.guarded(ctx, 'generator-transfer-identity', case, O.check_generators_identity, ctx, case, p.src, O.identical_copy(p.sspec, p.src, ctx.repo))
        if p.dst.num_blocks <= 4000 and p.family != 'identical':
            # ... and of the target geometry (often the refined / re-surfaced one of the pair)
            case = {'kind': 'generators', 'geo': p.dspec, 'gseed': seed_base + 4000 + i, 'rename': bool(i & 2), 'preserve': bool(i & 1),
                    'all_columns': p.dst.num_columns <= 120}
            O.guarded(ctx, 'generator-transfer-identity', case, O.check_generators_identity, ctx, case, p.dst, O.identical_copy(p.dspec, p.dst, ctx.repo))
        if p.src.num_blocks + p.dst.num_blocks <= 4000:
            case = {'kind': 'data', 'src': p.sspec, 'dst': p.dspec, 'gseed': seed_base + 900 + i, 'rename': bool(i & 1), 'preserve': bool(i & 2)}
            r = O.guarded(ctx, 'model-transfer', case, O.check_data_transfer, ctx, case, p.src, p.dst)
            k = r or ('skipped: source without atmosphere blocks, target with' if G.atm_code(p.src) == 2 and G.atm_code(p.dst) != 2 else 'failed')
            ndata[k] = ndata.get(k, 0) + 1
        if p.src.num_blocks + p.dst.num_blocks <= 4000:
            # object history: compute mappings, then move / re-surface the same objects in place, evaluate again
            r = random.Random(1000003 * (seed_base + 1) + i)
            s2, d2 = G.build_geo(p.sspec, ctx.repo), G.build_geo(p.dspec, ctx.repo)
            ms, md = G.moves(r, s2), G.moves(r, d2)
            sn = G.snap_moves(r, s2)
            rl = G.relayer_move(r, s2)
            case = {'kind': 'sequence', 'family': p.family, 'src': p.sspec, 'dst': p.dspec,
                    'then_src': (sn if sn and i % 4 == 3 else (rl if i % 8 == 5 else [ms[i % len(ms)]])), 'then_dst': ([rl[0], ['surface', {c.name: rl[0][2] for c in d2.columnlist}]] if i % 8 == 5 and not (sn and i % 4 == 3)
                                 else ([md[(i // 3) % len(md)]] if (i // 3) % 4 else [])),
                    'nvar': 1 + i % 6, 'vseed': seed_base + i}
            if case['then_src'][0][0] == 'translate' and case['then_src'][0][1][2] != 0. and not case['then_dst'] and i % 2:
                case['then_dst'] = [['translate', [0., 0., case['then_src'][0][1][2]]]]      # the target moves up/down with the source
            O.guarded(ctx, 'statement-after-in-place-moves', case, O.check_sequence, ctx, case, s2, d2, ctx.repo)
            kseq = '+'.join(o[0] for o in case['then_src']); nseq[kseq] = nseq.get(kseq, 0) + 1
    # second pass, shuffled: the same objects mapped again after everything else happened in this process
    order = list(range(len(firsts))); random.Random(4711 + seed_base).shuffle(order)
    for j in order:
        i, r1 = firsts[j]
        O.guarded(ctx, 'block-mapping', pairs[i].case, O.check_repeat, ctx, pairs[i].case, pairs[i].src, pairs[i].dst, first=r1)
    ctx.oracle_cases('block-mapping-second-pass-shuffled', len(order))
    ctx.oracle_cases('block-mapping', len(pairs), families=fam, atmosphere_source_to_target=atm)
    ctx.oracle_cases('self-mapping-identity', len(pairs))
    ctx.oracle_cases('incon-transfer', len(pairs))
    ctx.oracle_cases('generator-transfer-identity', len(pairs), geometries='source and target of every pair with <= 4000 blocks; a top and a bottom generator in every column when <= 120 columns')
    ctx.oracle_cases('model-transfer', sum(ndata.values()), results=ndata)
    ctx.oracle_cases('statement-after-in-place-moves', sum(nseq.values()), source_edit_after_first_mapping=nseq)


# ---------------------------------------------------------------- run / replay
def run(ctx):
    ctx.rule = ('pairs (source, target) of real mulgrid geometries from 12 family slots (independent random rectangular grids over overlapping '
                'regions; coarse/fine; a grid and its column refinement, both directions; layer refinement; shifted and renamed-convention copies (one family always changes the convention, so atmosphere layer names differ); '
                'copies with random column surfaces incl. exactly on layer bottoms; identical; shipped tests/mulgrid geometries (quick: g5, g1 once each, else g7; thorough: all seven) against themselves '
                '(shifted) and against rectangular grids over their bounds), cycled through all 3x3 (source, target) atmosphere types, conventions 0-3 '
                'at random, 1..6 primary variables, generators at top/bottom/interior/atmosphere blocks with and without tables, rename x preserve_totals; every small pair once more after the objects were moved / rotated / re-surfaced in place following a first mapping; '
                'a case is distinct by its pair of geometry recipes and non-trivial when the target has underground blocks')
    ctx.trusted += ['Coq 8.16.1 kernel (coqc); vm_compute only for closed witnesses/examples; no native_compute',
                    'coq/C19/Transfer.v, Generators.v: hand-written model of mulgrid.column_mapping/layer_mapping/block_mapping, block naming, '
                    'setup_block_name_index (layer_column order), t2incon.transfer_from and t2data.transfer_generators_from; validated against the '
                    'implementation on every run (correspondence), not verified against the Python source',
                    'the nearest-neighbour search (scipy cKDTree / numpy argmin of norms) enters the theorems only through the hypothesis nearest_spec; '
                    'that the real search satisfies it is checked by the oracle (brute force), not proved',
                    'extraction: ExtrOcamlBasic + ExtrOcamlString, OCaml 4.13.1, ocaml/main.ml',
                    'tools/props/c19_geo.py: extraction of abstract geometries from mulgrid objects (doubles scaled exactly to integers by a common power of two)']
    ctx.assumptions += ['real-number vs double arithmetic: distances are compared exactly in the model; model and implementation are compared only on '
                        'target blocks whose nearest source column is unique by a relative margin 1e-9 and whose layer distances are exact or separated by the same margin',
                        'column.num_layers is the cached count set by set_column_num_layers (part of wf; C10 territory)',
                        'block_order None/layer_column; atmosphere_type in {0,1,2}; names have the lengths of their convention',
                        'source t2incon lists its blocks in the geometry block order (sourceinc[0] is the atmosphere block for a type-0 source)',
                        "transfer_generators_from: incols (point-in-column search) and grid block volumes are inputs of the model, taken from the implementation"]
    ctx.stage()
    ok = ctx.coq_build(props=('Props.v', 'Props2.v', 'Props3.v'), timeout=600)
    exe = vf.build_driver(ctx)
    n = 1200 if ctx.thorough else 150
    t0 = time.time()
    pairs, skipped = make_pairs(ctx, n)
    ctx.log('%d geometry pairs built in %.1fs (%d generation attempts skipped)' % (len(pairs), time.time() - t0, skipped))
    ships = {}
    for p in pairs:
        for sp in (p.sspec, p.dspec):
            f = sp['base'].get('file')
            if f: ships[f] = ships.get(f, 0) + 1
    ctx.extra['input_distribution'] = {'pairs': len(pairs), 'generation_skipped': skipped,
                                       'target_blocks_total': sum(p.dst.num_blocks for p in pairs),
                                       'shipped_geometry_uses': ships,
                                       'conventions_source_target': dict(sorted(
                                           (k, sum(1 for p in pairs if '%d->%d' % (p.src.convention, p.dst.convention) == k))
                                           for k in set('%d->%d' % (p.src.convention, p.dst.convention) for p in pairs)))}
    nbig = [0]
    if exe:
        for lo in range(0, len(pairs), 200):
            chunk = pairs[lo:lo + 200]
            try: correspond_mapping(ctx, exe, chunk)
            except Exception as e:      # an object the encoding cannot handle: a disagreement, not a crash; the oracle below finds the input
                ctx.disagreement('correspond_mapping-runs', {'note': 'correspondence could not be evaluated'}, 'evaluable', repr(e)[:300])
            ctx.log('  mapping correspondence done')
            jobs = []
            for i, p in enumerate(chunk):
                # the model's association lists make one transfer cost ~ target blocks x (source + target blocks)
                if p.dst.num_blocks * (p.src.num_blocks + p.dst.num_blocks) > 3e7:
                    nbig[0] += 1
                    if nbig[0] > (8 if ctx.thorough else 2): continue
                case = {'nvar': 1 + (lo + i) % 6, 'vseed': 1000 + lo + i}
                jobs.append((p, case))
                if O.atm_finding_class(p.src, p.dst): jobs.append((p, dict(case, explicit=True)))
            try: correspond_incon(ctx, exe, jobs)
            except Exception as e:      # an object the encoding cannot handle: a disagreement, not a crash; the oracle below finds the input
                ctx.disagreement('correspond_incon-runs', {'note': 'correspondence could not be evaluated'}, 'evaluable', repr(e)[:300])
            ctx.log('  incon correspondence done')
            gjobs = []
            for i, p in enumerate(chunk):
                if p.src.num_blocks > 4000 or p.dst.num_blocks > 4000 or O.atm_finding_class(p.src, p.dst): continue
                ok_, uc, cl = p.comparable()
                if len(uc) != p.dst.num_columns or len(cl) != p.dst.num_layers - 1: continue
                gjobs.append((p, {'gseed': 500 + lo + i, 'rename': bool((lo + i) & 1), 'preserve': bool((lo + i) & 2)}))
            try: correspond_generators(ctx, exe, gjobs)
            except Exception as e:      # an object the encoding cannot handle: a disagreement, not a crash; the oracle below finds the input
                ctx.disagreement('correspond_generators-runs', {'note': 'correspondence could not be evaluated'}, 'evaluable', repr(e)[:300])
            try: correspond_data(ctx, exe, [(p, dict(c, gseed=c['gseed'] + 300)) for p, c in gjobs])
            except Exception as e:      # an object the encoding cannot handle: a disagreement, not a crash; the oracle below finds the input
                ctx.disagreement('correspond_data-runs', {'note': 'correspondence could not be evaluated'}, 'evaluable', repr(e)[:300])
        ctx.log('correspondence done at %.1fs' % (time.time() - ctx.t0))
    oracle(ctx, pairs)

    def deep(broken):
        if ctx.thorough: return
        ctx.rng = random.Random(ctx.seed + 4242)
        more, _ = make_pairs(ctx, 400)
        oracle(ctx, more, seed_base=7000)
    return ctx.finish(deep_search=deep)


def replay(ctx, data):
    inp = data.get('input') or {}
    kind = inp.get('kind')
    if kind is None: return True
    before = lambda: len(ctx.new_failures) + len(ctx.findings_seen) + sum(d.get('failures', 0) for d in ctx.oracle.values())
    n0 = before()
    if kind == 'generators':
        g1 = G.build_geo(inp['geo'], ctx.repo); g2 = O.identical_copy(inp['geo'], g1, ctx.repo)
        O.check_generators_identity(ctx, inp, g1, g2)
    elif kind == 'repeat':
        O.check_repeat(ctx, inp, G.build_geo(inp['src'], ctx.repo), G.build_geo(inp['dst'], ctx.repo))
    elif kind == 'data':
        O.check_data_transfer(ctx, inp, G.build_geo(inp['src'], ctx.repo), G.build_geo(inp['dst'], ctx.repo))
    elif kind == 'sequence':
        O.check_sequence(ctx, inp, G.build_geo(inp['src'], ctx.repo), G.build_geo(inp['dst'], ctx.repo), ctx.repo)
    else:
        src = G.build_geo(inp['src'], ctx.repo); dst = G.build_geo(inp['dst'], ctx.repo)
        if kind == 'incon': O.check_incon(ctx, inp, src, dst, ctx.repo)
        else:
            O.check_mapping(ctx, inp, src, dst)
            if inp.get('which'): O.check_self_identity(ctx, inp, inp['which'], src if inp['which'] == 'src' else dst)
    recs = list(ctx.findings_seen.values()) + ctx.new_failures
    for r in recs[:3]: print('replay: %s: observed %s ; required %s' % (r['key'], r['observed'], r['required']))
    return before() > n0
