"""C12: worker-side code.  Runs the implementation (public entry points of mulgrid) on
generated points / 3-D points / lines, evaluates the property statement on the results
(oracle, independent of the Coq model) and prepares the wire queries for the model.

Everything here is a pure function of (spec, seed, ...) so that it can run in forked
worker processes and be replayed."""
import os, sys, json, math, random, traceback
import numpy as np
from fractions import Fraction
from c12_exact import fr, fpt, contains, clip_params, runs_along_edge
from c12_geos import GeoCtx, q2, ptstr

_CACHE = {}


def get_ctx(spec, repo):
    key = json.dumps(spec, sort_keys=True)
    if key not in _CACHE:
        if len(_CACHE) > 3: _CACHE.clear()
        _CACHE[key] = GeoCtx(spec, repo)
    return _CACHE[key]


# ---------------------------------------------------------------------------
# points
def gen_point(G, rng):
    """(pos, class)"""
    b = G.bounds
    w, h = b[2] - b[0], b[3] - b[1]
    u = rng.random()
    if u < 0.40:     # uniform in the slightly inflated bounding box
        return [rng.uniform(b[0] - 0.08 * w, b[2] + 0.08 * w), rng.uniform(b[1] - 0.08 * h, b[3] + 0.08 * h)], 'uniform'
    if u < 0.65:     # inside a random column (so that small columns get their share)
        i = G.pick(rng)
        P = G.polyg[i]
        ws = [rng.random() + 0.05 for _ in P]
        s = sum(ws)
        return [sum(wk * p[0] for wk, p in zip(ws, P)) / s, sum(wk * p[1] for wk, p in zip(ws, P)) / s], 'in-column'
    if u < 0.80:     # level with a vertex: the ray of the crossing test passes through vertices
        i = G.pick(rng)
        P = G.polyg[i]
        ws = [rng.random() + 0.05 for _ in P]
        s = sum(ws)
        x = sum(wk * p[0] for wk, p in zip(ws, P)) / s
        j = rng.choice(G.nbrs(i) + [G.cols[i]])
        v = rng.choice(G.polyg[G.index[id(j)]])
        if rng.random() < 0.3: x = b[0] - rng.uniform(0.01, 0.3) * w     # outside, to the left
        return [x, v[1]], 'level-with-vertex'
    if u < 0.90:     # close to (but not within tolerance of) an edge
        i = G.pick(rng)
        P = G.polyg[i]
        k = rng.randrange(len(P))
        a, c = P[k], P[(k + 1) % len(P)]
        t = rng.uniform(0.02, 0.98)
        ex, ey = c[0] - a[0], c[1] - a[1]
        L = math.hypot(ex, ey) or 1.0
        off = rng.choice([-1, 1]) * L * 10 ** rng.uniform(-4.5, -1.5)
        return [a[0] + t * ex - ey / L * off, a[1] + t * ey + ex / L * off], 'near-edge'
    if u < 0.95:     # far outside
        side = rng.randrange(4)
        x = rng.uniform(b[0] - w, b[2] + w); y = rng.uniform(b[1] - h, b[3] + h)
        if side == 0: x = b[0] - rng.uniform(0.01, 2) * w
        elif side == 1: x = b[2] + rng.uniform(0.01, 2) * w
        elif side == 2: y = b[1] - rng.uniform(0.01, 2) * h
        else: y = b[3] + rng.uniform(0.01, 2) * h
        return [x, y], 'outside'
    # on a quadtree split line of the root (exactly when representable)
    x = rng.uniform(b[0], b[2]); y = rng.uniform(b[1], b[3])
    f = rng.choice([0.5, 0.25, 0.75, 0.125])
    if rng.random() < 0.5: x = b[0] + f * w
    else: y = b[1] + f * h
    return [x, y], 'split-line'


def make_aids(G, rng, T):
    """The search-aid combinations tried for one point.  T: index of the containing column or None."""
    n = G.n
    cols = G.cols
    right = T if T is not None else G.pick(rng)
    nb = G.nbrs(right)       # in columnlist order (a set of objects iterates in address order: not reproducible)
    nbr = G.index[id(rng.choice(nb))] if nb else G.pick(rng)
    far = G.pick(rng)

    def subset():
        k = max(1, int(n * rng.choice([0.05, 0.2, 0.5])))
        s = set(G.order[r] for r in rng.sample(range(n), min(n, k)))
        if T is not None: s.add(T)
        return sorted(s)

    def bounds():
        if G.bpoly is not None and rng.random() < 0.5:
            return ['P', [[float(p[0]), float(p[1])] for p in G.bpoly], 'own']
        m = rng.choice([0.0, 0.0, 0.01]) * G.scale
        b = G.bounds
        return ['R', [b[0] - m, b[1] - m, b[2] + m, b[3] + m]]
    aids = [
        {'name': 'none'},
        {'name': 'guess-right', 'guess': right},
        {'name': 'guess-neighbour', 'guess': nbr},
        {'name': 'guess-far', 'guess': far},
        {'name': 'bounds', 'bounds': bounds()},
        {'name': 'subset', 'columns': subset()},
        {'name': 'qtree', 'qtree': True},
    ]
    if G.bpoly is not None:
        # the geometry's OWN boundary polygon as the bounding polygon (what fit_columns etc. pass): always tried
        aids.append({'name': 'own-boundary', 'bounds': ['P', [[float(p[0]), float(p[1])] for p in G.bpoly], 'own']})
    combo = {'name': 'combo'}
    if rng.random() < 0.6: combo['guess'] = rng.choice([right, nbr, far])
    if rng.random() < 0.5: combo['bounds'] = bounds()
    if rng.random() < 0.5: combo['columns'] = subset()
    if rng.random() < 0.6: combo['qtree'] = True
    aids.append(combo)
    return aids


def bounds_ok(G, aid, posq, T):
    """premise 'the bounding polygon contains the answer' (exact)"""
    b = aid.get('bounds')
    if b is None or T is None: return True
    if len(b) > 2 and b[2] == 'own' and not G.spec.get('delete') and not getattr(G, 'columns_deleted', False):
        # geo.boundary_polygon of a geometry without deleted columns (one piece, no holes) bounds every column of the
        # geometry: the premise holds by construction, whatever polygon the implementation computed.  Once a column
        # has been deleted (by the spec or by an edit step of a sequence) the outline may describe only part of the
        # geometry, and the premise is checked exactly below like for any other polygon.
        return True
    if b[0] == 'R':
        x0, y0, x1, y1 = [fr(v) for v in b[1]]
        return x0 <= posq[0] <= x1 and y0 <= posq[1] <= y1
    return contains([fpt(p) for p in b[1]], posq)


def call_ccp(G, pos, aid):
    g = G.geo
    kw = {}
    if aid.get('guess') is not None: kw['guess'] = G.cols[aid['guess']]
    if aid.get('columns') is not None: kw['columns'] = [G.cols[i] for i in aid['columns']]
    if aid.get('bounds') is not None:
        b = aid['bounds']
        if b[0] == 'R': kw['bounds'] = [np.array(b[1][0:2]), np.array(b[1][2:4])]
        else: kw['bounds'] = [np.array(p) for p in b[1]]
    if aid.get('qtree'): kw['qtree'] = G.q
    apos = np.array(pos)
    keep_pos = apos.copy()
    keep_cols = list(kw['columns']) if 'columns' in kw else None
    keep_bounds = [np.array(b).copy() for b in kw['bounds']] if 'bounds' in kw else None
    ncols = len(g.columnlist)
    try:
        r = g.column_containing_point(apos, **kw)
    except Exception as e:
        return 'RAISE ' + type(e).__name__
    # caller-owned arguments and the geometry's own column list are left as they were
    if not np.array_equal(keep_pos, apos) or (keep_cols is not None and (len(keep_cols) != len(kw['columns']) or any(a is not b for a, b in zip(keep_cols, kw['columns'])))) \
            or (keep_bounds is not None and any(not np.array_equal(a, b) for a, b in zip(keep_bounds, kw['bounds']))) \
            or len(g.columnlist) != ncols:
        return 'RAISE ArgumentsModified'
    if r is not None and id(r) not in G.index: return 'RAISE ColumnNotInGeometry'
    return None if r is None else G.index[id(r)]


def aid_wire(pos, aid):
    b = aid.get('bounds')
    if b is None: bs = '-'
    elif b[0] == 'R': bs = 'R' + ' '.join(q2(v) for v in b[1])
    else: bs = 'P' + ' '.join(ptstr(p) for p in b[1])
    return ';'.join(['C', ptstr(pos),
                     '-' if aid.get('guess') is None else str(aid['guess'] + 1),
                     '-' if aid.get('columns') is None else ' '.join(str(i + 1) for i in aid['columns']),
                     bs, '1' if aid.get('qtree') else '0'])


def rects_meet(a, b):
    return not (a[1][0] < b[0][0] or b[1][0] < a[0][0] or a[1][1] < b[0][1] or b[1][1] < a[0][1])


def connected_near(G, pos, T):
    """Hypothesis of search_aids_agree, evaluated on the implementation's own quadtree:
    the containing column T is reachable from the elements of the leaf for pos through
    neighbours (inside the tree) whose bounding boxes meet the leaf bounds."""
    lf = G.q.leaf(np.array(pos))
    if lf is None: return False
    lb = [[float(lf.bounds[0][0]), float(lf.bounds[0][1])], [float(lf.bounds[1][0]), float(lf.bounds[1][1])]]
    seen = set(G.index[id(e)] for e in lf.elements)
    todo = list(seen)
    allE = G.q.all_elements
    while todo:
        i = todo.pop()
        if i == T: return True
        for nb in G.cols[i].neighbour:
            if nb not in allE: continue
            j = G.index[id(nb)]
            if j in seen: continue
            bb = G.bb[j]
            if rects_meet([[bb[0], bb[1]], [bb[2], bb[3]]], lb):
                seen.add(j); todo.append(j)
    return T in seen


def eval_point(G, pos, aids, cls, out, check_corr=True):
    """Oracle for one point; appends failures to out['failures'], wire queries to out['queries'] and
    the implementation's canonical answers to out['impl']."""
    posq = fpt(pos)
    Tset = G.truth(pos)
    npos = np.array(pos)
    exh = [i for i, c in enumerate(G.cols) if c.contains_point(npos)]
    cnt = out['counts']
    tiling = len(Tset) <= 1 and len(exh) <= 1
    cnt['tiling_true' if tiling else 'tiling_false'] += 1
    T = Tset[0] if len(Tset) == 1 else None
    inp0 = {'geometry': G.spec, 'pos': [float(pos[0]), float(pos[1])], 'class': cls}
    if sorted(exh) != sorted(Tset):
        out['failures'].append(('exhaustive-contains', 'in_polygon:misclassifies-point', dict(inp0),
                                'col.contains_point true for columns %s' % [G.cols[i].name for i in exh],
                                'the point lies in columns %s (exact rational test)' % [G.cols[i].name for i in Tset]))
    if len(Tset) > 1:
        cnt['overlapping_columns'] += 1
        return
    cn = None
    if T is not None:
        cn = connected_near(G, pos, T)
        cnt['connected_near_true' if cn else 'connected_near_false'] += 1
    else:
        cnt['outside_points'] += 1
    plain = None
    for k, aid in enumerate(aids):
        if not bounds_ok(G, aid, posq, T):
            cnt['aid_premise_unmet'] += 1
            continue
        r = call_ccp(G, pos, aid)
        cnt['queries'] += 1
        if check_corr:
            out['queries'].append(aid_wire(pos, aid))
            out['impl'].append('N' if r is None else (r if isinstance(r, str) else str(r + 1)))
            out['meta'].append({'pos': inp0['pos'], 'aid': aid, 'class': cls, 'kind': 'C'})
        if k == 0: plain = r
        if r == T: continue
        inp = dict(inp0); inp['aid'] = aid
        obs = 'column_containing_point -> %s' % (r if isinstance(r, str) or r is None else repr(G.cols[r].name))
        req = 'the containing column %s (exhaustive exact search); plain search gave %s' % (
            None if T is None else repr(G.cols[T].name),
            plain if isinstance(plain, str) or plain is None else repr(G.cols[plain].name))
        if isinstance(r, str):
            key = 'column_containing_point:raises'
        elif r is not None and T is None:
            key = 'column_containing_point:outside-point-gets-column'
        elif r is not None:
            key = 'column_containing_point:reported-column-does-not-contain-point'
        elif aid.get('qtree') and cn is False:
            key = 'quadtree.search:container-unreachable-from-leaf'
        elif aid.get('qtree'):
            key = 'quadtree.search:misses-reachable-container'
        else:
            key = 'column_containing_point:%s-misses-column' % aid['name']
        out['failures'].append(('aids-agree', key, inp, obs, req))


def point_task(args):
    spec, repo, seed, n, forced = args
    try:
        return _point_task(spec, repo, seed, n, forced)
    except Exception:
        return {'crash': traceback.format_exc()}


def new_out():
    from collections import Counter
    return {'failures': [], 'queries': [], 'impl': [], 'meta': [], 'counts': Counter(), 'samples': []}


def _point_task(spec, repo, seed, n, forced):
    G = get_ctx(spec, repo)
    rng = random.Random(seed)
    out = new_out()
    cnt = out['counts']
    done = 0
    tries = 0
    while done < n and tries < 20 * n + 100:
        tries += 1
        pos, cls = gen_point(G, rng)
        cl = G.edge_clearance(pos)
        if cl < 1.0:
            cnt['discarded_too_close_to_edge'] += 1
            continue
        done += 1
        cnt['class:' + cls] += 1
        Tset = G.truth(pos)
        T = Tset[0] if len(Tset) == 1 else None
        aids = make_aids(G, rng, T)
        eval_point(G, pos, aids, cls, out)
        # exhaustive containment list and leaf, for the correspondence
        npos = np.array(pos)
        out['queries'].append('E;' + ptstr(pos))
        out['impl'].append(' '.join(str(i + 1) for i, c in enumerate(G.cols) if c.contains_point(npos)))
        out['meta'].append({'pos': pos, 'kind': 'E'})
        lf = G.q.leaf(npos)
        out['queries'].append('L;' + ptstr(pos))
        out['impl'].append(leaf_canon(G, lf))
        out['meta'].append({'pos': pos, 'kind': 'L', 'near_split': near_split(G, npos)})
        if done <= 2:
            out['samples'].append({'geometry': spec.get('label'), 'pos': pos, 'class': cls,
                                   'containing_column': None if T is None else G.cols[T].name})
    cnt['points'] += done
    out['wire'] = G.wire()
    out['ncols'] = G.n
    out['cmag'] = max(G.cmag, G.scale, 1.0)
    return out


def leaf_canon(G, lf):
    if lf is None: return 'N'
    b = lf.bounds
    return '%r %r %r %r:%s' % (float(b[0][0]), float(b[0][1]), float(b[1][0]), float(b[1][1]),
                                ' '.join(str(G.index[id(e)] + 1) for e in lf.elements))


def near_split(G, npos):
    """True when, on the implementation's path root -> leaf for this point, the point or an
    element centre lies within rounding distance of a split line of a node (the exact model
    and the double implementation may then file it differently)."""
    t = G.q
    eps = 1e-9 * max(G.scale, G.cmag)
    exact_above = True      # every split above this node was computed without rounding (model bounds == implementation bounds)
    while True:
        b = t.bounds
        if not (b[0][0] <= npos[0] <= b[1][0] and b[0][1] <= npos[1] <= b[1][1]):
            # outside this node: only the boundary matters
            return min(abs(npos[0] - b[0][0]), abs(npos[0] - b[1][0]), abs(npos[1] - b[0][1]), abs(npos[1] - b[1][1])) < eps
        if min(abs(npos[0] - b[0][0]), abs(npos[0] - b[1][0]), abs(npos[1] - b[0][1]), abs(npos[1] - b[1][1])) < eps:
            exact = (npos[0] in (b[0][0], b[1][0])) or (npos[1] in (b[0][1], b[1][1]))
            if not exact: return True
        cx, cy = 0.5 * (b[0][0] + b[1][0]), 0.5 * (b[0][1] + b[1][1])
        ex = exact_above and (fr(b[0][0]) + fr(b[1][0])) / 2 == fr(cx) and (fr(b[0][1]) + fr(b[1][1])) / 2 == fr(cy)
        if not exact_above:
            # the model's rectangle differs from this one by rounding: a point on its border may be filed differently
            if min(abs(npos[0] - b[0][0]), abs(npos[0] - b[1][0]), abs(npos[1] - b[0][1]), abs(npos[1] - b[1][1])) < eps: return True
        if len(t.elements) > 1:
            for e in t.elements:
                dx, dy = abs(e.centre[0] - cx), abs(e.centre[1] - cy)
                if (dx < eps and not (ex and dx == 0.0)) or (dy < eps and not (ex and dy == 0.0)): return True
            dx, dy = abs(npos[0] - cx), abs(npos[1] - cy)
            if (dx < eps and not (ex and dx == 0.0)) or (dy < eps and not (ex and dy == 0.0)): return True
            if not ex: pass
        nxt = None
        for c in t.child:
            cb = c.bounds
            if cb[0][0] <= npos[0] <= cb[1][0] and cb[0][1] <= npos[1] <= cb[1][1]:
                nxt = c; break
        if nxt is None: return False
        exact_above = ex
        t = nxt


# ---------------------------------------------------------------------------
# band points (nearly horizontal edges)
def band_task(args):
    spec, repo, seed, n = args
    try:
        G = get_ctx(spec, repo)
        rng = random.Random(seed)
        out = new_out()
        cnt = out['counts']
        cands = []
        for i in G.order:
            P = G.polyg[i]
            for k in range(len(P)):
                a, b = P[k], P[(k + 1) % len(P)]
                dy = b[1] - a[1]
                if 0 < abs(dy) <= 1e-5: cands.append((i, a, b))
        cnt['band_edges'] += len(cands)
        for _ in range(n):
            if not cands: break
            i, a, b = rng.choice(cands)
            y = min(a[1], b[1]) + rng.uniform(0.05, 0.95) * abs(b[1] - a[1])
            if rng.random() < 0.25: y = min(a[1], b[1])
            w = G.bounds[2] - G.bounds[0]
            x = rng.choice([G.bounds[0] - rng.uniform(0.5, 3) * w, G.bounds[2] + rng.uniform(0.5, 3) * w,
                            G.bounds[0] - rng.uniform(0.5, 3) * w])
            pos = [x, y]
            if G.edge_clearance(pos) < 1.0:
                cnt['discarded_too_close_to_edge'] += 1; continue
            cnt['class:flat-edge-band'] += 1
            aids = [{'name': 'none'}, {'name': 'guess-band-column', 'guess': i}, {'name': 'qtree', 'qtree': True},
                    {'name': 'guess-band-column+qtree', 'guess': i, 'qtree': True}]
            eval_point(G, pos, aids, 'flat-edge-band', out)
            cnt['points'] += 1
        out['wire'] = G.wire()
        out['ncols'] = G.n
        return out
    except Exception:
        return {'crash': traceback.format_exc()}


# ---------------------------------------------------------------------------
# 3-D points -> blocks
def block_task(args):
    spec, repo, seed, n = args
    try:
        return _block_task(spec, repo, seed, n)
    except Exception:
        return {'crash': traceback.format_exc()}


def expected_block(G, T, z):
    """(layer index, column index) of the block containing (pos, z) by exhaustive search over
    layers for the exactly located column T, with PyTOUGH's convention that a block spans its
    whole layer interval (top block: up to the column surface).  Returns (block or None, strict)
    where strict is False when z lies above the column surface inside the surface layer."""
    g = G.geo
    if T is None: return None, True
    col = G.cols[T]
    lays = g.layerlist
    hits = []
    for li in range(1, len(lays)):
        lay = lays[li]
        if not (col.surface > lay.bottom): continue         # no such block
        top = lay.top
        if li == 1 and col.surface > lay.top: top = col.surface
        if lay.bottom < z < top: hits.append(li)
    if len(hits) != 1: return None, True
    return (hits[0], T), not (z > col.surface)


def _block_task(spec, repo, seed, n):
    G = get_ctx(spec, repo)
    g = G.geo
    rng = random.Random(seed)
    out = new_out()
    cnt = out['counts']
    lays = g.layerlist
    if len(lays) < 2:
        out['wire'] = G.wire(); out['ncols'] = G.n
        return out
    top, bot = lays[0].bottom, lays[-1].bottom
    done = tries = 0
    ztol = 1e-6 * max(1.0, abs(top - bot))
    while done < n and tries < 20 * n + 100:
        tries += 1
        pos, cls = gen_point(G, rng)
        if G.edge_clearance(pos) < 1.0:
            cnt['discarded_too_close_to_edge'] += 1; continue
        Tset = G.truth(pos)
        if len(Tset) > 1: continue
        T = Tset[0] if Tset else None
        u = rng.random()
        surf = G.cols[T].surface if T is not None else top
        if u < 0.55:
            li = rng.randrange(1, len(lays))
            z = rng.uniform(lays[li].bottom, lays[li].top); zc = 'in-layer'
        elif u < 0.65: z = top + rng.uniform(0.01, 50.0); zc = 'above-top'
        elif u < 0.75: z = bot - rng.uniform(0.01, 50.0); zc = 'below-bottom'
        elif u < 0.90: z = surf - rng.uniform(0.001, 1.0) * max(1.0, abs(surf - bot)) * 0.3; zc = 'below-surface'
        else: z = surf + rng.uniform(0.001, 5.0); zc = 'above-surface'
        bad = [abs(z - l.bottom) for l in lays] + [abs(z - l.top) for l in lays] + [abs(z - surf)]
        if min(bad) < ztol:
            cnt['discarded_too_close_to_layer_boundary'] += 1; continue
        done += 1
        exp, strict = expected_block(G, T, z)
        cnt['z:' + zc] += 1
        if not strict: cnt['z-above-surface-inside-surface-layer'] += 1
        p3 = np.array([pos[0], pos[1], z])
        for useq in (False, True):
            try:
                r = g.block_name_containing_point(p3, qtree=G.q if useq else None)
            except Exception as e:
                r = 'RAISE ' + type(e).__name__
            cnt['queries'] += 1
            want = None if exp is None else g.block_name(lays[exp[0]].name, G.cols[exp[1]].name)
            # wire
            out['queries'].append('B;%s;%s;%d' % (ptstr(pos), q2(z), 1 if useq else 0))
            if r is None: out['impl'].append('N')
            elif r.startswith('RAISE'): out['impl'].append(r)
            else:
                # canonical (layer index, column) of the returned name
                found = [(li, ci) for li in range(1, len(lays)) for ci in ([T] if T is not None else [])
                         if g.block_name(lays[li].name, G.cols[ci].name) == r]
                out['impl'].append('%d %d' % (found[0][0], found[0][1] + 1) if found else 'NAME ' + r)
            out['meta'].append({'pos': pos, 'z': z, 'qtree': useq, 'kind': 'B'})
            if r == want: continue
            inp = {'geometry': spec, 'pos': [float(pos[0]), float(pos[1])], 'z': float(z), 'qtree': useq}
            if useq and T is not None and not connected_near(G, pos, T):
                key = 'quadtree.search:container-unreachable-from-leaf'
            elif isinstance(r, str) and r.startswith('RAISE'): key = 'block_name_containing_point:raises'
            else: key = 'block_name_containing_point:wrong-block-%s' % zc
            out['failures'].append(('block-unique', key, inp, 'block_name_containing_point -> %r' % (r,),
                                    'the unique block containing the point: %r' % (want,)))
        # block_contains_point agrees for the reported block (not in the top case above layer 1)
        if exp is not None and not (exp[0] == 1 and z > lays[1].top):
            nm = g.block_name(lays[exp[0]].name, G.cols[exp[1]].name)
            try: bc = bool(g.block_contains_point(nm, p3))
            except Exception as e: bc = 'RAISE ' + type(e).__name__
            out['queries'].append('X;%d;%d;%s;%s' % (exp[0], exp[1] + 1, ptstr(pos), q2(z)))
            out['impl'].append('1' if bc is True else ('0' if bc is False else bc))
            out['meta'].append({'pos': pos, 'z': z, 'kind': 'X'})
            if bc is not True:
                out['failures'].append(('block-unique', 'block_contains_point:denies-containing-block',
                                        {'geometry': spec, 'pos': pos, 'z': z, 'block': nm},
                                        'block_contains_point -> %r' % (bc,), 'True'))
        if done <= 1:
            out['samples'].append({'geometry': spec.get('label'), 'pos3d': [pos[0], pos[1], z], 'z-class': zc,
                                   'block': None if exp is None else g.block_name(lays[exp[0]].name, G.cols[exp[1]].name)})
    cnt['points3d'] += done
    out['wire'] = G.wire()
    out['ncols'] = G.n
    return out


# ---------------------------------------------------------------------------
# lines -> tracks
def gen_line(G, rng):
    b = G.bounds
    w, h = b[2] - b[0], b[3] - b[1]

    def anywhere(m):
        return [rng.uniform(b[0] - m * w, b[2] + m * w), rng.uniform(b[1] - m * h, b[3] + m * h)]

    def incol():
        i = G.pick(rng)
        P = G.polyg[i]
        ws = [rng.random() + 0.05 for _ in P]
        s = sum(ws)
        return [sum(wk * p[0] for wk, p in zip(ws, P)) / s, sum(wk * p[1] for wk, p in zip(ws, P)) / s]
    u = rng.random()
    if u < 0.2:
        # a line that clips a corner of a column by a chosen fraction of the column's longest side,
        # around the 1e-3 tolerance of column_track
        i = G.pick(rng)
        P = G.polyg[i]
        n = len(P)
        k = rng.randrange(n)
        V, A, B = P[k], P[k - 1], P[(k + 1) % n]
        la, lb = math.hypot(A[0] - V[0], A[1] - V[1]), math.hypot(B[0] - V[0], B[1] - V[1])
        if la > 0 and lb > 0:
            ea, eb = ((A[0] - V[0]) / la, (A[1] - V[1]) / la), ((B[0] - V[0]) / lb, (B[1] - V[1]) / lb)
            r = rng.choice([0.4e-3, 0.75e-3, 0.9e-3, 1.1e-3, 1.1e-3, 1.2e-3, 1.2e-3, 1.3e-3, 1.4e-3, 2e-3, 5e-3]) * G.maxside[i]
            # points on the two sides at distances a, b from the corner with |chord| = r
            th = rng.uniform(0.25, 0.75)
            cosv = ea[0] * eb[0] + ea[1] * eb[1]
            # chord^2 = a^2 + b^2 - 2ab cos; take a = th*q, b = (1-th)*q
            den = th * th + (1 - th) * (1 - th) - 2 * th * (1 - th) * cosv
            if den > 1e-12:
                q = r / math.sqrt(den)
                ca, cb = th * q, (1 - th) * q
                if ca < 0.4 * la and cb < 0.4 * lb:
                    pa = (V[0] + ca * ea[0], V[1] + ca * ea[1]); pb = (V[0] + cb * eb[0], V[1] + cb * eb[1])
                    dx, dy = (pb[0] - pa[0]) / r, (pb[1] - pa[1]) / r
                    ext = G.maxside[i]
                    e0, e1 = rng.uniform(0.05, 1.5) * ext, rng.uniform(0.05, 1.5) * ext
                    p0 = [pa[0] - e0 * dx, pa[1] - e0 * dy]; p1 = [pb[0] + e1 * dx, pb[1] + e1 * dy]
                    return (p0, p1, 'corner-clip') if rng.random() < 0.5 else (p1, p0, 'corner-clip')
        return anywhere(0.15), anywhere(0.15), 'random'
    if u < 0.35: return anywhere(0.15), anywhere(0.15), 'random'
    if u < 0.6: return incol(), incol(), 'inside-inside'
    if u < 0.75: return incol(), anywhere(0.3), 'inside-any'
    if u < 0.85: return anywhere(0.3), incol(), 'any-inside'
    if u < 0.93:      # short line inside one column or between neighbours
        i = G.pick(rng)
        P = G.polyg[i]

        def pin():
            ws = [rng.random() + 0.05 for _ in P]; s = sum(ws)
            return [sum(wk * p[0] for wk, p in zip(ws, P)) / s, sum(wk * p[1] for wk, p in zip(ws, P)) / s]
        return pin(), pin(), 'within-column'
    # end points outside on opposite sides
    p = [b[0] - rng.uniform(0.01, 0.5) * w, rng.uniform(b[1], b[3])]
    q = [b[2] + rng.uniform(0.01, 0.5) * w, rng.uniform(b[1], b[3])]
    return (p, q, 'through') if rng.random() < 0.5 else (q, p, 'through')


def track_task(args):
    spec, repo, seed, n = args[:4]
    forced = args[4] if len(args) > 4 else None
    try:
        return _track_task(spec, repo, seed, n, forced)
    except Exception:
        return {'crash': traceback.format_exc()}


def expected_track(G, l0, l1):
    """[(t_in, t_out, column index, nintervals)] sorted by entry parameter, exact"""
    F0, F1 = fpt(l0), fpt(l1)
    bb = G.bb
    lx0, lx1 = min(l0[0], l1[0]), max(l0[0], l1[0])
    ly0, ly1 = min(l0[1], l1[1]), max(l0[1], l1[1])
    idx = np.nonzero((bb[:, 2] >= lx0) & (bb[:, 0] <= lx1) & (bb[:, 3] >= ly0) & (bb[:, 1] <= ly1))[0]
    exp = []
    for i in idx:
        iv = clip_params(G.polyq[int(i)], F0, F1)
        if iv: exp.append((iv[0][0], iv[-1][1], int(i), len(iv), sum((b - a) for a, b in iv)))
    exp.sort()
    return exp


def check_track(G, l0, l1, tr, exp, fail):
    """The property statement for one line.  tr: implementation's track as [(col index, pin, pout)]."""
    L = math.hypot(l1[0] - l0[0], l1[1] - l0[1])
    d = (l1[0] - l0[0], l1[1] - l0[1])
    info = {}
    for tin, tout, i, niv, tl in exp:
        ln = float(tl) * L
        info[i] = (float(tin), float(tout), ln, ln / G.maxside[i])
    # "corner clips shorter than one thousandth of the clipped column's longest side are dropped by design":
    # a crossing longer than 1.05e-3 x longest side must be listed, one shorter than 0.95e-3 must not (5 % slack
    # for the doubles: entry/exit distances are differences of norms taken from the start of the line)
    must = [i for tin, tout, i, niv, tl in exp if info[i][3] > 1.05e-3]
    # (a column holding an end point of the line may be listed whatever the length: the column that holds the
    #  whole line is always listed by design, and that is no corner clip)
    may = set(i for tin, tout, i, niv, tl in exp if info[i][3] > 0.95e-3 or tin == 0 or tout == 1)
    got = [t[0] for t in tr]
    if len(set(got)) != len(got):
        fail('column_track:column-listed-twice', 'columns %s' % [G.cols[i].name for i in got], 'each crossed column once')
        return
    missing = [i for i in must if i not in got]
    extra = [i for i in got if i not in may]
    if missing:
        # classify.  Known defect (findings/C12-column-track-far-crossing.json): line_polygon_intersections
        # merges crossing points whose distances from the START of the line differ by less than 1e-3 of
        # max(distance of one of the crossings from the start, 1), so a column crossed far from the start
        # (relative to its own size) loses one of its two crossing points and is dropped.  The key is given
        # only when EVERY missing column is in that class (crossing length < 1.05e-3 x max(distance of its
        # exit point from the start, 1)); any other omission is a different failure.
        rhos = [info[i][2] / max(info[i][1] * L, 1.0) for i in missing]
        key = ('column_track:crossing-short-relative-to-distance-from-start' if max(rhos) < 1.05e-3
               else 'column_track:crossed-column-missing')
        fail(key, 'track omits %s (crossing length / longest side = %s; length / max(distance of exit from start, 1) = %s)' % (
            [G.cols[i].name for i in missing], ['%.3g' % info[i][3] for i in missing], ['%.3g' % r for r in rhos]),
            'every column crossed over more than 1e-3 (+5 %) x its longest side is listed')
        return
    if extra:
        fail('column_track:lists-uncrossed-column', 'track lists %s' % [G.cols[i].name for i in extra],
             'only columns the line crosses (crossing longer than 1e-3 (-5 %) x longest side) are listed')
        return
    # order along the line
    tins = [info[i][0] for i in got]
    if any(tins[k] > tins[k + 1] + 1e-12 for k in range(len(tins) - 1)):
        fail('column_track:not-ordered-along-line', 'entry parameters %s' % tins, 'non-decreasing')
        return
    # entry / exit points
    for (i, pin, pout) in tr:
        tin, tout, ln, ratio = info[i]
        ptol = 1e-6 * G.maxside[i] + 1e-9 * max(G.cmag, 1.0) + 1e-9 * L
        ein = (l0[0] + tin * d[0], l0[1] + tin * d[1])
        eout = (l0[0] + tout * d[0], l0[1] + tout * d[1])
        for nm, p, e in (('entry', pin, ein), ('exit', pout, eout)):
            off = abs((p[0] - l0[0]) * d[1] - (p[1] - l0[1]) * d[0]) / L
            if off > ptol:
                fail('column_track:%s-point-off-line' % nm, '%s point of %s is %.3g off the line' % (nm, G.cols[i].name, off), 'on the line')
                return
            if math.hypot(p[0] - e[0], p[1] - e[1]) > ptol:
                fail('column_track:wrong-%s-point' % nm, '%s point of %s is %r' % (nm, G.cols[i].name, [float(p[0]), float(p[1])]),
                     'where the line crosses the column boundary: %r' % (list(e),))
                return
    # consecutive segments abut when the crossed columns are adjacent along the line
    order = [i for tin, tout, i, niv, tl in exp]
    for k in range(len(tr) - 1):
        i, j = tr[k][0], tr[k + 1][0]
        if info[i][1] == info[j][0] or abs(info[i][1] - info[j][0]) * L < 1e-9 * max(L, 1.0):
            gap = math.hypot(tr[k][2][0] - tr[k + 1][1][0], tr[k][2][1] - tr[k + 1][1][1])
            ptol = 1e-6 * min(G.maxside[i], G.maxside[j]) + 1e-9 * max(G.cmag, 1.0) + 1e-9 * L
            if gap > 2 * ptol:
                fail('column_track:segments-do-not-abut', 'exit of %s and entry of %s are %.3g apart' % (G.cols[i].name, G.cols[j].name, gap), 'consecutive segments abut')
                return
    # lengths add up to the length inside the domain minus the dropped clips
    total = sum(math.hypot(t[2][0] - t[1][0], t[2][1] - t[1][1]) for t in tr)
    inside = sum(info[i][2] for i in info)
    dropped = sum(info[i][2] for i in info if i not in got)
    tol = 1e-6 * (max(G.maxside) if len(G.maxside) else 1.0) * max(1, len(tr)) + 1e-9 * max(G.cmag, 1.0) * max(1, len(tr)) + 1e-9 * L
    if abs(total - (inside - dropped)) > tol:
        fail('column_track:lengths-do-not-add-up', 'sum of segment lengths %.9g' % total,
             'length inside the domain %.9g minus dropped clips %.9g' % (inside, dropped))


def _track_task(spec, repo, seed, n, forced=None):
    """forced: a list of fixed lines [[l0, l1], ...] run instead of generated ones (witnesses of findings)"""
    from geometry import line_polygon_intersections, line_intersects_rectangle
    G = get_ctx(spec, repo)
    g = G.geo
    rng = random.Random(seed)
    out = new_out()
    out['tracks'] = []
    out['plines'], out['pimpl'], out['pmeta'] = [], [], []
    cnt = out['counts']
    done = tries = 0
    etol = 1e-6
    if forced is not None: n = len(forced)
    while done < n and tries < 20 * n + 100:
        tries += 1
        if forced is not None:
            if tries > len(forced): break
            l0, l1, cls = list(forced[tries - 1][0]), list(forced[tries - 1][1]), 'fixed-witness'
        else:
            l0, l1, cls = gen_line(G, rng)
        L = math.hypot(l1[0] - l0[0], l1[1] - l0[1])
        if L < 1e-6 * G.scale: continue
        if G.edge_clearance(l0) < 1.0 or G.edge_clearance(l1) < 1.0:
            cnt['discarded_endpoint_too_close_to_edge'] += 1; continue
        exp = expected_track(G, l0, l1)
        # lines that run along a column edge are outside the property
        along = False
        for tin, tout, i, niv, tl in exp:
            if runs_along_edge(G.polyf[i], l0, l1, 1e-6 * G.maxside[i] + 1e-9 * G.cmag): along = True; break
        if not along:
            # also edges of bounding-box-near columns that the line only touches
            lx0, lx1 = min(l0[0], l1[0]), max(l0[0], l1[0]); ly0, ly1 = min(l0[1], l1[1]), max(l0[1], l1[1])
            bb = G.bb
            for i in np.nonzero((bb[:, 2] >= lx0) & (bb[:, 0] <= lx1) & (bb[:, 3] >= ly0) & (bb[:, 1] <= ly1))[0]:
                if runs_along_edge(G.polyf[int(i)], l0, l1, 1e-6 * G.maxside[int(i)] + 1e-9 * G.cmag): along = True; break
        if along:
            cnt['discarded_line_along_edge'] += 1; continue
        if any(niv > 1 for tin, tout, i, niv, tl in exp):
            cnt['discarded_line_crosses_nonconvex_column_twice'] += 1; continue
        done += 1
        cnt['line:' + cls] += 1
        cnt['lines_crossing_%s' % ('0' if not exp else ('1' if len(exp) == 1 else 'many'))] += 1
        line = [np.array(l0), np.array(l1)]
        inp = {'geometry': spec, 'line': [list(map(float, l0)), list(map(float, l1))], 'class': cls}
        try:
            t = g.column_track(line)
            tr = [(G.index[id(c)], (float(a[0]), float(a[1])), (float(b[0]), float(b[1]))) for (c, a, b) in t]
        except Exception as e:
            out['failures'].append(('track', 'column_track:raises', inp, 'raises ' + repr(e)[:200], 'a track'))
            continue
        cnt['track_segments'] += len(tr)

        def fail(key, obs, req, inp=inp):
            out['failures'].append(('track', key, inp, obs, req))
        check_track(G, l0, l1, tr, exp, fail)
        if done <= 1:
            out['samples'].append({'geometry': spec.get('label'), 'line': [l0, l1], 'track': [G.cols[i].name for i, a, b in tr]})
        # wire for the assembly correspondence (per-column data from the implementation's helpers)
        if done <= max(3, n // 3):
            pc = []
            dtab = {}

            def dist(p):
                return float(np.linalg.norm(np.array(p) - line[0]))
            dtab[(float(l0[0]), float(l0[1]))] = dist(line[0])
            dtab[(float(l1[0]), float(l1[1]))] = dist(line[1])
            ok = True
            nprim = len(out['tracks']) < 12       # the two line primitives against their exact models, on the first lines
            for c in G.cols:
                bbox = c.bounding_box
                lir = bool(line_intersects_rectangle(bbox, line))
                pts = line_polygon_intersections(c.polygon, line) if lir else []
                for p in pts: dtab[(float(p[0]), float(p[1]))] = dist(p)
                pc.append(('1' if lir else '0') + ';' + ' '.join(ptstr(p) for p in pts) + ';' + q2(max(c.side_lengths)))
                if nprim:
                    out['plines'].append('lir\t%s %s\t%s %s' % (ptstr(bbox[0]), ptstr(bbox[1]), ptstr(l0), ptstr(l1)))
                    out['pimpl'].append('1' if lir else '0')
                    out['pmeta'].append(('line_intersects_rectangle', [list(map(float, bbox[0])), list(map(float, bbox[1]))], inp['line']))
                    if lir:
                        out['plines'].append('lpi\t%s %s\t%s' % (ptstr(l0), ptstr(l1), ' '.join(ptstr(p) for p in c.polygon)))
                        out['pimpl'].append({'pts': [[float(p[0]), float(p[1])] for p in pts],
                                             'poly': [[float(p[0]), float(p[1])] for p in c.polygon],
                                             'ambiguous': lpi_ambiguous(c.polygon, line)})
                        out['pmeta'].append(('line_polygon_intersections', c.name, inp['line']))
            out['tracks'].append({
                'line': ptstr(l0) + ' ' + ptstr(l1), 'percol': '|'.join(pc),
                'dtab': '|'.join(ptstr(k) + ' ' + q2(v) for k, v in dtab.items()),
                'impl': '|'.join('%d:%s:%s' % (i + 1, canon_pt(a), canon_pt(b)) for i, a, b in tr),
                'input': inp})
    cnt['lines'] += done
    out['wire'] = G.wire()
    out['ncols'] = G.n
    return out


def lpi_ambiguous(polygon, line):
    """True when, for some edge, a parameter of the 2 x 2 solution lies within 1e-7 of an acceptance
    threshold (-1e-9 or 1 + 1e-9) of line_polygon_intersections: the doubles and the exact model may then
    decide differently (line through a vertex / end point on an edge line)"""
    n = len(polygon)
    l1, l2 = line[0], line[1]
    for i in range(n):
        p1, p2 = polygon[i], polygon[(i + 1) % n]
        dp = p2 - p1
        A = np.column_stack((dp, l1 - l2)); b = l1 - p1
        try: xi = np.linalg.solve(A, b)
        except np.linalg.LinAlgError: continue
        for v in xi:
            if abs(v + 1e-9) < 1e-7 or abs(v - 1 - 1e-9) < 1e-7: return True
    return False


def lpi_merge(hits, l0, polygon):
    """The stated abstraction of the line model, applied to the model's hits (edge order): drop identical
    points, merge points whose distance from line[0] / longest side rounds to the same 3 decimals (first
    one kept), sort by that value.  Returns (points, ambiguous) -- ambiguous when a value is within 1e-6 of a
    rounding boundary."""
    n = len(polygon)
    size = max(float(np.linalg.norm(polygon[(i + 1) % n] - polygon[i])) for i in range(n))
    ind = {}
    for k, c in enumerate(hits): ind[(float(c[0]), float(c[1]))] = k
    crossings = [np.array(c) for c in ind]
    d = np.array([np.linalg.norm(c - l0) for c in crossings])
    if len(d) > 0 and size > 0: d = d / size
    amb = any(abs((v * 1000.0) % 1.0 - 0.5) < 1e-6 for v in d)
    d = d.round(decimals=3)
    du, iu = np.unique(d, return_index=True)
    return [crossings[iu[i]] for i in np.argsort(du)], amb


def canon_pt(p):
    a, b = fr(p[0]), fr(p[1])
    return '%d/%d %d/%d' % (a.numerator, a.denominator, b.numerator, b.denominator)


# ---------------------------------------------------------------------------
# primitives for the correspondence
def prim_task(args):
    spec, repo, seed, n = args
    try:
        return _prim_task(spec, repo, seed, n)
    except Exception:
        return {'crash': traceback.format_exc()}


def rect_wire(r):
    return ptstr(r[0]) + ' ' + ptstr(r[1])


def rect_canon(r):
    return canon_pt(r[0]) + ' ' + canon_pt(r[1])


def _prim_task(spec, repo, seed, n):
    from geometry import in_polygon, in_rectangle, rectangles_intersect, sub_rectangles, bounds_of_points
    G = get_ctx(spec, repo)
    rng = random.Random(seed)
    lines, impl, meta = [], [], []
    # quadtree nodes
    nodes = []

    def walk(t):
        nodes.append(t)
        for c in t.child: walk(c)
    walk(G.q)
    cnt = {'discarded_too_close_to_edge': 0}
    # hypothesis of in_polygon_convex / the chord theorems, measured once per geometry (exact): every three
    # vertices of the column in list order make a left turn
    from itertools import combinations
    nconv = 0
    for P in G.polyq:
        if len(P) >= 3 and all((b[0] - a[0]) * (c[1] - a[1]) - (b[1] - a[1]) * (c[0] - a[0]) > 0 for a, b, c in combinations(P, 3)):
            nconv += 1
    # ... and of in_polygon_convex_with_straight_angles: the same after dropping vertices (never the first of the
    # list) that lie strictly between their neighbours on a straight side
    def straighten(P):
        P = list(P)
        changed = True
        while changed and len(P) > 3:
            changed = False
            for k in range(1, len(P)):
                a, m, b = P[k - 1], P[k], P[(k + 1) % len(P)]
                cross = (m[0] - a[0]) * (b[1] - a[1]) - (m[1] - a[1]) * (b[0] - a[0])
                dot = (m[0] - a[0]) * (b[0] - m[0]) + (m[1] - a[1]) * (b[1] - m[1])
                if cross == 0 and dot > 0:
                    del P[k]; changed = True; break
        return P
    nstr = 0
    for P in G.polyq:
        Q = straighten(P)
        if len(Q) >= 3 and all((b[0] - a[0]) * (c[1] - a[1]) - (b[1] - a[1]) * (c[0] - a[0]) > 0 for a, b, c in combinations(Q, 3)):
            nstr += 1
    cnt['columns'] = G.n
    cnt['columns_strictly_convex_ccw'] = nconv
    cnt['columns_convex_ccw_after_straightening'] = nstr
    for _ in range(n):
        pos, cls = gen_point(G, rng)
        if G.edge_clearance(pos) < 1.0:
            cnt['discarded_too_close_to_edge'] += 1; continue
        npos = np.array(pos)
        # in_polygon against the candidate columns and a few random ones
        cands = sorted((int(i) for i in G.candidates(pos)), key=lambda i: G.rank[i])[:4] + [G.pick(rng)]
        for i in cands:
            c = G.cols[int(i)]
            lines.append('ip\t%s\t%s' % (ptstr(pos), ' '.join(ptstr(p) for p in c.polygon)))
            impl.append('1' if in_polygon(npos, c.polygon) else '0'); meta.append(('in_polygon', pos, c.name))
        # in_rectangle against bounding boxes and tree nodes (incl. points exactly on their borders)
        t = rng.choice(nodes)
        c = G.cols[G.pick(rng)]
        for r in (t.bounds, c.bounding_box):
            p = list(pos)
            u = rng.random()
            if u < 0.3: p = [rng.uniform(float(r[0][0]), float(r[1][0])), rng.uniform(float(r[0][1]), float(r[1][1]))]
            if u < 0.15: p[rng.randrange(2)] = float(r[rng.randrange(2)][0 if rng.random() < 0.5 else 1])
            if u < 0.10: p = [float(r[rng.randrange(2)][0]), float(r[rng.randrange(2)][1])]
            lines.append('ir\t%s\t%s' % (ptstr(p), rect_wire(r)))
            impl.append('1' if in_rectangle(np.array(p), r) else '0'); meta.append(('in_rectangle', p, [list(map(float, r[0])), list(map(float, r[1]))]))
        # rectangles_intersect: bounding box against a node (touching cases are common in rectangular meshes)
        c2 = G.cols[G.pick(rng)]
        for a, b in ((c.bounding_box, t.bounds), (c.bounding_box, c2.bounding_box)):
            lines.append('ri\t%s\t%s' % (rect_wire(a), rect_wire(b)))
            impl.append('1' if rectangles_intersect(a, b) else '0'); meta.append(('rectangles_intersect', None, None))
        nb = G.nbrs(G.index[id(c)])
        if nb:
            b = rng.choice(nb).bounding_box
            lines.append('ri\t%s\t%s' % (rect_wire(c.bounding_box), rect_wire(b)))
            impl.append('1' if rectangles_intersect(c.bounding_box, b) else '0'); meta.append(('rectangles_intersect', None, None))
        # sub_rectangles and bounds_of_points
        sr = sub_rectangles(t.bounds)
        lines.append('sr\t%s' % rect_wire(t.bounds))
        impl.append(';'.join(rect_canon(r) for r in sr)); meta.append(('sub_rectangles', None, [list(map(float, t.bounds[0])), list(map(float, t.bounds[1]))]))
        bp = bounds_of_points(c.polygon)
        lines.append('bp\t%s' % ' '.join(ptstr(p) for p in c.polygon))
        impl.append(rect_canon(bp)); meta.append(('bounds_of_points', None, c.name))
    return {'lines': lines, 'impl': impl, 'meta': meta, 'counts': cnt}


# ---------------------------------------------------------------------------
# sequences on ONE geometry object: queries, an edit that removes the column just found, queries again.
# The property quantifies over all geometries, refined / edited ones included, and an answer must not depend on
# what the object was asked before (state kept between calls), on other live geometries, or change the arguments.
class StopSequence(Exception):
    pass


def seq_task(args):
    spec, repo, seed, n = args
    try:
        return run_sequence(spec, repo, seed=seed, rounds=n)
    except Exception:
        return {'crash': traceback.format_exc()}


def _pt_in_poly(P, rng):
    ws = [rng.random() + 0.05 for _ in P]
    s = sum(ws)
    return [sum(wk * p[0] for wk, p in zip(ws, P)) / s, sum(wk * p[1] for wk, p in zip(ws, P)) / s]


def _check3d(G, pos, z, useq, fails, inp, stage):
    """block_name_containing_point against exhaustive search on the geometry AS IT IS NOW"""
    g = G.geo
    lays = g.layerlist
    Tset = G.truth(pos)
    T = Tset[0] if len(Tset) == 1 else None
    exp, strict = expected_block(G, T, z)
    want = None if exp is None else g.block_name(lays[exp[0]].name, G.cols[exp[1]].name)
    if T is not None and G.cols[T].surface is not None and abs(z - G.cols[T].surface) < 1e-6 * max(1.0, abs(lays[0].bottom - lays[-1].bottom)):
        return None, None            # within tolerance of the surface: outside the property
    p3 = np.array([pos[0], pos[1], z])
    keep = p3.copy()
    try: r = g.block_name_containing_point(p3, qtree=g.column_quadtree() if useq else None)
    except Exception as e: r = 'RAISE ' + type(e).__name__
    if not np.array_equal(keep, p3):
        fails.append(('sequence', 'block_name_containing_point:changes-its-argument', inp, 'pos became %r' % (list(p3),), 'arguments are not modified'))
    if r != want:
        key = 'block_name_containing_point:%s' % stage
        if r is not None and not (isinstance(r, str) and r.startswith('RAISE')) and r not in g.block_name_index:
            key += ':block-not-in-geometry'
        fails.append(('sequence', key, inp, 'block_name_containing_point -> %r' % (r,),
                      'the unique block of the (edited) geometry containing the point: %r' % (want,)))
    return r, want


def run_sequence(spec, repo, seed=0, rounds=3, steps=None):
    """Either generate (seed, rounds) or re-execute (steps) a sequence on one geometry object.
    A step is ['q', x, y, z, useq] (3-D query), ['q2', x, y] (2-D queries with aids), ['refine', rank],
    ['delete', rank], ['other'] (build and query an unrelated geometry), ['track', x0, y0, x1, y1]."""
    from c12_geos import build_geo
    from collections import Counter
    g = build_geo(spec, repo)
    rng = random.Random(seed)
    out = new_out()
    cnt = out['counts']
    fails = out['failures']
    done_steps = []
    other = [None]

    deleted = [False]

    def ctx():
        G_ = GeoCtx(spec, repo, geo=g)
        G_.columns_deleted = deleted[0]
        return G_

    def inp(): return {'geometry': spec, 'sequence': [list(s_) for s_ in done_steps]}

    def do(step, G):
        kind = step[0]
        done_steps.append(step)
        if kind == 'q':
            _check3d(G, [step[1], step[2]], step[3], bool(step[4]), fails, inp(), 'wrong-block-after-%s' % last_edit[0])
            cnt['seq_queries'] += 1
        elif kind == 'q2':
            pos = [step[1], step[2]]
            sub = new_out()
            Tset = G.truth(pos)
            T = Tset[0] if len(Tset) == 1 else None
            eval_point(G, pos, make_aids(G, random.Random(17), T), 'sequence', sub, check_corr=False)
            for f in sub['failures']:
                i2 = dict(f[2]); i2['sequence'] = inp()['sequence']
                fails.append((f[0], f[1], i2, f[3], f[4]))
            cnt['seq_queries'] += sub['counts']['queries']
        elif kind == 'track':
            l0, l1 = [step[1], step[2]], [step[3], step[4]]
            a0, a1 = np.array(l0), np.array(l1)
            k0, k1 = a0.copy(), a1.copy()
            try:
                t = G.geo.column_track([a0, a1])
                tr = [(G.index[id(c)], (float(a[0]), float(a[1])), (float(b[0]), float(b[1]))) for (c, a, b) in t]
                exp = expected_track(G, l0, l1)
                if not any(niv > 1 for tin, tout, i, niv, tl in exp):
                    check_track(G, l0, l1, tr, exp, lambda k, o, r_: fails.append(('sequence', k, inp(), o, r_)))
            except KeyError:
                fails.append(('sequence', 'column_track:lists-column-not-in-geometry', inp(), 'a listed column is not in geo.columnlist', 'columns of the geometry'))
            except Exception as e:
                fails.append(('sequence', 'column_track:raises', inp(), repr(e)[:200], 'a track'))
            if not (np.array_equal(k0, a0) and np.array_equal(k1, a1)):
                fails.append(('sequence', 'column_track:changes-its-argument', inp(), 'line changed', 'arguments are not modified'))
            cnt['seq_queries'] += 1
        elif kind == 'other':
            # an unrelated live geometry, queried in between: nothing may leak from one object to another
            if other[0] is None:
                from mulgrids import mulgrid
                other[0] = mulgrid().rectangular([7.0] * 3, [9.0] * 2, [1.0] * 2, origin=[float(G.bounds[0]), float(G.bounds[1]), 0.0])
            o = other[0]
            o.block_name_containing_point(np.array([float(G.bounds[0]) + 3.0, float(G.bounds[1]) + 4.0, -0.5]))
            o.column_containing_point(np.array([float(G.bounds[0]) + 10.0, float(G.bounds[1]) + 4.0]))
        elif kind in ('refine', 'delete'):
            col = G.cols[G.order[step[1]]]
            try:
                if kind == 'refine': g.refine([col])
                else:
                    deleted[0] = True
                    g.delete_column(col.name)
            except Exception:
                # the edit itself is refused (e.g. refine() cannot find the boundary of a mesh that earlier deletions
                # cut in two): not a matter of this property; the object may be half edited, so the sequence ends here
                cnt['seq_edit_refused'] += 1
                raise StopSequence()
            last_edit[0] = kind
            cnt['seq_edits'] += 1
        elif kind == 'reread':
            # the geometry is written out and read back INTO THE SAME (used) object
            import tempfile, shutil
            d = tempfile.mkdtemp()
            try:
                fn = os.path.join(d, 'g.dat')
                g.write(fn)
                g.read(fn)
                last_edit[0] = 'reread'
                cnt['seq_edits'] += 1
            except Exception:
                cnt['seq_reread_not_possible'] += 1
            finally:
                shutil.rmtree(d, ignore_errors=True)

    last_edit = ['construction']
    if steps is not None:
        try:
            for st in steps:
                do(list(st), ctx())
        except StopSequence:
            pass
        return out
    lays = g.layerlist
    for _ in range(rounds):
        G = ctx()
        if G.n < 4: break
        # a 3-D point in a random column X ...
        r = rng.randrange(G.n)
        i = G.order[r]
        tries = 0
        while True:
            tries += 1
            p = _pt_in_poly(G.polyg[i], rng)
            if G.edge_clearance(p) >= 4.0 or tries > 50: break
        if tries > 50: continue
        surf = G.cols[i].surface
        li = rng.randrange(1, len(lays))
        z = lays[li].bottom + rng.uniform(0.2, 0.8) * (lays[li].top - lays[li].bottom)
        useq = rng.random() < 0.3
        if rng.random() < 0.5: do(['other'], G)
        do(['q', p[0], p[1], float(z), int(useq)], G)
        oldpoly = G.polyg[i]
        # ... the column is removed from the geometry ...
        u = rng.random()
        try:
            if u < 0.15 and spec.get('translate') is None: do(['reread'], G)
            else: do(['refine' if u < 0.65 else 'delete', r], G)
        except StopSequence:
            break
        G = ctx()
        # ... and the first thing asked afterwards is a 3-D point inside X's old footprint (then 2-D aids, a track)
        for k in range(3):
            q = _pt_in_poly(oldpoly, rng)
            if G.edge_clearance(q) < 1.0: continue
            z2 = lays[li].bottom + rng.uniform(0.2, 0.8) * (lays[li].top - lays[li].bottom)
            do(['q', q[0], q[1], float(z2), int(rng.random() < 0.3)], G)
            if k == 0: do(['q', q[0], q[1], float(z2), 0], G)         # and once more: same answer
            if k == 1: do(['q2', q[0], q[1]], G)
        a, b = _pt_in_poly(oldpoly, rng), [rng.uniform(G.bounds[0], G.bounds[2]), rng.uniform(G.bounds[1], G.bounds[3])]
        if G.edge_clearance(a) >= 1.0 and G.edge_clearance(b) >= 1.0 and math.hypot(a[0] - b[0], a[1] - b[1]) > 1e-6 * G.scale:
            along = any(runs_along_edge(G.polyf[int(j)], a, b, 1e-6 * G.maxside[int(j)] + 1e-9 * G.cmag) for j in range(G.n))
            if not along: do(['track', a[0], a[1], b[0], b[1]], G)
        cnt['seq_rounds'] += 1
    return out
