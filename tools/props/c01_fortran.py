"""C01: an independent Fortran-style writer of TOUGH2 input records (Ew.d with a 0.ddddE+ee
mantissa, the leading zero dropped for negative numbers, Iw, Aw, blanks for absent values),
written from the TOUGH2 users' guide layouts -- it shares no code with PyTOUGH.  Used to
produce files the library did not write itself: they must read as what they say, and then
obey the round trip statement."""
import math
from decimal import Decimal, ROUND_HALF_EVEN, localcontext


def E(v, w, d):
    """Fortran Ew.d"""
    if v is None: return ' ' * w
    v = float(v)
    e = 0
    if v == 0: s = '0.' + '0' * d + 'E+00'
    else:
        with localcontext() as c:
            c.prec = 60
            x = Decimal(abs(v))
            e = x.adjusted() + 1
            m = x.scaleb(-e).quantize(Decimal(1).scaleb(-d), rounding=ROUND_HALF_EVEN)
            if m >= 1:
                e += 1; m = (m / 10).quantize(Decimal(1).scaleb(-d), rounding=ROUND_HALF_EVEN)
            digits = format(m, 'f')[2:]
        s = '%s.%sE%s%02d' % ('-' if v < 0 else '0', digits, '-' if e < 0 else '+', abs(e))
    if len(s) > w or abs(e) > 99: raise ValueError('E%d.%d cannot hold %r' % (w, d, v))
    return s.rjust(w)


def F(v, w, d):
    if v is None: return ' ' * w
    s = '%.*f' % (d, float(v))
    if len(s) > w: raise ValueError('F%d.%d cannot hold %r' % (w, d, v))
    return s.rjust(w)


def I(v, w): return ' ' * w if v is None else ('%d' % v).rjust(w)
def A(v, w): return (v or '').ljust(w)[:w] if v is not None else ' ' * w
def val(text): return None if not text.strip() else float(text.replace('E', 'e'))


def a3i2(name):
    """(A3, I2) name as a Fortran code prints it"""
    if name[3:5].isdigit(): return '%3s%2d' % (name[0:3], int(name[3:5]))
    return name


def preround(spec):
    """the spec with every real replaced by the value its Fortran text denotes (so that the file says
    exactly what the spec says); returns a new spec"""
    import copy
    s = copy.deepcopy(spec)
    r4 = lambda v: val(E(v, 10, 4))
    r3 = lambda v: val(E(v, 10, 3))
    for r in s['rocks']:
        for k in ('density', 'porosity', 'conductivity', 'specific_heat'): r[k] = r4(r[k])
        r['permeability'] = [r4(v) for v in r['permeability']]
        r['extra'] = {k: r4(v) for k, v in r['extra'].items()}
        for k in ('relperm', 'cap'):
            if r[k] is not None: r[k]['parameters'] = [r3(v) for v in r[k]['parameters']]
    for k in ('relperm', 'cap'):
        if s[k] is not None: s[k]['parameters'] = [r3(v) for v in s[k]['parameters']]
    for b in s['blocks']:
        for k in ('volume', 'ahtx', 'pmx'): b[k] = r4(b[k])
        if b['centre'] is not None: b['centre'] = [r3(v) for v in b['centre']]
    for c in s['conns']:
        c['distance'] = [r4(v) for v in c['distance']]
        c['area'] = r4(c['area']); c['sigma'] = r3(c['sigma'])
        c['dircos'] = None if c['dircos'] is None else float(F(c['dircos'], 10, 7))
    p = s['parameter']
    for k in ('texp', 'be', 'diff0', 'tstart', 'tstop', 'const_timestep', 'max_timestep'):
        if k in p: p[k] = r3(p[k])
    for k in ('gravity', 'timestep_reduction', 'scale', 'relative_error', 'absolute_error', 'pivot', 'upstream_weight', 'newton_weight',
              'derivative_increment'):
        if k in p: p[k] = r4(p[k])
    p['timestep'] = [r4(v) for v in p['timestep']] if p.get('const_timestep', 0) < 0 else [p.get('const_timestep')]
    p['default_incons'] = [val(E(v, 20, 14)) for v in p['default_incons']]
    ot = s['output_times']
    if ot:
        ot['time'] = [r4(v) for v in ot['time']]
        for k in ('max_timestep', 'time_increment'):
            if k in ot: ot[k] = r4(ot[k])
    for g in s['generators']:
        for k in ('gx', 'ex', 'hg', 'fg'): g[k] = r3(g[k])
        for k in ('time', 'rate', 'enthalpy'): g[k] = [val(E(v, 14, 7)) for v in g[k]]
    for it in s['incon']:
        it[1] = None if it[1] is None else val(E(it[1], 15, 9))
        it[2] = [val(E(v, 20, 13)) for v in it[2]]
    return s


def rs(line, keep):
    """trailing blanks dropped (as editors do), but never inside the leading name columns"""
    return line[:keep] + line[keep:].rstrip()


def chunks(vals, k):
    return [vals[i:i + k] for i in range(0, len(vals), k)]


def write_fortran(spec):
    """text of a TOUGH2 input file in the style of a Fortran writer (ROCKS, PARAM, MULTI, START, RPCAP, TIMES, ELEME, CONNE,
    GENER, INCON in the order of spec['order'])"""
    s = spec
    auto = bool(s['simulator'])
    out = [s['title']]

    def tp(d): return I(d['type'], 5) + ' ' * 5 + ''.join(E(v, 10, 3) for v in d['parameters'])
    for k in s['order']:
        if k == 'SIMUL': out += ['SIMUL', s['simulator']]
        elif k == 'ROCKS':
            out.append('ROCKS----1----*----2----*----3----*----4----*----5----*----6----*----7----*----8')
            for r in s['rocks']:
                out.append(A(r['name'], 5) + I(r['nad'], 5) + E(r['density'], 10, 4) + E(r['porosity'], 10, 4) +
                           ''.join(E(v, 10, 4) for v in r['permeability']) + E(r['conductivity'], 10, 4) + E(r['specific_heat'], 10, 4))
                if r['nad'] is not None and r['nad'] >= 1:
                    out.append(''.join(E(r['extra'].get(n), 10, 4) for n in ('compressibility', 'expansivity', 'dry_conductivity', 'tortuosity',
                                                                             'klinkenberg', 'xkd3', 'xkd4')).rstrip())
                    if r['nad'] >= 2: out += [tp(r['relperm']), tp(r['cap'])]
            out.append('')
        elif k == 'PARAM':
            p = s['parameter']
            out.append('PARAM----1----*-123456789012345678901234----*----5----*----6----*----7----*----8')
            l1 = I(p.get('max_iterations'), 2) + I(p.get('print_level'), 2) + I(p.get('max_timesteps'), 4) + I(p.get('max_duration'), 4) + \
                I(p.get('print_interval'), 4) + ''.join(str(o) for o in p['option'])
            if auto: l1 += E(p.get('diff0'), 10, 3)
            l1 += E(p.get('texp'), 10, 3) + E(p.get('be'), 10, 3)
            out.append(l1.rstrip())
            pb = p.get('print_block')
            out.append((E(p.get('tstart'), 10, 3) + E(p.get('tstop'), 10, 3) + E(p.get('const_timestep'), 10, 3) + E(p.get('max_timestep'), 10, 3) +
                        A(a3i2(pb) if pb else None, 5) + ' ' * 5 + E(p.get('gravity'), 10, 4) + E(p.get('timestep_reduction'), 10, 4) +
                        E(p.get('scale'), 10, 4)).rstrip())
            if p.get('const_timestep', 0) < 0:
                ts = chunks(p['timestep'], 8)
                for i in range(-int(p['const_timestep'])):
                    out.append(''.join(E(v, 10, 4) for v in (ts[i] if i < len(ts) else [])))
            out.append(''.join(E(p.get(n), 10, 4) for n in ('relative_error', 'absolute_error', 'pivot', 'upstream_weight', 'newton_weight',
                                                            'derivative_increment')).rstrip())
            di = chunks(p['default_incons'], 4)
            if not di: out.append('')
            for c in di: out.append(''.join(E(v, 20, 14) for v in c))
        elif k == 'MULTI':
            m = s['multi']
            out.append('MULTI')
            out.append(I(m.get('num_components'), 5) + I(m.get('num_equations'), 5) + I(m.get('num_phases'), 5) + I(m.get('num_secondary_parameters'), 5) +
                       (('%4s' % m['eos']) if auto and 'eos' in m else I(m.get('num_inc'), 5)).rstrip())
        elif k == 'START': out.append('START----1----*----2')
        elif k == 'NOVER': out.append('NOVER')
        elif k == 'RPCAP': out += ['RPCAP----1----*----2', tp(s['relperm']), tp(s['cap'])]
        elif k == 'TIMES':
            ot = s['output_times']
            out.append('TIMES')
            out.append((I(ot.get('num_times_specified'), 5) + I(ot.get('num_times'), 5) + E(ot.get('max_timestep'), 10, 4) + E(ot.get('time_increment'), 10, 4)).rstrip())
            for c in chunks(ot['time'], 8): out.append(''.join(E(v, 10, 4) for v in c))
        elif k == 'ELEME':
            out.append('ELEME')
            for b in s['blocks']:
                c = b['centre'] or [None] * 3
                out.append((A(a3i2(b['name']), 5) + I(b['nseq'], 5) + I(b['nadd'], 5) + A(b['rock'], 5) + E(b['volume'], 10, 4) + E(b['ahtx'], 10, 4) +
                            E(b['pmx'], 10, 4) + ''.join(E(v, 10, 3) for v in c)))
                out[-1] = rs(out[-1], 5)
            out.append('')
        elif k == 'CONNE':
            out.append('CONNE')
            for c in s['conns']:
                out.append((A(a3i2(c['b1']), 5) + A(a3i2(c['b2']), 5) + I(c['nseq'], 5) + I(c['nad1'], 5) + I(c['nad2'], 5) + I(c['direction'], 5) +
                            E(c['distance'][0], 10, 4) + E(c['distance'][1], 10, 4) + E(c['area'], 10, 4) + F(c['dircos'], 10, 7) + E(c['sigma'], 10, 3)))
                out[-1] = rs(out[-1], 10)
            out.append('+++' if spec.get('conne_plus') else '')
            if spec.get('conne_plus'): out += ['    1    2', '']
        elif k == 'GENER':
            out.append('GENER')
            for g in s['generators']:
                out.append((A(a3i2(g['block']), 5) + A(a3i2(g['name']), 5) + I(g['nseq'], 5) + I(g['nadd'], 5) + I(g['nads'], 5) + I(g['ltab'], 5) + ' ' * 5 +
                            A(g['type'], 4) + A(g['itab'], 1) + E(g['gx'], 10, 3) + E(g['ex'], 10, 3) + E(g['hg'], 10, 3) + E(g['fg'], 10, 3)))
                out[-1] = rs(out[-1], 10)
                for tab in ('time', 'rate', 'enthalpy'):
                    for c in chunks(g[tab], 4): out.append(''.join(E(v, 14, 7) for v in c))
            out.append('')
        elif k == 'INCON':
            out.append('INCON -- INITIAL CONDITIONS')
            names = [b['name'] for b in s['blocks']]
            for it in sorted(s['incon'], key=lambda x: names.index(x[0])):
                out.append(rs(A(a3i2(it[0]), 5) + I(it[3], 5) + I(it[4], 5) + E(it[1], 15, 9), 5))
                out.append(''.join(E(v, 20, 13) for v in it[2]))
            out.append('')
        else: raise ValueError('section %s is not written by the Fortran-style writer' % k)
    out.append(s.get('end_keyword', 'ENDCY'))
    return '\n'.join(out) + '\n'


FORTRAN_SECTIONS = ['SIMUL', 'ROCKS', 'PARAM', 'MULTI', 'START', 'NOVER', 'RPCAP', 'TIMES', 'ELEME', 'CONNE', 'GENER', 'INCON']
