"""C10 -- shared pieces of the geometry-edit check: the edit alphabet applied to the REAL mulgrid through
its public methods, the wire encoding of an edit for the extracted Coq driver, the canonical dump (must
print exactly what coq/C10/Drv.v `observe` prints), and the construction of a start geometry as a
sequence of primitive edits (so that the model starts from the same state)."""
import math, zlib
from fractions import Fraction
import numpy as np


def M():
    import mulgrids
    return mulgrids


def hx(s): return s.encode('latin-1').hex()


def qs(x):
    """exact wire form of a number"""
    f = Fraction(float(x))
    return str(f.numerator) if f.denominator == 1 else '%d/%d' % (f.numerator, f.denominator)


def q16(x):
    return str(math.floor(Fraction(float(x)) * 65536 + Fraction(1, 2)))


def exn_name(e):
    return 'Exception' if type(e) is Exception else type(e).__name__


# ----------------------------------------------------------------------------------------------
def apply_op(g, op):
    """Apply one edit to the real geometry through public methods / public attributes."""
    m = M()
    k = op[0]
    if k == 'an': g.add_node(m.node(op[1], np.array([float(op[2]), float(op[3])])))
    elif k == 'dn': g.delete_node(op[1])
    elif k == 'ac':
        centre = np.array([float(op[4][0]), float(op[4][1])]) if len(op) > 4 and op[4] is not None else None
        g.add_column(m.column(op[1], [g.node[n] for n in op[2]], centre, op[3]))
    elif k == 'dc': g.delete_column(op[1])
    elif k == 'ak':
        ca, cb = g.column.get(op[1]), g.column.get(op[2])
        if ca is None or cb is None: raise KeyError(op[1:3])
        g.add_connection(m.connection([ca, cb]))
    elif k == 'dk': g.delete_connection((op[1], op[2]))
    elif k == 'al': g.add_layer(m.layer(op[1], float(op[2]), float(op[3]), float(op[4])))
    elif k == 'dl': g.delete_layer(op[1])
    elif k == 'aw': g.add_well(m.well(op[1], [np.array([0., 0., 0.])]))
    elif k == 'dw': g.delete_well(op[1])
    elif k == 'rc':
        olds, news = list(op[1]), list(op[2])
        if len(olds) == 1 and len(news) == 1 and (len(op) < 4 or op[3]): g.rename_column(olds[0], news[0])
        else: g.rename_column(olds, news)
    elif k == 'rl':
        olds, news = list(op[1]), list(op[2])
        if len(olds) == 1 and len(news) == 1 and (len(op) < 4 or op[3]): g.rename_layer(olds[0], news[0])
        else: g.rename_layer(olds, news)
    elif k == 'sp': g.split_column(op[1], op[2])
    elif k == 'do': g.delete_orphans()
    elif k == 'in': g.identify_neighbours()
    elif k == 'lt': g.identify_layer_tops()
    elif k == 'ds': g.set_default_surface()
    elif k == 'ss':
        c = g.column[op[1]]
        c.surface = float(op[2])
        g.set_column_num_layers(c)
    elif k == 'nl': g.set_column_num_layers(g.column[op[1]])
    elif k == 'sb': g.setup_block_name_index()
    elif k == 'sk': g.setup_block_connection_name_index()
    else: raise RuntimeError('unknown op %r' % (op,))
    return g


def names(l): return '.'.join(hx(n) for n in l)


def encode_op(op):
    k = op[0]
    if k == 'an': return 'an,%s,%s,%s' % (hx(op[1]), qs(op[2]), qs(op[3]))
    if k in ('dn', 'dc', 'dl', 'aw', 'dw', 'nl'): return '%s,%s' % (k, hx(op[1]))
    if k == 'ac':
        s = 'ac,%s,%s,%s' % (hx(op[1]), names(op[2]), 'N' if op[3] is None else qs(op[3]))
        if len(op) > 4 and op[4] is not None: s += ',%s,%s' % (qs(op[4][0]), qs(op[4][1]))
        return s
    if k in ('ak', 'dk', 'sp'): return '%s,%s,%s' % (k, hx(op[1]), hx(op[2]))
    if k == 'al': return 'al,%s,%s,%s,%s' % (hx(op[1]), qs(op[2]), qs(op[3]), qs(op[4]))
    if k in ('rc', 'rl'): return '%s,%s,%s' % (k, names(op[1]), names(op[2]))
    if k in ('do', 'in', 'lt', 'ds', 'sb', 'sk'): return k
    if k == 'ss': return 'ss,%s,%s' % (hx(op[1]), qs(op[2]))
    raise RuntimeError('unknown op %r' % (op,))


OP_METHOD = {'an': 'add_node', 'dn': 'delete_node', 'ac': 'add_column', 'dc': 'delete_column', 'ak': 'add_connection',
             'dk': 'delete_connection', 'al': 'add_layer', 'dl': 'delete_layer', 'aw': 'add_well', 'dw': 'delete_well',
             'rc': 'rename_column', 'rl': 'rename_layer', 'sp': 'split_column', 'do': 'delete_orphans',
             'in': 'identify_neighbours', 'lt': 'identify_layer_tops', 'ds': 'set_default_surface',
             'ss': 'set_surface', 'nl': 'set_column_num_layers', 'sb': 'setup_block_name_index',
             'sk': 'setup_block_connection_name_index'}


# ----------------------------------------------------------------------------------------------
def _pos(lst):
    m = {}
    for i, o in enumerate(lst): m.setdefault(id(o), i)
    return m


def _idx(m, o):
    i = m.get(id(o))
    return '-' if i is None else str(i)


def _set(m, s):
    v = sorted(m.get(id(o), 1000000) for o in s)
    return '+'.join('-' if i == 1000000 else str(i) for i in v)


def dump(g):
    nm, cm, km, lm, wm = _pos(g.nodelist), _pos(g.columnlist), _pos(g.connectionlist), _pos(g.layerlist), _pos(g.welllist)
    N = ','.join('%s/%s:%s/%s' % (n.name, q16(n.pos[0]), q16(n.pos[1]), _set(cm, n.column)) for n in g.nodelist)
    ND = ','.join('%s=%s=%s' % (k, _idx(nm, v), v.name) for k, v in g.node.items())
    C = ','.join('%s/%s/%s/%s/%d/%s' % (c.name, '.'.join(_idx(nm, n) for n in c.node), _set(cm, c.neighbour), _set(km, c.connection),
                                       c.num_layers, 'None' if c.surface is None else q16(c.surface)) for c in g.columnlist)
    CD = ','.join('%s=%s=%s' % (k, _idx(cm, v), v.name) for k, v in g.column.items())
    K = ','.join('%s~%s/%s/%s/%s' % (c.column[0].name, c.column[1].name, _idx(cm, c.column[0]), _idx(cm, c.column[1]),
                                    'None' if c.node is None else '.'.join(_idx(nm, n) for n in c.node)) for c in g.connectionlist)
    KD = ','.join('%s~%s=%s=%s~%s' % (k[0], k[1], _idx(km, v), v.column[0].name, v.column[1].name) for k, v in g.connection.items())
    L = ','.join('%s/%s/%s/%s' % (l.name, q16(l.bottom), q16(l.centre), q16(l.top)) for l in g.layerlist)
    LD = ','.join('%s=%s=%s' % (k, _idx(lm, v), v.name) for k, v in g.layer.items())
    W = ','.join(w.name for w in g.welllist)
    WD = ','.join('%s=%s=%s' % (k, _idx(wm, v), v.name) for k, v in g.well.items())
    BN = ','.join(g.block_name_list)
    BC = ','.join('%s~%s' % tuple(c) for c in g.block_connection_name_list)
    return 'N:%s;ND:%s;C:%s;CD:%s;K:%s;KD:%s;L:%s;LD:%s;W:%s;WD:%s;BN:%s;BC:%s' % (N, ND, C, CD, K, KD, L, LD, W, WD, BN, BC)


def adler(s):
    v = zlib.adler32(s.encode('latin-1'))
    return '%d.%d' % (v & 0xffff, v >> 16)


# ----------------------------------------------------------------------------------------------
def geo_as_ops(g):
    """primitive edits that rebuild geometry `g` from mulgrid(convention, atmos_type) -- what read() /
    rectangular() do: add_node, add_column, add_connection, identify_neighbours, add_layer, surfaces,
    the two name-list set-ups"""
    ops = [('an', n.name, n.pos[0], n.pos[1]) for n in g.nodelist]
    ops += [('ac', c.name, [n.name for n in c.node], None, (c.centre[0], c.centre[1])) for c in g.columnlist]
    ops += [('ak', c.column[0].name, c.column[1].name) for c in g.connectionlist]
    ops.append(('in',))
    ops += [('al', l.name, l.bottom, l.centre, l.top) for l in g.layerlist]
    ops += [('ss', c.name, c.surface) for c in g.columnlist if c.surface is not None]
    ops += [('aw', w.name) for w in g.welllist]
    ops += [('sb',), ('sk',)]
    return ops


def settings(g, fixbits=0):
    return '%d,%d,%d' % (g.convention, g.atmosphere_type, fixbits)


def case_line(g0, prefix, ops, hash_mode, fixbits=0):
    return '%s%d\t%s\t' % ('H' if hash_mode else 'F', len(prefix) - 1, settings(g0, fixbits)) + \
        '\t'.join(encode_op(o) for o in list(prefix) + list(ops))
