"""C10 -- shared pieces of the geometry-edit check: the edit alphabet applied to the REAL mulgrid through
its public methods, the wire encoding of an edit for the extracted Coq driver, the canonical dump (must
print exactly what coq/C10/Drv.v `observe` prints), and the construction of a start geometry as a
sequence of primitive edits (so that the model starts from the same state)."""
import math, zlib
from fractions import Fraction
import numpy as np


def M():
    import mulgrids
    return mulgrids


def hx(s): return s.encode('latin-1').hex()


def qs(x):
    """exact wire form of a number"""
    f = Fraction(float(x))
    return str(f.numerator) if f.denominator == 1 else '%d/%d' % (f.numerator, f.denominator)


def q16(x):
    x = float(x)
    if -1e10 < x < 1e10: return str(math.floor(x * 65536.0 + 0.5))      # exact in doubles (scaling by 2^16, |result| < 2^52)
    return str(math.floor(Fraction(x) * 65536 + Fraction(1, 2)))


def exn_name(e):
    return 'Exception' if type(e) is Exception else type(e).__name__


# ----------------------------------------------------------------------------------------------
def apply_op(g, op):
    """Apply one edit to the real geometry through public methods / public attributes."""
    m = M()
    k = op[0]
    if k == 'an': g.add_node(m.node(op[1], np.array([float(op[2]), float(op[3])])))
    elif k == 'dn': g.delete_node(op[1])
    elif k == 'ac':
        centre = np.array([float(op[4][0]), float(op[4][1])]) if len(op) > 4 and op[4] is not None else None
        g.add_column(m.column(op[1], [g.node[n] for n in op[2]], centre, op[3]))
    elif k == 'dc': g.delete_column(op[1])
    elif k == 'ak':
        ca, cb = g.column.get(op[1]), g.column.get(op[2])
        if ca is None or cb is None: raise KeyError(op[1:3])
        g.add_connection(m.connection([ca, cb]))
    elif k == 'dk': g.delete_connection((op[1], op[2]))
    elif k == 'al': g.add_layer(m.layer(op[1], float(op[2]), float(op[3]), float(op[4])))
    elif k == 'dl': g.delete_layer(op[1])
    elif k == 'aw': g.add_well(m.well(op[1], [np.array([0., 0., 0.])]))
    elif k == 'dw': g.delete_well(op[1])
    elif k == 'rc':
        olds, news = list(op[1]), list(op[2])
        if len(olds) == 1 and len(news) == 1 and (len(op) < 4 or op[3]): g.rename_column(olds[0], news[0])
        else: g.rename_column(olds, news)
    elif k == 'rl':
        olds, news = list(op[1]), list(op[2])
        if len(olds) == 1 and len(news) == 1 and (len(op) < 4 or op[3]): g.rename_layer(olds[0], news[0])
        else: g.rename_layer(olds, news)
    elif k == 'sp': g.split_column(op[1], op[2])
    elif k == 'do': g.delete_orphans()
    elif k == 'in': g.identify_neighbours()
    elif k == 'lt': g.identify_layer_tops()
    elif k == 'ds': g.set_default_surface()
    elif k == 'ss':
        c = g.column[op[1]]
        c.surface = float(op[2])
        g.set_column_num_layers(c)
    elif k == 'nl': g.set_column_num_layers(g.column[op[1]])
    elif k == 'sb': g.setup_block_name_index()
    elif k == 'sk': g.setup_block_connection_name_index()
    elif k == 'cf': g.check(fix=True, silent=True)
    elif k == 'rd': g.reduce(list(op[1]))
    elif k == 'rf': g.refine(list(op[1]))
    elif k == 'tr': g.triangulate_column(op[1])
    elif k == 'de': g.decompose_columns(list(op[1]))
    elif k == 'ry': g.refine_layers(list(op[1]), factor=op[2])
    elif k == 'cl':
        other = m.mulgrid(convention=g.convention, atmos_type=g.atmosphere_type)
        for (nm, b, c, t) in op[1]: other.add_layer(m.layer(nm, float(b), float(c), float(t)))
        g.copy_layers_from(other)
    elif k == 'cg':
        # copy_layers_from ANOTHER LIVE geometry, which stays alive (and must stay what it is) for the rest of the sequence
        other = M().mulgrid().rectangular([10., 10.], [10., 10.], [float(t) for t in op[1]], convention=g.convention, atmos_type=g.atmosphere_type)
        g.copy_layers_from(other)
        g._c10_other = other
        g._c10_other_dump = dump(other)
    elif k == 'ot':
        # a vertical translate of the other live geometry: the edited geometry must stay what it is
        other = getattr(g, '_c10_other', None)
        if other is not None:
            other.translate([0., 0., float(op[1])])
            g._c10_other_dump = dump(other)
    elif k == 'sn': g.snap_columns_to_layers(float(op[1]), list(op[2]))
    elif k == 'sr': g.snap_columns_to_nearest_layers(list(op[1]))
    elif k == 'fs':
        # the fitted elevations are a hint for the model: fit_columns (least squares on a copy of the geometry, floating
        # point, summation order depends on set iteration) is observed through a recording wrapper while fit_surface runs
        rec, orig = [], g.fit_columns
        def recording(*a, **kw):
            r = orig(*a, **kw)
            rec.append([float(z) for z in r])
            return r
        g.fit_columns = recording
        try: g.fit_surface(np.array([[float(v) for v in d] for d in op[2]]), columns=list(op[1]), layer_snap=float(op[3]), silent=True)
        finally:
            del g.fit_columns
            g._c10_fit = rec[-1] if rec else []
    elif k == 'tl': g.translate([float(op[1]), float(op[2]), float(op[3])])
    elif k == 'ro': g.rotate(float(op[1]))
    else: raise RuntimeError('unknown op %r' % (op,))
    return g


def names(l): return '.'.join(hx(n) for n in l)


def encode_op(op):
    k = op[0]
    if k == 'an': return 'an,%s,%s,%s' % (hx(op[1]), qs(op[2]), qs(op[3]))
    if k in ('dn', 'dc', 'dl', 'aw', 'dw', 'nl'): return '%s,%s' % (k, hx(op[1]))
    if k == 'ac':
        s = 'ac,%s,%s,%s' % (hx(op[1]), names(op[2]), 'N' if op[3] is None else qs(op[3]))
        if len(op) > 4 and op[4] is not None: s += ',%s,%s' % (qs(op[4][0]), qs(op[4][1]))
        return s
    if k in ('ak', 'dk', 'sp'): return '%s,%s,%s' % (k, hx(op[1]), hx(op[2]))
    if k == 'al': return 'al,%s,%s,%s,%s' % (hx(op[1]), qs(op[2]), qs(op[3]), qs(op[4]))
    if k in ('rc', 'rl'): return '%s,%s,%s' % (k, names(op[1]), names(op[2]))
    if k in ('do', 'in', 'lt', 'ds', 'sb', 'sk'): return k
    if k == 'ss': return 'ss,%s,%s' % (hx(op[1]), qs(op[2]))
    keys = lambda l: '.'.join(hx(x) for kk in l for x in kk)
    nats = lambda l: '.'.join(str(i) for i in l)
    if k == 'cf': return 'cf,%s,%s' % (keys(op[1]), names(op[2]))
    if k == 'rd': return 'rd,%s,%s,%s' % (names(op[1]), keys(op[2]), names(op[3]))
    if k == 'rf': return 'rf,%s,%s,%s,%s,%s' % (names(op[1]), nats(op[2]), op[3] if isinstance(op[3], str) else nats(op[3]), nats(op[4]), keys(op[5]))
    if k == 'tr': return 'tr,%s' % hx(op[1])
    if k == 'de': return 'de,%s,%s,%s' % (names(op[1]), '.'.join(':'.join(str(i) for i in l) for l in op[2]), keys(op[3]))
    if k == 'ry': return 'ry,%s,%d' % (names(op[1]), op[2])
    if k == 'cl': return 'cl' + ''.join(',%s,%s,%s,%s' % (hx(n), qs(b), qs(c), qs(t)) for (n, b, c, t) in op[1])
    if k == 'cgm': return 'cl' + ''.join(',%s,%s,%s,%s' % (hx(n), qs(b), qs(c), qs(t)) for (n, b, c, t) in op[1])   # for the model: copy_layers_from
    if k == 'ot': return 'tl,0,0,0'                                       # the other geometry moves: nothing happens to this one
    if k == 'sn': return 'sn,%s,%s' % (qs(op[1]), names(op[2]))
    if k == 'sr': return 'sr,%s' % names(op[1])
    if k == 'fs': return 'fs,%s,%s,%s' % (names(op[1]), '.'.join(qs(z) for z in op[2]), qs(op[3]))       # op[2]: the fitted elevations (hint)
    if k == 'tl': return 'tl,%s,%s,%s' % (qs(op[1]), qs(op[2]), qs(op[3]))
    if k == 'mv': return 'mv,%s,%s' % ('.'.join('%s:%s' % (qs(x), qs(y)) for x, y in op[1]), '.'.join('%s:%s' % (qs(x), qs(y)) for x, y in op[2]))
    raise RuntimeError('unknown op %r' % (op,))


OP_METHOD = {'an': 'add_node', 'dn': 'delete_node', 'ac': 'add_column', 'dc': 'delete_column', 'ak': 'add_connection',
             'dk': 'delete_connection', 'al': 'add_layer', 'dl': 'delete_layer', 'aw': 'add_well', 'dw': 'delete_well',
             'rc': 'rename_column', 'rl': 'rename_layer', 'sp': 'split_column', 'do': 'delete_orphans',
             'in': 'identify_neighbours', 'lt': 'identify_layer_tops', 'ds': 'set_default_surface',
             'ss': 'set_surface', 'nl': 'set_column_num_layers', 'sb': 'setup_block_name_index',
             'sk': 'setup_block_connection_name_index', 'cf': 'check', 'rd': 'reduce', 'rf': 'refine', 'tr': 'triangulate_column',
             'de': 'decompose_columns', 'ry': 'refine_layers', 'cl': 'copy_layers_from', 'sn': 'snap_columns_to_layers',
             'sr': 'snap_columns_to_nearest_layers', 'fs': 'fit_surface', 'cg': 'copy_layers_from', 'cgm': 'copy_layers_from', 'ot': 'translate(other geometry)', 'tl': 'translate', 'ro': 'rotate', 'mv': 'rotate'}


# ----------------------------------------------------------------------------------------------
def _pos(lst):
    m = {}
    for i, o in enumerate(lst): m.setdefault(id(o), i)
    return m


def _idx(m, o):
    i = m.get(id(o))
    return '-' if i is None else str(i)


def _set(m, s):
    v = sorted(m.get(id(o), 1000000) for o in s)
    return '+'.join('-' if i == 1000000 else str(i) for i in v)


def dump(g):
    nm, cm, km, lm, wm = _pos(g.nodelist), _pos(g.columnlist), _pos(g.connectionlist), _pos(g.layerlist), _pos(g.welllist)
    N = ','.join('%s/%s:%s/%s' % (n.name, q16(n.pos[0]), q16(n.pos[1]), _set(cm, n.column)) for n in g.nodelist)
    ND = ','.join('%s=%s=%s' % (k, _idx(nm, v), v.name) for k, v in g.node.items())
    C = ','.join('%s/%s/%s/%s/%d/%s' % (c.name, '.'.join(_idx(nm, n) for n in c.node), _set(cm, c.neighbour), _set(km, c.connection),
                                       c.num_layers, 'None' if c.surface is None else q16(c.surface)) for c in g.columnlist)
    CD = ','.join('%s=%s=%s' % (k, _idx(cm, v), v.name) for k, v in g.column.items())
    K = ','.join('%s~%s/%s/%s/%s' % (c.column[0].name, c.column[1].name, _idx(cm, c.column[0]), _idx(cm, c.column[1]),
                                    'None' if c.node is None else '.'.join(_idx(nm, n) for n in c.node)) for c in g.connectionlist)
    KD = ','.join('%s~%s=%s=%s~%s' % (k[0], k[1], _idx(km, v), v.column[0].name, v.column[1].name) for k, v in g.connection.items())
    L = ','.join('%s/%s/%s/%s' % (l.name, q16(l.bottom), q16(l.centre), q16(l.top)) for l in g.layerlist)
    LD = ','.join('%s=%s=%s' % (k, _idx(lm, v), v.name) for k, v in g.layer.items())
    W = ','.join(w.name for w in g.welllist)
    WD = ','.join('%s=%s=%s' % (k, _idx(wm, v), v.name) for k, v in g.well.items())
    BN = ','.join(g.block_name_list)
    BC = ','.join('%s~%s' % tuple(c) for c in g.block_connection_name_list)
    return 'N:%s;ND:%s;C:%s;CD:%s;K:%s;KD:%s;L:%s;LD:%s;W:%s;WD:%s;BN:%s;BC:%s' % (N, ND, C, CD, K, KD, L, LD, W, WD, BN, BC)


def adler(s):
    v = zlib.adler32(s.encode('latin-1'))
    return '%d.%d' % (v & 0xffff, v >> 16)


# ----------------------------------------------------------------------------------------------
def geo_as_ops(g):
    """primitive edits that rebuild geometry `g` from mulgrid(convention, atmos_type) -- what read() /
    rectangular() do: add_node, add_column, add_connection, identify_neighbours, add_layer, surfaces,
    the two name-list set-ups"""
    ops = [('an', n.name, n.pos[0], n.pos[1]) for n in g.nodelist]
    ops += [('ac', c.name, [n.name for n in c.node], None, (c.centre[0], c.centre[1])) for c in g.columnlist]
    ops += [('ak', c.column[0].name, c.column[1].name) for c in g.connectionlist]
    ops.append(('in',))
    ops += [('al', l.name, l.bottom, l.centre, l.top) for l in g.layerlist]
    ops += [('ss', c.name, c.surface) for c in g.columnlist if c.surface is not None]
    ops += [('aw', w.name) for w in g.welllist]
    ops += [('sb',), ('sk',)]
    return ops


def settings(g, fixbits=0):
    return '%d,%d,%d' % (g.convention, g.atmosphere_type, fixbits)


def case_line(g0, prefix, ops, hash_mode, fixbits=0):
    return '%s%d\t%s\t' % ('H' if hash_mode else 'F', len(prefix) - 1, settings(g0, fixbits)) + \
        '\t'.join(encode_op(o) for o in list(prefix) + list(ops))


# ----------------------------------------------------------------------------------------------
# the property statement, evaluated on the real object (the oracle; independent of the model).
# One list of messages per clause class; an empty dict means the geometry is consistent.
CLASSES = ('lookup', 'connection-keys', 'node-columns', 'column-connections', 'neighbours', 'connection-nodes',
           'polygon', 'num-layers', 'name-lists')
REQUIRED = {
    'lookup': 'the by-name lookups node/column/layer/well and the ordered lists hold the same objects, each filed under its own name',
    'connection-keys': 'the connection lookup and connectionlist hold the same objects, each filed under the pair of the current names of its two columns',
    'node-columns': 'each node.column is exactly the set of columns of the geometry that use the node (and columns use nodes of the geometry)',
    'column-connections': 'each column.connection is exactly the set of connections of the geometry that join it (to another column of the geometry)',
    'neighbours': 'each column.neighbour is exactly the set of columns it is connected to, symmetrically',
    'connection-nodes': "each connection's two nodes are the edge its two columns share",
    'polygon': 'every column is counter-clockwise with positive area',
    'num-layers': "every column's num_layers matches its surface",
    'name-lists': 'block_name_list / block_connection_name_list (and their indices) equal a fresh recomputation',
    'valid-mesh': 'the operation promises a valid mesh: no missing or extra connections, no orphan nodes',
}


def fresh_names(g):
    """what setup_block_name_index(); setup_block_connection_name_index() would give now (state restored)"""
    keep = (g.block_name_list, g.block_name_index, g.block_connection_name_list, g.block_connection_name_index)
    try:
        g.setup_block_name_index()
        bl, bi = g.block_name_list, g.block_name_index
        # the connection list is defined in terms of the CURRENT block_name_list (its first entry is the
        # atmosphere block): recompute it against the stored one, as a call of the method alone would
        g.block_name_list, g.block_name_index = keep[0], keep[1]
        g.setup_block_connection_name_index()
        cl, ci = g.block_connection_name_list, g.block_connection_name_index
    finally:
        g.block_name_list, g.block_name_index, g.block_connection_name_list, g.block_connection_name_index = keep
    return bl, bi, cl, ci


def inv_classes(g, limit=2):
    from geometry import polygon_area
    bad = {}

    def add(cls, msg):
        l = bad.setdefault(cls, [])
        if len(l) < limit: l.append(msg)

    def pair(cls, kind, lst, dct, keyof):
        ids = [id(o) for o in lst]
        if len(set(ids)) != len(ids): add(cls, '%slist holds the same object twice' % kind)
        if set(ids) != set(id(o) for o in dct.values()) or len(dct) != len(set(ids)):
            add(cls, '%s lookup and %slist do not hold the same objects (lookup %d, list %d)' % (kind, kind, len(dct), len(lst)))
        for k, o in dct.items():
            if keyof(o) != k:
                add(cls, '%s filed under %r is named %r' % (kind, k, keyof(o))); break
    pair('lookup', 'node', g.nodelist, g.node, lambda n: n.name)
    pair('lookup', 'column', g.columnlist, g.column, lambda c: c.name)
    pair('lookup', 'layer', g.layerlist, g.layer, lambda l: l.name)
    pair('lookup', 'well', g.welllist, g.well, lambda w: w.name)
    pair('connection-keys', 'connection', g.connectionlist, g.connection, lambda c: tuple(x.name for x in c.column))
    nodes, cols, cons = set(map(id, g.nodelist)), set(map(id, g.columnlist)), set(map(id, g.connectionlist))
    uses = {}
    for c in g.columnlist:
        for n in c.node:
            if id(n) not in nodes: add('node-columns', 'column %r uses node %r, which is not in the geometry' % (c.name, n.name))
            uses.setdefault(id(n), set()).add(id(c))
    for n in g.nodelist:
        have = set(id(c) for c in n.column)
        if have != uses.get(id(n), set()):
            add('node-columns', 'node %r records columns %s but is used by %s' % (
                n.name, sorted(c.name for c in n.column), sorted(c.name for c in g.columnlist if id(c) in uses.get(id(n), set()))))
    joins, nbrs = {}, {}
    for con in g.connectionlist:
        a, b = con.column
        if id(a) not in cols or id(b) not in cols or a is b:
            add('column-connections', 'connection %r joins a column that is not in the geometry (or a column with itself)' % (con,))
        for x, y in ((a, b), (b, a)):
            joins.setdefault(id(x), set()).add(id(con)); nbrs.setdefault(id(x), set()).add(id(y))
    for c in g.columnlist:
        if set(id(k) for k in c.connection) != joins.get(id(c), set()):
            add('column-connections', 'column %r records connections %s but is joined by %s' % (
                c.name, sorted(map(repr, c.connection)), sorted(repr(k) for k in g.connectionlist if id(k) in joins.get(id(c), set()))))
        if set(id(d) for d in c.neighbour) != nbrs.get(id(c), set()):
            add('neighbours', 'column %r records neighbours %s but is connected to %s' % (
                c.name, sorted(d.name for d in c.neighbour), sorted(d.name for d in g.columnlist if id(d) in nbrs.get(id(c), set()))))
        for d in c.neighbour:
            if c not in d.neighbour: add('neighbours', 'column %r has neighbour %r but not the other way round' % (c.name, d.name))
    for con in g.connectionlist:
        a, b = con.column
        nd = con.node
        ok = nd is not None and len(nd) == 2 and nd[0] is not nd[1] and all(any(n is m for m in col.node) for n in nd for col in (a, b))
        if ok:
            for col in (a, b):
                i = [k for k, m in enumerate(col.node) if m is nd[0]][0]
                nn = len(col.node)
                if not (col.node[(i + 1) % nn] is nd[1] or col.node[(i - 1) % nn] is nd[1]): ok = False
        if not ok:
            add('connection-nodes', 'connection %r has nodes %r, not an edge of both %r and %r' % (con, nd, a.node, b.node))
    for c in g.columnlist:
        ids = [id(n) for n in c.node]
        if len(ids) < 3 or len(set(ids)) != len(ids):
            add('polygon', 'column %r has nodes %r' % (c.name, c.node)); continue
        pts = [np.array(n.pos, dtype=float) for n in c.node]
        a = polygon_area(pts)
        # rounding error of the shoelace sum in doubles: ~ eps * n * (largest coordinate)^2 (a sliver far from the origin has an
        # area far below that; its sign and last digits are noise, e.g. after a rotation)
        noise = 8 * 2.3e-16 * len(pts) * max(1.0, max(float(np.max(np.abs(p))) for p in pts)) ** 2
        if a < -noise or (abs(a) <= noise and not (c.area > -noise)): add('polygon', 'column %r has signed area %r' % (c.name, a))
        elif abs(a) > noise and not a > 0: add('polygon', 'column %r has signed area %r' % (c.name, a))
        elif abs(c.area - a) > 1e-9 * max(1.0, abs(a)) + noise: add('polygon', 'column %r caches area %r, its polygon has %r' % (c.name, c.area, a))
    if len(g.layerlist) > 1:
        for c in g.columnlist:
            if c.surface is None: add('num-layers', 'column %r has no surface elevation' % c.name); continue
            n = len([l for l in g.layerlist[1:] if l.bottom < c.surface])
            if c.num_layers != n: add('num-layers', 'column %r has num_layers %r; %d layers lie below its surface %r' % (c.name, c.num_layers, n, c.surface))
    else:
        for c in g.columnlist:
            if c.num_layers != 0: add('num-layers', 'column %r has num_layers %r in a geometry with no underground layer' % (c.name, c.num_layers))
    try:
        bl, bi, cl, ci = fresh_names(g)
        if bl != g.block_name_list: add('name-lists', 'block_name_list has %d names, a fresh recomputation %d' % (len(g.block_name_list), len(bl)) if len(bl) != len(g.block_name_list) else 'block_name_list differs from a fresh recomputation')
        elif bi != g.block_name_index: add('name-lists', 'block_name_index differs from a fresh recomputation')
        if cl != g.block_connection_name_list: add('name-lists', 'block_connection_name_list has %d names, a fresh recomputation %d' % (len(g.block_connection_name_list), len(cl)) if len(cl) != len(g.block_connection_name_list) else 'block_connection_name_list differs from a fresh recomputation')
        elif ci != g.block_connection_name_index: add('name-lists', 'block_connection_name_index differs from a fresh recomputation')
    except Exception as e:
        add('name-lists', 'a fresh recomputation of the name lists raises %s' % exn_name(e))
    return bad


def mesh_defects(g):
    """missing / extra connections and orphan nodes, as mulgrid.check(fix=False) finds them"""
    out = []
    mc = g.missing_connections
    if mc: out.append('missing connections %s' % sorted(repr(c) for c in mc)[:4])
    ec = g.extra_connections
    if ec: out.append('extra connections %s' % sorted(ec)[:4])
    orph = g.orphans
    if orph: out.append('orphan nodes %s' % sorted(n.name for n in orph)[:4])
    return out

# edits that promise a valid mesh (they call missing_connections / check(fix) / delete_orphans themselves)
PROMISES_VALID_MESH = set(['cf', 'rd', 'rf', 'de'])


# ----------------------------------------------------------------------------------------------
# hints: what the model cannot know -- the iteration order of Python sets of objects, and float geometry
# that does not enter the combinatorial state.  `pre_hints` looks at the geometry BEFORE the edit,
# `post_hints` at the geometry after it.
def _bad_names(cols):
    out = []
    for c in cols:
        try:
            if not c.contains_point(c.centre): out.append(c.name)
        except Exception: pass
    return out


def pre_hints(g, op):
    k = op[0]
    h = {'klist': list(g.connectionlist)}          # the objects themselves (an id() may be re-used once an object is freed)
    try:
        if k == 'cf': h['cols'] = list(g.columnlist)
        elif k == 'rd': h['cols'] = [g.column[n] for n in op[1] if n in g.column]
        elif k == 'rf':
            # the same set expressions as mulgrid.refine(): same objects, same operations => same iteration order
            columns = g.columnlist if list(op[1]) == [] else [g.column[n] for n in op[1]]
            connections = set([])
            for col in columns: connections = connections | col.connection
            columns_plus_edge = set(columns) | set([])
            for con in connections: columns_plus_edge = columns_plus_edge | set(con.column)
            kpos, cpos, npos = _pos(g.connectionlist), _pos(g.columnlist), _pos(g.nodelist)
            h['hk'] = [kpos.get(id(c), 999999) for c in connections]
            h['hc'] = [cpos.get(id(c), 999999) for c in columns_plus_edge]
            h['hb'] = []
            if all(c.num_nodes in [3, 4] for c in columns_plus_edge):
                try: h['hb'] = [npos.get(id(n), 999999) for n in g.boundary_nodes]
                except Exception as e: h['hb'] = '!' + exn_name(e)
        elif k == 'de':
            hs = []
            for n in op[1]:
                c = g.column.get(n)
                if c is None or c.num_nodes <= 4: hs.append([]); continue
                hs.append([i for i, a in enumerate(c.interior_angles) if a > np.pi - 1.e-3])
            h['hs'] = hs
    except Exception as e:
        h['error'] = exn_name(e)
    return h


def post_hints(g, op, h):
    """the edit with its hints filled in (the form that is encoded for the model)"""
    k = op[0]
    old = set(id(c) for c in h.get('klist', []))
    new_keys = [(c.column[0].name, c.column[1].name) for c in g.connectionlist if id(c) not in old]
    if k == 'cf': return ('cf', new_keys, _bad_names([c for c in h.get('cols', []) if c.name in g.column and g.column[c.name] is c]))
    if k == 'rd': return ('rd', list(op[1]), new_keys, _bad_names([c for c in h.get('cols', []) if c.name in g.column and g.column[c.name] is c]))
    if k == 'rf': return ('rf', list(op[1]), h.get('hk', []), h.get('hb', []), h.get('hc', []), new_keys)
    if k == 'de': return ('de', list(op[1]), h.get('hs', []), new_keys)
    if k == 'ro': return ('mv', [(n.pos[0], n.pos[1]) for n in g.nodelist], [(c.centre[0], c.centre[1]) for c in g.columnlist])
    if k == 'fs': return ('fs', list(op[1]), list(getattr(g, '_c10_fit', [])), op[3])
    if k == 'cg':
        other = getattr(g, '_c10_other', None)
        return ('cgm', [(l.name, l.bottom, l.centre, l.top) for l in other.layerlist] if other is not None else [])
    return op


def failed_hints(g, op, h):
    """the edit raised: the geometry has been modified in place up to the exception, so the connections added before it
    (the order in which the missing connections were added) can still be read off"""
    k = op[0]
    old = set(id(c) for c in h.get('klist', []))
    try: new_keys = [(c.column[0].name, c.column[1].name) for c in g.connectionlist if id(c) not in old]
    except Exception: new_keys = []
    if k == 'cf': return ('cf', new_keys, [])
    if k == 'rd': return ('rd', list(op[1]), new_keys, [])
    if k == 'rf': return ('rf', list(op[1]), h.get('hk', []), h.get('hb', []), h.get('hc', []), new_keys)
    if k == 'de': return ('de', list(op[1]), h.get('hs', []), new_keys)
    if k == 'ro': return ('mv', [], [])
    if k == 'fs': return ('fs', list(op[1]), list(getattr(g, '_c10_fit', [])), op[3])
    if k == 'cg':
        other = getattr(g, '_c10_other', None)
        return ('cgm', [(l.name, l.bottom, l.centre, l.top) for l in other.layerlist] if other is not None else [])
    return op


HINTED = ('cf', 'rd', 'rf', 'de', 'ro', 'fs', 'cg')


def apply_op_h(g, op):
    """apply the edit; returns (geometry, edit with hints, exception name or None)"""
    if op[0] not in HINTED:
        try: return apply_op(g, op), op, None
        except Exception as e: return g, op, exn_name(e)
    h = pre_hints(g, op)
    try: g = apply_op(g, op)
    except Exception as e: return g, failed_hints(g, op, h), exn_name(e)
    return g, post_hints(g, op, h), None


COMPOUND = ('cf', 'rd', 'rf', 'tr', 'de')


def other_geometry_defects(g):
    """the other live geometry of the sequence (the source of copy_layers_from) is still what it was, and consistent"""
    other = getattr(g, '_c10_other', None)
    if other is None: return []
    out = []
    if dump(other) != getattr(g, '_c10_other_dump', None): out.append('the geometry the layers were copied from has changed although it was not edited')
    bad = inv_classes(other)
    if bad: out.append('the geometry the layers were copied from is no longer consistent: %s' % '; '.join('%s: %s' % (k, v[0]) for k, v in sorted(bad.items())))
    return out


def stripped_collisions(g):
    """groups of column / node / layer names that become equal once padding is stripped (what a file round trip does)"""
    out = []
    for kind, lst in (('column', g.columnlist), ('node', g.nodelist), ('layer', g.layerlist)):
        seen = {}
        for o in lst: seen.setdefault(o.name.strip(), []).append(o.name)
        out += [(kind, tuple(v)) for v in seen.values() if len(v) > 1]
    return out


def round_trip_defects(g):
    """write the geometry to a file and read it back: the same numbers of nodes, columns, connections, layers; a consistent
    object graph"""
    import tempfile, os
    fd, path = tempfile.mkstemp(prefix='c10-rt-', suffix='.dat')
    os.close(fd)
    try:
        g.write(path)
        h = M().mulgrid(path)
    finally:
        try: os.remove(path)
        except OSError: pass
    out = []
    for what, a, b in (('nodes', len(g.nodelist), len(h.nodelist)), ('columns', len(g.columnlist), len(h.columnlist)),
                       ('connections', len(g.connectionlist), len(h.connectionlist)), ('layers', len(g.layerlist), len(h.layerlist))):
        if a != b: out.append('%d %s in memory, %d after write + read' % (a, what, b))
    bad = inv_classes(h)
    for k in ('lookup', 'connection-keys', 'node-columns', 'column-connections', 'neighbours', 'connection-nodes', 'polygon'):
        if k in bad: out.append('after write + read: %s: %s' % (k, bad[k][0]))
    orph = [n.name for n in h.orphans]
    if orph and not g.orphans: out.append('after write + read: orphan nodes %s' % sorted(orph)[:4])
    return out


def layers_descend(g):
    """hypothesis of the snap / fit_surface theorems: the layers below the atmosphere layer lie one below the other"""
    b = [l.bottom for l in g.layerlist[1:]]
    return all(b[i + 1] < b[i] for i in range(len(b) - 1))


def layers_stacked(g):
    ls = g.layerlist[1:]
    return all(l.bottom < l.top for l in ls) and all(ls[j].top <= ls[i].bottom for i in range(len(ls)) for j in range(i + 1, len(ls)))



def mesh_defect_sets(g):
    miss = set(repr(c) for c in g.missing_connections)
    extra = set(g.extra_connections)
    orph = set(n.name for n in g.orphans)
    return miss, extra, orph


def conforming(g):
    """two different columns share at most two nodes, and if two, these are consecutive in both (a common side);
    no two connections join the same pair of columns; no side (two consecutive nodes of a column) belongs to
    more than two columns (three columns on one side overlap)"""
    sides = {}
    for c in g.columnlist:
        k = len(c.node)
        for i in range(k):
            s = frozenset((id(c.node[i]), id(c.node[(i + 1) % k])))
            sides[s] = sides.get(s, 0) + 1
            if sides[s] > 2: return False
    pairs = set()
    for con in g.connectionlist:
        key = frozenset(id(c) for c in con.column)
        if key in pairs or len(key) < 2: return False
        pairs.add(key)
    seen = set()
    for n in g.nodelist:
        cols = [c for c in g.columnlist if n in c.node] if len(g.columnlist) <= 12 else list(n.column)
        for i, a in enumerate(cols):
            for b in cols[i + 1:]:
                key = (id(a), id(b)) if id(a) < id(b) else (id(b), id(a))
                if key in seen: continue
                seen.add(key)
                sh = [m for m in a.node if m in b.node]
                if len(sh) > 2: return False
                if len(sh) == 2:
                    for col in (a, b):
                        i0, i1 = col.node.index(sh[0]), col.node.index(sh[1])
                        k = len(col.node)
                        if (i0 + 1) % k != i1 and (i1 + 1) % k != i0: return False
    return True
