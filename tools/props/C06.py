"""C06 -- time-history extraction equals stepping through the listing, and terminates.

tie: H.  coq/C06/ListingHistory.v models t2listing.history(): ordered_selection and the per-result-set
scan with skip_to_table_AUTOUGH2/TOUGH2/TOUGHplus over a marker abstraction of the file (per result
set the sequence of table kinds; cursor = table index + sub-position; element-table counter), with
fuel-recursive loops.  Correspondence: the abstraction of every shipped file is extracted through the
reader (next_table traced from outside during a plain read), fed with batches of selections to the
extracted model; the model's landings are turned into values with the tables obtained by stepping and
compared with what history() really returns (or: both do not terminate).  Oracle (independent of the
model): every history() call runs under a time limit and is compared with stepping (index = i for all i,
reading the cell through table[key][column]), the reader state before/after, and a next()/prev() right
after the call."""
import os, sys, json, math, random, shutil, tempfile, itertools, re, signal, subprocess, time
from fractions import Fraction
from concurrent.futures import ThreadPoolExecutor
import vf
from props import C07 as nav

KEY_COUNTER = 'history:TOUGH+:element2-without-element-and-element1'
KEY_PRIMARY = 'history:TOUGH+:element2-after-primary'
NAME_OF = {'e': 'element', 'c': 'connection', 'g': 'generation', 'p': 'primary'}
KIND_LETTER = {'element': 'E', 'connection': 'C', 'primary': 'P', 'generation': 'G', None: 'U'}


def spec_table(spec):
    """tablename_from_specification, re-stated for the oracle"""
    b = NAME_OF.get(spec[0].lower())
    if b is None: return None
    return b + spec[-1] if spec[-1].isdigit() else b


def hang_key(sim, names):
    """Finding classifier for a selection on which history() did not return: the closed formula proved
    in coq/C06 (`tp_hangs`) for the TOUGH+ table order element, element1, connection, primary, element2:
      element2 selected together with primary                      -> KEY_PRIMARY
        (after reading primary rows the '_____' skip consumes the table-end line, next_table then
         takes element2's header underline for an intro and returns None for ever)
      element2 selected with element1 or connection but not both element and element1 -> KEY_COUNTER
        (nelt_tables is passed by value and restarts from the number of SELECTED element tables)
    anything else that hangs is a new failure."""
    s = set(names)
    if sim == 'TOUGH+' and 'element2' in s:
        if 'primary' in s: return KEY_PRIMARY
        if (s & {'element1', 'connection'}) and not ('element' in s and 'element1' in s): return KEY_COUNTER
    return None


class Timeout(Exception):
    pass


def _alarm(*a):
    raise Timeout()


def call_history(lst, sel, short, limit):
    """history() under a time limit; returns ('ok', result) | ('timeout', None) | ('raise', name)"""
    signal.signal(signal.SIGALRM, _alarm)
    signal.setitimer(signal.ITIMER_REAL, limit)
    try:
        r = lst.history(sel) if short is None else lst.history(sel, short=short)
        signal.setitimer(signal.ITIMER_REAL, 0)
        return 'ok', r
    except Timeout:
        return 'timeout', None
    except Exception as e:
        signal.setitimer(signal.ITIMER_REAL, 0)
        return 'raise', type(e).__name__
    finally:
        signal.setitimer(signal.ITIMER_REAL, 0)


def trace_kinds(lst, i):
    """kinds of the tables of full result set i in file order, as next_table classifies them
    (wrapped from outside during an ordinary read).  read_tables_TOUGH2 looks for a table that was
    absent at the first time through skip_to_table_TOUGH2, which calls next_table_TOUGH2 directly:
    an instance attribute of that name catches those calls too."""
    seen = []
    orig = lst.next_table

    def wrapped(*a, **k):
        r = orig(*a, **k); seen.append(r); return r
    inner = getattr(orig, '__name__', None)
    lst.next_table = wrapped
    if inner and inner != 'next_table': setattr(lst, inner, wrapped)
    try: lst.index = i
    finally:
        lst.next_table = orig
        if inner and inner != 'next_table' and inner in lst.__dict__: delattr(lst, inner)
    out = ['element']
    for r in seen:
        if r is None: break
        out.append(r)
    return out


def reader_names(sim, kinds):
    """the table name read_tables gives to each table of a result set"""
    out, ne = [], 0
    for k in kinds:
        if sim == 'TOUGH+' and k == 'element':
            out.append('element' if ne == 0 else 'element%d' % ne); ne += 1
        else: out.append(k)
    return out


def norm_key(name):
    """a row name (str or tuple of str) as whitespace-normalised text"""
    return ' '.join(' '.join(name if isinstance(name, tuple) else (name,)).split())


def parse_short_sets(path, lst):
    """AUTOUGH2 short output, parsed without the reader: per position, per table letter, the rows
    (whitespace-normalised text of the name columns, values) in printed order.  The row is identified by
    its NAME: the INDEX column is the simulator's own numbering (tests/listing/AUTOUGH2/7 is a cut-down
    listing whose short tables carry indices far beyond the rows of its full table)."""
    data = open(path, 'rb').read()
    pos = list(lst._pos) + [len(data)]
    out = {}
    for p, sh in enumerate(lst._short):
        if not sh: continue
        seg = data[pos[p]:pos[p + 1]].decode('latin-1').split('\n')
        # the keyword line that opened this set lies just before pos[p]
        first = data[:pos[p]].decode('latin-1').rstrip('\n').split('\n')[-1]
        lines = [first] + seg
        tabs, order = {}, []
        k = 0
        while k < len(lines):
            m = re.match(r'^.([ECG])SHORT', lines[k])
            if not m: k += 1; continue
            c = m.group(1)
            kws = [x for x in range(k, len(lines)) if lines[x][1:7] == c + 'SHORT'][:3]
            if len(kws) < 3: break
            body = lines[kws[1] + 1:kws[2]]
            hdr = next((x for x, l in enumerate(body) if 'INDEX' in l.split()), None)
            rows = []
            if hdr is not None:
                full = getattr(lst, {'E': 'element', 'C': 'connection', 'G': 'generation'}[c], None)
                ncols = full.num_columns if full is not None else None
                for l in body[hdr + 1:]:
                    if not l.strip(): continue
                    spans = list(re.finditer(r'\S+', l))
                    if ncols is None or len(spans) < ncols + 1: continue
                    try: rows.append((' '.join(l[1:spans[-ncols - 1].start()].split()), [float(t.group(0)) for t in spans[-ncols:]]))     # column 0 is Fortran carriage control ('1' = new page)
                    except ValueError: rows.append((None, None))
            tabs[c] = rows; order.append(c)
            k = kws[2] + 1
        out[p] = (order, tabs)
    return out


FLOATS_TAIL = re.compile(r'((?:\s*[-+]?(?:\d+\.\d*|\.\d+)(?:[EeDd][-+]?\d+|[-+]\d+)?)+)\s*$')
INDEX_END = re.compile(r'(\d+|\*+)\s*$')


def scan_printed_rows(path, lst):
    """TOUGH2-family / TOUGH+ listings, without the reader's table set-up: the data lines of the first result set, per
    table in file order, as (key text, printed INDEX, text of the values).  A table starts at a header line (a token INDEX
    or IND.), a repeated identical header is a page break inside the table, a different one or an @@@@@ line ends it.
    A data line is: key text, an integer (or ****), then nothing but numbers with a decimal point."""
    data = open(path, 'rb').read()
    end = lst._fullpos[1] if len(lst._fullpos) > 1 else len(data)
    lines = data[lst._fullpos[0]:end].decode('latin-1').split('\n')
    tables, cur, hdr = [], None, None
    for ln, l in enumerate(lines):
        toks = l.split()
        if 'INDEX' in toks or 'IND.' in toks:
            if cur is None or toks != hdr:
                cur = []; tables.append(cur); hdr = toks
            continue
        if l[1:6] == '@@@@@' or l.startswith('@@@@@'):
            cur, hdr = None, None; continue
        if cur is None: continue
        m = FLOATS_TAIL.search(l)
        if not m: continue
        mi = INDEX_END.search(l[:m.start()])
        if not mi or not l[:mi.start()].strip(): continue
        cur.append((l[:mi.start()], mi.group(1), m.group(1), ln))
    return [t for t in tables if t]


def layout_lines(rows):
    """the data lines of one scanned table as the model's input: (offset from the first data line, index, key id)"""
    ids, out, last = {}, [], -1
    for (k, i, _, ln) in rows:
        last = int(i) - 1 if i.isdigit() else last + 1
        kk = ' '.join(k.split())
        out.append((ln - rows[0][3], last, ids.setdefault(kk, len(ids) + 1)))
    return out


def table_regions(path, lst, iset):
    """text of the tables of full result set iset without the reader's set-up.  TOUGH2 family / TOUGH+: per table in
    file order the lines from its header line (a token INDEX or IND.) to its end (an @@@@@ line, a different header, or
    the end of the set).  AUTOUGH2: per table letter the lines after the table's second keyword line up to its closing one."""
    data = open(path, 'rb').read()
    start = lst._fullpos[iset]
    later = [p for p in list(lst._pos) + [len(data)] if p > start]
    lines = data[start:min(later)].decode('latin-1').split('\n')
    if lst.simulator == 'AUTOUGH2':
        out = {}
        kw = [(ln, l[1:6]) for ln, l in enumerate(lines) if l[1:6] in ('EEEEE', 'CCCCC', 'GGGGG')]
        for K in 'ECG':
            ks = [ln for ln, w in kw if w == K * 5]
            if K == 'E' and len(ks) >= 2: out['E'] = lines[ks[0] + 1:ks[1]]       # the first EEEEE line lies before _pos
            elif K != 'E' and len(ks) >= 3: out[K] = lines[ks[1] + 1:ks[2]]
        return out
    tables, cur, hdr = [], None, None
    for l in lines:
        toks = l.split()
        if 'INDEX' in toks or 'IND.' in toks:
            if cur is None or toks != hdr:
                cur = [l]; tables.append(cur); hdr = toks
            else: cur.append(l)
            continue
        if l[1:6] == '@@@@@' or l.startswith('@@@@@'):
            cur, hdr = None, None; continue
        if cur is not None: cur.append(l)
    return tables


def fval_to_float(tok):
    """the model's exact decimal -> the double float() gives for it (correctly rounded, like the reader's float(text))"""
    p = tok.split()
    if p[0] == 'F': return float('%s%se%s' % ('-' if p[1] == '1' else '', p[2], p[3]))
    if p[0] == 'INF': return float('-inf' if p[1] == '1' else 'inf')
    if p[0] == 'NAN': return float('nan')
    return tok


def values_correspondence(pl, lst, names, sim, kinds_full, repeated, limit):
    """The VALUE history() returns, computed by the extracted model from the TEXT of the table (skip_to_results_line,
    readline counting to the line index, read_table_line, column) against the real call: per table, at the first and the
    last result set, about 60 rows (every k-th, first, last, the repeated ones) x rotating columns, two rows in full."""
    out = {'tables': 0, 'values': 0, 'skipped': {}, 'disagreements': []}
    n = lst.num_fulltimes
    for iset in sorted(set([0, n - 1])):
        try: regs = table_regions(pl['path'], lst, iset)
        except Exception as e:
            out['skipped']['set %d' % iset] = 'scan failed: %r' % e; continue
        set_names = reader_names(sim, kinds_full[iset])
        if sim != 'AUTOUGH2':
            def klass(region):
                h = region[0].split()
                if h[:2] in (['ELEM1', 'ELEM2'],): return 'connection'
                if len(h) > 1 and h[1] == 'SOURCE': return 'generation'
                if h[0] in ('ELEM.', 'ELEM') and h[1] in ('INDEX', 'IND.'): return 'primary' if len(h) > 2 and h[2] == 'X1' else 'element'
                return None
            regs = [g for g in regs if klass(g)]          # e.g. a balance table at the end of the run is no result table
            if [klass(g) for g in regs] != [re.sub(r'\d+$', '', x) for x in set_names]:
                out['skipped']['set %d' % iset] = 'tables found by the scan %r, read by the reader %r' % ([klass(g) for g in regs], set_names); continue
        for ti, nm in enumerate(set_names):
            if nm not in names or not nav.table_spec(nm): continue
            t = getattr(lst, nm)
            region = regs.get(nm[0].upper()) if sim == 'AUTOUGH2' else regs[ti]
            if not region or any('\t' in l or '\x1f' in l for l in region):
                out['skipped']['%s@%d' % (nm, iset)] = 'no text region / separator character in the text'; continue
            nr, cols = t.num_rows, t.column_name
            if nr == 0: continue
            k = max(1, nr // 40)
            rows = sorted(set(list(range(0, nr, k)) + [nr - 1] + (repeated.get(nm, {}).get('differ', []) + repeated.get(nm, {}).get('same', []))[:40]))
            items = [(r, (r // k) % len(cols)) for r in rows] + [(r, c) for r in (0, nr - 1) for c in range(len(cols))]
            sel = [(nav.table_spec(nm), r, cols[c]) for r, c in items]
            l3 = nav.open_listing(pl['path'])
            st, res = call_history(l3, sel, False, max(limit, 20.0))
            try: l3.close()
            except Exception: pass
            if st != 'ok' or res is None: out['skipped']['%s@%d' % (nm, iset)] = 'real call: %s' % st; continue
            res = [res] if len(sel) == 1 else list(res)
            ef = lst.table_expected_floats(nm, cols)
            vals = t.row_format['values']
            rl = t.row_line
            line = '\t'.join(['vals', '%d,%d,%s' % (ef, t.num_columns, ('%d' % vals[0]) if sim == 'AUTOUGH2' else '-1'), ''.join('%d,' % v for v in vals),
                               '\x1f'.join(l.rstrip('\r') if False else l for l in region), ''.join('%d,%d,0;' % ((rl[r] if rl else r), c) for r, c in items)])
            p = subprocess.run([pl['exe']], input=line + '\n', stdout=subprocess.PIPE, stderr=subprocess.PIPE, text=True, timeout=600, encoding='latin-1',
                               env=dict(os.environ, OCAMLRUNPARAM='l=8G'))
            if p.returncode != 0: raise RuntimeError('model driver failed: ' + p.stderr[-1000:])
            toks = p.stdout.rstrip('\n').split(';')[:-1]
            if len(toks) != len(items): raise RuntimeError('model driver returned %d values for %d items' % (len(toks), len(items)))
            out['tables'] += 1
            for (r, c), tok, (tt, vv) in zip(items, toks, res):
                mv = fval_to_float(tok)
                rv = float(vv[iset]) if len(vv) == n else None
                out['values'] += 1
                same = isinstance(mv, float) and rv is not None and (mv == rv and math.copysign(1, mv) == math.copysign(1, rv) or (mv != mv and rv != rv))
                if not same and len(out['disagreements']) < 6:
                    out['disagreements'].append({'case': dict(pl['inp'], table=nm, result_set=iset, selection=nav.sel_to_json([(nav.table_spec(nm), r, cols[c])])),
                                                 'model': 'value from the text of the table: %r (%s)' % (mv, tok), 'impl': 'history() value at that result set: %r' % rv})
                if not same: out['n_disagreements'] = out.get('n_disagreements', 0) + 1
    # AUTOUGH2 short output: the same computation on the text of a short table (line index = the row's short index)
    shorts = [bool(x) for x in lst._short]
    if sim == 'AUTOUGH2' and any(shorts):
        data = open(pl['path'], 'rb').read()
        pos = list(lst._pos) + [len(data)]
        sp = [p for p, x in enumerate(shorts) if x]
        for p_ in sorted(set([sp[0], sp[-1]])):
            first = data[:pos[p_]].decode('latin-1').rstrip('\n').split('\n')[-1]
            lines = [first] + data[pos[p_]:pos[p_ + 1]].decode('latin-1').split('\n')
            for kw_ in lst.short_types:
                nm = {'E': 'element', 'C': 'connection', 'G': 'generation'}[kw_[0]]
                if nm not in names: continue
                t = getattr(lst, nm)
                ks = [x for x, l in enumerate(lines) if l[1:7] == kw_][:3]
                if len(ks) < 3: out['skipped']['%s short@%d' % (nm, p_)] = 'keyword lines not found'; continue
                region = lines[ks[1] + 1:ks[2]]
                if any('\t' in l or '\x1f' in l for l in region): continue
                si = sorted(lst.short_indices.get(kw_, {}).items())
                if not si: continue
                k = max(1, len(si) // 40)
                cols = t.column_name
                items = [(r, ish, (x // k) % len(cols)) for x, (r, ish) in enumerate(si) if x % k == 0 or x == len(si) - 1]
                sel = [(nav.table_spec(nm), r, cols[c]) for r, _, c in items]
                l3 = nav.open_listing(pl['path'])
                st, res = call_history(l3, sel, True, max(limit, 20.0))
                try: l3.close()
                except Exception: pass
                if st != 'ok' or res is None: out['skipped']['%s short@%d' % (nm, p_)] = 'real call: %s' % st; continue
                res = [res] if len(sel) == 1 else list(res)
                vals = t.row_format['values']
                line = '\t'.join(['vals', '%d,%d,%d' % (lst.table_expected_floats(nm, cols), t.num_columns, vals[0]), ''.join('%d,' % v for v in vals),
                                   '\x1f'.join(region), ''.join('%d,%d,0;' % (ish, c) for _, ish, c in items)])
                pr = subprocess.run([pl['exe']], input=line + '\n', stdout=subprocess.PIPE, stderr=subprocess.PIPE, text=True, timeout=600, encoding='latin-1',
                                    env=dict(os.environ, OCAMLRUNPARAM='l=8G'))
                if pr.returncode != 0: raise RuntimeError('model driver failed: ' + pr.stderr[-1000:])
                toks = pr.stdout.rstrip('\n').split(';')[:-1]
                if len(toks) != len(items): raise RuntimeError('model driver returned %d values for %d items' % (len(toks), len(items)))
                out['tables'] += 1; out['short_tables'] = out.get('short_tables', 0) + 1
                for (r, ish, c), tok, (tt, vv) in zip(items, toks, res):
                    mv = fval_to_float(tok)
                    rv = float(vv[p_]) if len(vv) == len(shorts) else None
                    out['values'] += 1
                    same = isinstance(mv, float) and rv is not None and (mv == rv and math.copysign(1, mv) == math.copysign(1, rv) or (mv != mv and rv != rv))
                    if not same:
                        out['n_disagreements'] = out.get('n_disagreements', 0) + 1
                        if len(out['disagreements']) < 6:
                            out['disagreements'].append({'case': dict(pl['inp'], table=nm, short_output_position=p_, selection=nav.sel_to_json([(nav.table_spec(nm), r, cols[c])])),
                                                         'model': 'value from the text of the short table: %r (%s)' % (mv, tok), 'impl': 'history(short=True) value at that position: %r' % rv})
    return out


def repeated_rows(path, lst, names):
    """per table name: row numbers printed more than once at the first result set, those whose copies differ first
    (TOUGH2_MP prints a connection once per processor sub-domain).  The row number of a printed INDEX is its rank among
    the distinct indices; a table the scan cannot match with the reader's (table count or row count) is left out."""
    out, note = {}, {}
    if lst.simulator == 'AUTOUGH2': return out, note
    try: tables = scan_printed_rows(path, lst)
    except Exception as e: return out, {'scan': 'failed: %r' % e}
    if len(tables) != len(names): return out, {'scan': '%d tables found by the scan, reader has %d' % (len(tables), len(names))}
    for nm, rows in zip(names, tables):
        idx, last = [], -1
        for (_, i, _, _) in rows:
            last = int(i) - 1 if i.isdigit() else last + 1
            idx.append(last)
        distinct = sorted(set(idx))
        if len(distinct) != getattr(lst, nm).num_rows:
            note[nm] = '%d distinct indices in the scan, %d rows in the reader' % (len(distinct), getattr(lst, nm).num_rows); continue
        rank = {v: r for r, v in enumerate(distinct)}
        copies = {}
        for (k, _, vals, _), i in zip(rows, idx): copies.setdefault(rank[i], []).append(vals.split())
        rep = [r for r, c in copies.items() if len(c) > 1]
        differ = [r for r in rep if any(c != copies[r][0] for c in copies[r][1:])]
        same = [r for r in rep if r not in set(differ)]
        out[nm] = {'differ': sorted(differ), 'same': sorted(same), 'layout': layout_lines(rows)}
    return out, note


def sweep_selections(lst, names, repeated, n_idx, has_short, thorough):
    """Deterministic row sweeps, one many-item call per table (a second one from the last index): every k-th row
    (about 160 rows, thorough 2000; column rotating with the row) by integer index, first and last row, and EVERY row that is
    printed more than once (capped; rows whose copies differ first) in every column by index, and in the last column by
    name and, for connections, by reversed name."""
    calls = []
    for n in names:
        spec = nav.table_spec(n)
        if not spec: continue
        t = getattr(lst, n)
        nr, cols = t.num_rows, t.column_name
        if nr == 0: continue
        k = max(1, nr // (2000 if thorough else 160))
        sel = [(spec, r, cols[(r // k) % len(cols)]) for r in sorted(set(list(range(0, nr, k)) + [nr - 1]))]
        rep = repeated.get(n, {'differ': [], 'same': []})
        reps = (rep['differ'] + rep['same'])[:(2000 if thorough else 300)]
        for r in reps:
            sel += [(spec, r, c) for c in cols]
            name = t.row_name[r]
            if t._row.get(name) == r:
                sel.append((spec, name, cols[-1]))
                if n == 'connection' and isinstance(name, tuple) and name[::-1] not in t._row: sel.append((spec, name[::-1], cols[-1]))
        for idx in sorted(set([0, n_idx - 1])):
            calls.append({'sel': list(sel), 'form': 'list', 'short': None, 'index': idx, 'tables': [n], 'sweep': True})
        if has_short: calls.append({'sel': list(sel), 'form': 'list', 'short': False, 'index': 0, 'tables': [n], 'sweep': True})
    return calls


def gen_selections(lst, names, sim, rng, cap, has_short, thorough):
    """Selections: every non-empty subset of the tables, each in 1-3 orders, rows by name /
    reversed name / integer index, first / last / interior rows, several columns, tuple and list
    forms, short on/off, from several current indices."""
    tabs = {n: getattr(lst, n) for n in names if nav.table_spec(n)}
    tn = [n for n in names if n in tabs]
    n_idx = lst.num_fulltimes

    def item(n, how):
        t = tabs[n]
        nr = t.num_rows
        r = {'first': 0, 'last': nr - 1}.get(how[0], rng.randrange(nr) if nr else 0)
        col = {'c0': t.column_name[0], 'cl': t.column_name[-1]}.get(how[1], rng.choice(t.column_name))
        form = how[2]
        if form == 'int': key = r
        else:
            key = t.row_name[r]
            if form == 'rev':
                if isinstance(key, tuple): key = key[::-1]
                else: form = 'name'
        spec = nav.table_spec(n)
        if rng.random() < 0.15: spec = spec.upper()
        return (spec, key, col), form
    subsets = [list(c) for r in range(1, len(tn) + 1) for c in itertools.combinations(tn, r)]
    calls = []
    hows_row, hows_col, forms = ['first', 'last', 'mid'], ['c0', 'cl', 'rnd'], ['name', 'int', 'rev']
    rounds = 12 if thorough else 3
    for rd in range(rounds):
        for sub in subsets:
            order = list(sub)
            if rd % 3 == 1: order.reverse()
            elif rd >= 2: rng.shuffle(order)
            sel, fs = [], []
            for n in order:
                k = 1 if rng.random() < 0.7 else 2
                for _ in range(k):
                    f = rng.choice(forms) if n == 'connection' else rng.choice(['name', 'int'])
                    it, f = item(n, (rng.choice(hows_row), rng.choice(hows_col), f))
                    sel.append(it); fs.append(f)
            if rng.random() < 0.08:     # a row name that is not in the table: the item is dropped
                n = rng.choice(order); t = tabs[n]
                bad = ('zz999', 'zz998') if isinstance(t.row_name[0], tuple) else 'zz999'
                sel.insert(rng.randrange(len(sel) + 1), (nav.table_spec(n), bad, t.column_name[0]))
            form = 'tuple' if (len(sel) == 1 and rng.random() < 0.5) else 'list'
            short = None
            if has_short: short = [None, True, False][(rd + len(calls)) % 3]
            calls.append({'sel': sel, 'form': form, 'short': short, 'index': rng.randrange(n_idx) if (thorough and rd >= 4) else rng.choice(sorted(set([0, n_idx - 1, n_idx // 2]))), 'tables': sub})
    # every column / every row form on single tables (cheap, no skipping involved)
    for n in tn:
        t = tabs[n]
        for col in (t.column_name if thorough else t.column_name[:6]):
            for how in ('first', 'last', 'mid'):
                f = rng.choice(forms) if n == 'connection' else rng.choice(['name', 'int'])
                it, f = item(n, (how, 'c0', f)); it = (it[0], it[1], col)
                calls.append({'sel': [it], 'form': rng.choice(['tuple', 'list']), 'short': None if not has_short else rng.choice([None, True, False]),
                              'index': rng.randrange(n_idx), 'tables': [n]})
    rng.shuffle(calls)
    # keep at most `cap` calls; of the selections known not to return (3 s each) one per table subset (thorough: four)
    out, nh = [], {}
    per_subset = 4 if thorough else 1
    for c in calls:
        if hang_key(sim, c['tables']):
            key = tuple(c['tables'])
            if nh.get(key, 0) >= per_subset: continue
            nh[key] = nh.get(key, 0) + 1
        out.append(c)
        if len(out) >= cap: break
    return out


def cell_key(it):
    spec, key, col = it
    return (spec_table(spec), key, col)


def run_file(pl):
    """One shipped file: abstraction, selections, stepping, model predictions (extracted driver),
    the real calls under a time limit, oracle and model comparison."""
    import numpy as np
    t_start = time.time()
    path = pl['path']
    rng = random.Random(pl['seed'])
    lst = nav.open_listing(path)
    sim, n = lst.simulator, lst.num_fulltimes
    names = nav.tables_of(lst)
    res = {'label': pl['label'], 'sim': sim, 'n': n, 'tables': names, 'failures': [], 'disagreements': [], 'skipped': None}
    shorts = [bool(x) for x in lst._short]
    npos = len(shorts)
    has_short = any(shorts)
    short_types = list(lst.short_types)
    # --- abstraction: kinds per position
    kinds_full = [trace_kinds(lst, i) for i in range(n)]
    short_parsed = parse_short_sets(path, lst) if has_short else {}
    sets, full_pos = [], []
    for p in range(npos):
        if shorts[p]: sets.append('s' + ''.join(short_parsed.get(p, ([], {}))[0]))
        else:
            sets.append('f' + ''.join(KIND_LETTER.get(k, 'U') for k in kinds_full[len(full_pos)])); full_pos.append(p)
    names_at = {full_pos[i]: reader_names(sim, kinds_full[i]) for i in range(n)}
    res['sets'] = sorted(set(sets))
    # --- block-name interning, metas
    ids = {}

    def keystr(k):
        out = []
        for x in (k if isinstance(k, tuple) else (k,)):
            if x not in ids: ids[x] = len(ids) + 1
            out.append(str(ids[x]))
        return '.'.join(out)
    metas, tabs, inv_rowline, colidx = [], {}, {}, {}
    for nm in names:
        t = getattr(lst, nm); tabs[nm] = t
        rl = t.row_line
        sk = nm[0].upper() + 'SHORT'
        sh = lst.short_indices.get(sk, {}) if sk in short_types else {}
        metas.append('%s:%d:%s:%s:%s' % (nm, 1 if t.allow_reverse_keys else 0, '-' if not rl else ''.join('%d,' % x for x in rl),
                                         ''.join('%d=%d,' % (a, b) for a, b in sorted(sh.items())), ''.join(keystr(k) + '/' for k in t.row_name)))
        inv_rowline[nm] = {l: r for r, l in enumerate(rl)} if rl else None
        colidx[nm] = {c: len(t.column_name) - 1 - t.column_name[::-1].index(c) for c in t.column_name}
    # --- selections
    if pl.get('calls') is not None:
        calls = [{'sel': nav.sel_from_json(c['selection']), 'form': c.get('form', 'list'), 'short': c.get('short'), 'index': c.get('index', 0),
                  'partner_first': c.get('partner_first', False)} for c in pl['calls']]
        for c in calls: c['tables'] = [t for t in names if t in set(spec_table(s[0]) for s in c['sel'])]
    else:
        repeated, rep_note = repeated_rows(path, lst, names)
        res['repeated_rows'] = {k: {'copies_differ': len(v['differ']), 'copies_equal': len(v['same'])} for k, v in repeated.items() if v['differ'] or v['same']}
        if rep_note: res['repeated_rows_scan_note'] = rep_note
        calls = sweep_selections(lst, names, repeated, n, has_short, pl['thorough']) + gen_selections(lst, names, sim, rng, pl['cap'], has_short, pl['thorough'])
        # --- which line is read for a row: the model of setup_table_TOUGH2 (coq/C06/HistoryRows.v: row_line, rows, skiplines from the
        # printed data lines, a repeated index replacing the earlier line) against the reader's table set-up, on the scanned layout
        res['row_tables'], res['row_disagreements'] = 0, []
        if pl.get('exe') and repeated:
            tn_ = [nm for nm in names if nm in repeated]
            p = subprocess.run([pl['exe']], input=''.join('rows\t' + ''.join('%d,%d,%d;' % x for x in repeated[nm]['layout']) + '\n' for nm in tn_),
                               stdout=subprocess.PIPE, stderr=subprocess.PIPE, text=True, timeout=600, env=dict(os.environ, OCAMLRUNPARAM='l=8G'))
            if p.returncode != 0: raise RuntimeError('model driver failed: ' + p.stderr[-1000:])
            for nm, o in zip(tn_, p.stdout.rstrip('\n').split('\n')):
                t = getattr(lst, nm)
                rl, rk, sk = o.split('|')
                rl = [int(x) for x in rl.split(',')[:-1]]; sk = [int(x) for x in sk.split(',')[:-1]]; rk = rk.split('/')[:-1]
                res['row_tables'] += 1
                f, g = {}, {}
                part = len(rk) == len(t.row_name) and all(f.setdefault(a, b) == b and g.setdefault(b, a) == a for a, b in zip(rk, t.row_name))
                what = None
                if rl != list(t.row_line):
                    k = next((x for x in range(min(len(rl), len(t.row_line))) if rl[x] != t.row_line[x]), min(len(rl), len(t.row_line)))
                    what = ('row_line[%d] = %s (the last printed line of that row)' % (k, rl[k] if k < len(rl) else None), 'row_line[%d] = %s' % (k, t.row_line[k] if k < len(t.row_line) else None))
                elif sk != list(t.skiplines)[:len(sk)] or len(t.skiplines) != len(sk) + 1: what = ('skiplines %r...' % sk[:8], 'skiplines %r...' % list(t.skiplines)[:8])
                elif not part: what = ('row names follow the last printed line of each index', 'row names differ from that')
                if what: res['row_disagreements'].append({'case': dict(pl['inp'], table=nm), 'model': what[0], 'impl': what[1]})
    res['values'] = None
    if pl.get('exe') and pl.get('calls') is None:
        res['values'] = values_correspondence(pl, lst, names, sim, kinds_full, repeated, 20.0)
    # --- stepping: visit every result time in turn and read every cell any selection asks for
    cells = {}
    for c in calls:
        for it in c['sel']: cells.setdefault(cell_key(it), [])
    stepper = nav.open_listing(path)
    V, fresh = [], []
    for i in range(n):
        stepper.index = i
        V.append({nm: getattr(stepper, nm)._data.copy() for nm in names})
        fresh.append(nav.snap(stepper, names))       # (that the state at index i does not depend on the route is C07's business)
        for (tname, key, col), series in cells.items():
            val = None
            if tname in names:
                try:
                    row = getattr(stepper, tname)[key]
                    val = float(row[col]) if row is not None else None
                except (KeyError, IndexError): val = None
            series.append(val)
    stepper.close()
    normcount = {}
    for nm in names:
        normcount[nm] = {}
        for rn in tabs[nm].row_name: normcount[nm][norm_key(rn)] = normcount[nm].get(norm_key(rn), 0) + 1
    fulltimes, alltimes = [float(t) for t in lst.fulltimes], [float(t) for t in lst.times]
    den = nav.scale_for(fulltimes)
    t0 = time.time()
    call_history(lst, [(nav.table_spec(names[0]), 0, tabs[names[0]].column_name[0])], None, 60)
    base = time.time() - t0
    limit = max(pl.get('min_limit', 3.0), 40 * base)
    res['limit'] = round(limit, 2)
    # --- which skip_to_table_TOUGHplus does the code under test have?  'P' = as found (the two hanging classes), 'Q' = repaired
    # (proposed_fixes/C06-toughplus-history-loop.diff): decided by behaviour on one selection of each class, then validated by the correspondence
    variant = 'P'
    if sim == 'TOUGH+' and {'connection', 'primary', 'element2'} <= set(names):
        oks = []
        for sub in (['primary', 'element2'], ['connection', 'element2']):
            lp = nav.open_listing(path)
            st, _ = call_history(lp, [(nav.table_spec(t), 0, tabs[t].column_name[0]) for t in sub], None, limit)
            oks.append(st == 'ok')
            try: lp.close()
            except Exception: pass
        if all(oks): variant = 'Q'
    res['variant'] = variant if sim == 'TOUGH+' else None
    # --- model predictions
    def state_str(sn): return '%d/%s/%d' % (int(sn[0]), nav.zint(float(sn[1]), den), int(sn[2])) if sn[0] is not None else 'unreadable'
    sel_str = []
    for c in calls:
        items = ''
        for (spec, key, col) in c['sel']:
            tn = spec_table(spec)
            ci = colidx[tn][col] if tn in colidx and col in colidx[tn] else 0
            items += '%s:%s:%d;' % (spec, ('i%d' % key) if isinstance(key, int) else 'n' + keystr(key), ci)
        sel_str.append('%s!%s' % ('0' if c['short'] is False else '1', items))
    model_out, model_flags = [None] * len(calls), [None] * len(calls)
    if pl.get('exe'):
        groups = {}
        for k, c in enumerate(calls): groups.setdefault(c['index'], []).append(k)
        lines = []
        for idx, ks in sorted(groups.items()):
            lines.append('\t'.join(['hist', {'AUTOUGH2': 'A', 'TOUGH+': variant}.get(sim, '2'), ''.join(s[0] for s in short_types),
                                    ''.join(s + ';' for s in sets), ''.join(m + ';' for m in metas), state_str(fresh[idx]), 'B'] + [sel_str[k] for k in ks]))
        p = subprocess.run([pl['exe']], input='\n'.join(lines) + '\n', stdout=subprocess.PIPE, stderr=subprocess.PIPE, text=True, timeout=600,
                           env=dict(os.environ, OCAMLRUNPARAM='l=8G'))
        if p.returncode != 0: raise RuntimeError('model driver failed: ' + p.stderr[-1000:])
        outs = p.stdout.rstrip('\n').split('\n')
        for (idx, ks), o in zip(sorted(groups.items()), outs):
            parts = o.split('\t')
            if len(parts) != len(ks): raise RuntimeError('model driver returned %d results for %d selections' % (len(parts), len(ks)))
            for k, pp in zip(ks, parts):
                flags, _, body = pp.partition('|')
                if len(flags) != 4 or not body: raise RuntimeError('model driver: unexpected result %r' % pp[:80])
                model_out[k], model_flags[k] = body, flags

    def same_float(a, b):
        return a == b or (a != a and b != b)

    def model_values(c, mo, k_item, it):
        """values the model predicts for one item: its landings looked up in the stepped tables"""
        sign, tarr, tname, line, lands = mo.split(':')
        vals = []
        ci = int(sel_str_items[k_item].split(':')[2])
        for l in lands.split(',')[:-1]:
            p_, a, j = (int(x) for x in l.split('.'))
            if shorts[a]:
                order, tabs_p = short_parsed.get(a, ([], {}))
                rows = tabs_p.get(order[j], []) if j < len(order) else []
                ish = lst.short_indices.get(tname[0].upper() + 'SHORT', {}).get(int(line))
                vals.append(float(sign) * rows[ish][1][ci] if (ish is not None and ish < len(rows) and rows[ish][1] is not None and order[j] == tname[0].upper()) else 'X')
            else:
                nm = names_at[a][j] if j < len(names_at[a]) else None
                if nm != tname: vals.append('X'); continue
                row = inv_rowline[nm].get(int(line)) if inv_rowline[nm] is not None else int(line)
                arr = V[full_pos.index(a)][nm]
                vals.append(float(sign) * float(arr[row, ci]) if row is not None and 0 <= row < arr.shape[0] else 'X')
        return vals, tarr

    stats = {'ok': 0, 'timeout': 0, 'raise': 0, 'none': 0, 'items': 0, 'values': 0, 'rev': 0, 'int': 0, 'name': 0, 'tuple_form': 0, 'short_on': 0, 'short_off': 0,
             'multi_table': 0, 'skipping': 0}
    samples = []
    n_reduced = 0
    n_repeat_failed = 0
    l2_uses = 0
    hyp = {'selections': 0, 'wf_file': 0, 'wf_metas': 0, 'covers': 0, 'in_hang_class': 0, 'hang_class_and_timeout': 0}
    partner = None
    if pl.get('partner'):
        try: partner = nav.open_listing(os.path.join(pl['repo'], pl['partner']))
        except Exception: partner = None
    l2 = None                  # one reader serves all calls of the file; it is re-opened after a call that did not return or raised
    for k, c in enumerate(calls):
        if l2 is None: l2, l2_uses = nav.open_listing(path), 0
        l2_uses += 1
        if l2.index != c['index']: l2.index = c['index']
        before = nav.snap(l2, names)
        sel = c['sel']
        arg = sel[0] if (c['form'] == 'tuple' and len(sel) == 1) else list(sel)
        arg_before = repr(arg)
        inp_pre = {}
        if partner is not None and c.get('partner_first', k % 2 == 0):
            # results must not depend on other live objects: the same selection is first put to a reader of ANOTHER listing
            # of the same simulator in this process (its outcome, even an exception, is of no interest here)
            stp, _ = call_history(partner, sel[0] if (c['form'] == 'tuple' and len(sel) == 1) else list(sel), c['short'], limit)
            stats['other_listing_first'] = stats.get('other_listing_first', 0) + 1
            inp_pre = {'preceded_by': {'file': pl['partner'], 'call': 'history(the same selection) on a reader of this other listing, same process'}}
            if stp == 'timeout':
                try: partner.close()
                except Exception: pass
                partner = None
        status, r = call_history(l2, arg, c['short'], limit)
        arg_changed = repr(arg) != arg_before
        inp = dict(pl['inp'], selection=nav.sel_to_json(sel), form=c['form'], short=c['short'], index=c['index'], **inp_pre)
        mo = model_out[k]
        sel_str_items = sel_str[k].split('!', 1)[1].split(';')[:-1]

        def fail(key, observed, required):
            if len(res['failures']) < 60: res['failures'].append({'key': key, 'input': inp, 'observed': observed, 'required': required})

        def disagree(model, impl):
            if len(res['disagreements']) < 10: res['disagreements'].append({'case': inp, 'model': model, 'impl': impl})
            res['n_disagreements'] = res.get('n_disagreements', 0) + 1
        stats['items'] += len(sel)
        if c['form'] == 'tuple' and len(sel) == 1: stats['tuple_form'] += 1
        if c['short'] is False: stats['short_off'] += 1
        elif has_short: stats['short_on'] += 1
        if len(c['tables']) > 1: stats['multi_table'] += 1
        if c['tables'] and [t for t in names if nav.table_spec(t)][:len(c['tables'])] != c['tables']: stats['skipping'] += 1
        for it in sel: stats['int' if isinstance(it[1], int) else ('rev' if (isinstance(it[1], tuple) and spec_table(it[0]) in tabs and it[1] not in tabs[spec_table(it[0])].row_name) else 'name')] += 1
        want_short = has_short and (c['short'] is None or c['short'])
        if model_flags[k] is not None:
            fl = model_flags[k]
            hyp['selections'] += 1
            for name_, bit_ in zip(('wf_file', 'wf_metas', 'covers', 'in_hang_class'), fl): hyp[name_] += bit_ == '1'
            if fl[3] == '1' and status == 'timeout': hyp['hang_class_and_timeout'] += 1
            # the theorems' verdict for this selection, from their decidable hypotheses alone
            if fl[:3] == '111' and (fl[3] == '1') != (status == 'timeout'):
                disagree('file_hangs = %s (history_terminates_partial / history_hangs_on_class)' % fl[3], 'call %s' % ('did not return' if status == 'timeout' else 'returned'))
        if status in ('timeout', 'raise'):
            try: l2.close()
            except Exception: pass
            l2 = None
        if status == 'timeout':
            stats['timeout'] += 1
            key = hang_key(sim, c['tables']) or 'history:%s:no-return:%s' % (sim, '+'.join(c['tables']))
            obs = 'history() did not return within %.1f s (an ordinary call on this file takes %.3f s)' % (limit, base)
            if l2_uses > 1 and n_repeat_failed < 3:
                # the reader had served earlier calls (with reads of its attributes and table lookups in between): does a fresh one return?
                l3 = nav.open_listing(path)
                if l3.index != c['index']: l3.index = c['index']
                st3, _ = call_history(l3, sel[0] if (c['form'] == 'tuple' and len(sel) == 1) else list(sel), c['short'], limit)
                try: l3.close()
                except Exception: pass
                if st3 == 'ok':
                    n_repeat_failed += 1
                    key = 'history:result-depends-on-earlier-lookups'
                    obs += ' on a reader that had served %d earlier history() calls with reads of its public attributes (table_names, times, ...) and table[key] lookups in between; on a freshly opened reader the same call returns' % (l2_uses - 1)
                    inp = dict(inp, sequence=['history(selection)', 'read table_names, times, fulltimes, steps, num_times, title, simulator, time, step, index; table[key] for every selected row', 'history(selection)'])
            fail(key, obs, 'the call terminates')
            if mo is not None and mo != 'RAISE OutOfFuel': disagree(mo[:200], 'no return within the time limit')
        elif status == 'raise':
            stats['raise'] += 1
            fail('history:raises:%s' % r, 'history() raised %s' % r, 'a series for every item')
            if mo is not None and mo != 'RAISE ' + r: disagree(mo[:200], 'raised ' + r)
        else:
            stats['ok'] += 1
            if mo is not None and mo.startswith('RAISE'): disagree(mo, 'returned normally')
            valid = [cell_key(it)[0] in names and any(v is not None for v in cells[cell_key(it)]) for it in sel]
            try: after = nav.snap(l2, names)
            except Exception as e:
                after = (None, float('nan'), None, None)
                fail('history:state-unreadable-after', 'reading index/time/step/tables after history() raised %s' % type(e).__name__, 'same current index, time, step and tables as before the call')
            if r is None:
                stats['none'] += 1
                got = None
                if any(valid): fail('history:returns-none', 'history() returned None', 'a series for the valid items')
                if mo is not None and not mo.startswith('NONE@') and not mo.startswith('RAISE'): disagree(mo[:200], 'returned None')
                if mo is not None and mo.startswith('NONE@') and mo[5:] != state_str(after): disagree(mo, 'state ' + state_str(after))
            else:
                got = [r] if len(sel) == 1 else list(r)
                if len(got) != len(sel) or any(not (isinstance(g, tuple) and len(g) == 2) for g in got):
                    fail('history:result-shape', 'result does not hold one (times, values) pair per item (%d items)' % len(sel), 'one (times, values) pair per item')
                    got = None
            mitems = None
            if got is not None and mo is not None and not mo.startswith(('RAISE', 'NONE@')):
                body, _, mstate = mo.rpartition('@')
                mitems = body.split(';')[:-1]
                if mstate != state_str(after): disagree('state ' + mstate, 'state ' + state_str(after))
                if len(mitems) != len(sel): disagree('%d items' % len(mitems), '%d items' % len(sel)); mitems = None
            if got is not None:
                for ki, (it, (tt, vv)) in enumerate(zip(sel, got)):
                    tname, key, col = cell_key(it)
                    vv = [float(x) for x in vv]; tt = [float(x) for x in tt]
                    stats['values'] += len(vv)
                    tkind = 'F' if tt == fulltimes else ('A' if tt == alltimes else '?')
                    # ---- model comparison
                    if mitems is not None:
                        if mitems[ki] == 'D':
                            if len(vv): disagree('item %d dropped' % ki, '%d values' % len(vv))
                        else:
                            pv, tarr = model_values(c, mitems[ki], ki, it)
                            if len(pv) != len(vv) or not all((not isinstance(a, str)) and same_float(a, b) for a, b in zip(pv, vv)):
                                disagree('item %d: %r' % (ki, pv[:6]), 'item %d: %r' % (ki, vv[:6]))
                            elif fulltimes != alltimes and tarr != tkind: disagree('item %d times %s' % (ki, tarr), 'times %s' % tkind)
                    # ---- oracle: equals stepping
                    if not valid[ki]:
                        if len(vv): fail('history:invalid-item-has-values', 'item %r returned %d values' % (it, len(vv)), 'no values for a row that is not in the table')
                        continue
                    tab = tabs[tname]
                    rkey = None          # the row's name as text, when short output is to be included for this table
                    if want_short and (tname[0].upper() + 'SHORT') in short_types:
                        if isinstance(key, int): rkey = norm_key(tab.row_name[key]) if -len(tab.row_name) <= key < len(tab.row_name) else None
                        else:
                            kk = key if key in tab.row_name else (key[::-1] if isinstance(key, tuple) and key[::-1] in tab.row_name else None)
                            rkey = norm_key(kk) if kk is not None else None
                        if rkey is not None and normcount[tname].get(rkey, 0) != 1:       # cannot tell the row from its printed name: no verdict
                            stats['short_name_ambiguous'] = stats.get('short_name_ambiguous', 0) + 1
                            continue
                    sgn = -1.0 if (not isinstance(key, int) and key not in tab.row_name) else 1.0
                    exp, exp_t, fi2 = [], [], 0
                    for p in range(npos):
                        if shorts[p]:
                            if not want_short or rkey is None: continue
                            order, tabs_p = short_parsed.get(p, ([], {}))
                            rows = dict((a, b) for a, b in tabs_p.get(tname[0].upper(), []) if a is not None)
                            if rkey in rows:
                                exp.append(sgn * rows[rkey][colidx[tname][col]]); exp_t.append(alltimes[p])
                        else:
                            exp.append(cells[(tname, key, col)][fi2]); exp_t.append(fulltimes[fi2]); fi2 += 1
                    if len(vv) != len(exp) or not all(b is not None and same_float(a, b) for a, b in zip(vv, exp)):
                        bad = next((x for x in range(min(len(vv), len(exp))) if exp[x] is None or not same_float(vv[x], exp[x])), min(len(vv), len(exp)))
                        obs = 'item %r: %d values, stepping gives %d; first difference at position %d: %r vs %r' % (
                            it, len(vv), len(exp), bad, vv[bad] if bad < len(vv) else None, exp[bad] if bad < len(exp) else None)
                        inp_full = inp
                        if len(sel) > 6 and not has_short and n_reduced < 3:
                            # a many-item call: give the witness as the one-item call when that fails alone too
                            n_reduced += 1
                            if inp_pre and partner is not None: call_history(partner, [it], c['short'], limit)
                            st1, r1 = call_history(l2, [it], c['short'], limit)
                            if st1 == 'ok' and r1 is not None and [float(x) for x in r1[1]] != exp:
                                inp = dict(inp, selection=nav.sel_to_json([it]), reduced_from_items=len(sel))
                        fail('history:differs-from-stepping', obs, 'the series obtained by visiting every result time in turn')
                        inp = inp_full
                    elif tt != exp_t:
                        fail('history:times-mismatch', 'item %r: %d times returned, first %r; matching times are %d, first %r' % (it, len(tt), tt[:3], len(exp_t), exp_t[:3]),
                             'values paired with the times of the result sets they were read from')
            # ---- oracle: the result is a function of the file and the selection, not of what was done with the reader before:
            # look every selected row up in its table through the public interface (table[key], what a user stepping through
            # the times does), call history() again on the same object with the same selection: same result
            if arg_changed: fail('history:mutates-selection-argument', 'the selection passed in was changed by the call', 'the caller\'s selection is left as it was')
            if got is not None and n_repeat_failed < 3:
                stats['repeat_after_lookup'] = stats.get('repeat_after_lookup', 0) + 1
                for attr_ in ('table_names', 'times', 'fulltimes', 'steps', 'fullsteps', 'num_times', 'num_fulltimes', 'title', 'simulator', 'time', 'step',
                              'index', 'short_types', 'filename'):          # reading the reader's public attributes and properties
                    try: getattr(l2, attr_)
                    except Exception: pass
                for it in sel[:400]:
                    tname_ = spec_table(it[0])
                    if tname_ in tabs:
                        try: getattr(l2, tname_)[it[1]]
                        except Exception: pass
                st2, r2 = call_history(l2, sel[0] if (c['form'] == 'tuple' and len(sel) == 1) else list(sel), c['short'], limit)
                same = st2 == 'ok' and r2 is not None
                if same:
                    got2 = [r2] if len(sel) == 1 else list(r2)
                    same = len(got2) == len(got) and all(len(a) == 2 and np.array_equal(np.asarray(a[0], dtype=float), np.asarray(b[0], dtype=float), equal_nan=True) and
                                                         np.array_equal(np.asarray(a[1], dtype=float), np.asarray(b[1], dtype=float), equal_nan=True) for a, b in zip(got2, got))
                if not same:
                    which = None
                    if st2 == 'ok' and r2 is not None and len(got2) == len(got):
                        which = next((ki for ki, (a, b) in enumerate(zip(got2, got)) if not (np.array_equal(np.asarray(a[1], dtype=float), np.asarray(b[1], dtype=float), equal_nan=True) and
                                                                                              np.array_equal(np.asarray(a[0], dtype=float), np.asarray(b[0], dtype=float), equal_nan=True))), None)
                    inp_full = inp
                    if which is not None:
                        inp = dict(inp, selection=nav.sel_to_json([sel[which]]), form='list', reduced_from_items=len(sel))
                        obs = 'item %r: first call %r..., after table[key] lookups of the selected rows the same call gives %r...' % (sel[which], [float(x) for x in got[which][1][:3]], [float(x) for x in got2[which][1][:3]])
                    else: obs = 'the first call returns; after reading the reader\'s public attributes (table_names, times, ...) and table[key] of the selected rows, the same call: %s' % ('did not return within %.1f s' % limit if st2 == 'timeout' else st2 if st2 != 'ok' else 'different shape / None')
                    inp = dict(inp, sequence=['history(selection)', 'read table_names, times, fulltimes, steps, num_times, title, simulator, time, step, index; table[key] for every selected row', 'history(selection)'])
                    n_repeat_failed += 1
                    fail('history:result-depends-on-earlier-lookups', obs, 'the same series whatever was looked up in the tables before (they are the stepping series)')
                    inp = inp_full
                    try: l2.close()
                    except Exception: pass
                    l2 = None
                if st2 != 'ok':
                    try:
                        if l2 is not None: l2.close()
                    except Exception: pass
                    l2 = None
            # ---- oracle: reader state as before, and a next()/prev() right after behaves
            if not (after[0] == before[0] and same_float(after[1], before[1]) and after[2] == before[2] and after[3] == before[3]):
                what = 'index' if after[0] != before[0] else 'time' if not same_float(after[1], before[1]) else 'step' if after[2] != before[2] else 'tables'
                fail('history:state-changed:' + what, '%s changed by history(): %r -> %r' % (what, before[:3], after[:3]), 'same current index, time, step and tables as before the call')
            if l2 is not None and (k < 12 or k % 4 == 0 or pl['thorough']):
                stats['next_prev_after'] = stats.get('next_prev_after', 0) + 1
                i0 = int(before[0])
                try:
                    if i0 < n - 1: mv, j = l2.next(), i0 + 1
                    elif i0 > 0: mv, j = l2.prev(), i0 - 1
                    else: mv, j = l2.next(), i0
                    s2 = nav.snap(l2, names)
                    if not ((mv == (j != i0)) and int(s2[0]) == j and same_float(s2[1], fresh[j][1]) and s2[2] == fresh[j][2] and s2[3] == fresh[j][3]):
                        fail('history:next-prev-after', 'after history() at index %d, next/prev returned %r and shows index %r' % (i0, mv, s2[0]), 'the neighbouring result set, as from the restored state')
                except Exception as e:
                    fail('history:next-prev-after', 'after history() at index %d, next()/prev() raised %s' % (i0, type(e).__name__), 'the neighbouring result set, as from the restored state')
                    try: l2.close()
                    except Exception: pass
                    l2 = None
            if len(samples) < 2 and got is not None:
                samples.append({'file': pl['label'], 'selection': nav.sel_to_json(sel), 'index': c['index'], 'first_values': [float(x) for x in got[0][1][:3]]})
    try:
        if l2 is not None: l2.close()
    except Exception: pass
    lst.close()
    res['stats'] = stats
    res['hyp'] = hyp
    res['ncalls'] = len(calls)
    res['samples'] = samples
    res['subsets'] = sorted(set('+'.join(c['tables']) for c in calls))
    res['wall'] = round(time.time() - t_start, 2)
    return res


def worker_main():
    pl = json.load(sys.stdin)
    json.dump(run_file(pl), sys.stdout, default=lambda o: o.item() if hasattr(o, 'item') else str(o))


WORKER = 'import props.C06 as m; m.worker_main()'


def run_all(ctx, exe, files, cap, timeout, calls_for=None):
    jobs = []
    for rel in files:
        jobs.append({'path': os.path.join(ctx.repo, rel), 'label': rel, 'inp': {'file': rel}, 'seed': ctx.rng.randrange(1 << 30), 'cap': cap,
                     'thorough': ctx.thorough, 'exe': exe, 'repo': ctx.repo, 'size': os.path.getsize(os.path.join(ctx.repo, rel)),
                     'calls': (calls_for or {}).get(rel)})
    for j in jobs:        # another listing of the same simulator, used in the same process before some of the calls
        fam = [x for x in files if os.path.dirname(os.path.dirname(x)) == os.path.dirname(os.path.dirname(j['label'])) and x != j['label']]
        later = [x for x in fam if x > j['label']]
        j['partner'] = (later or fam or [None])[0]
    jobs.sort(key=lambda j: (-(j['label'].find('TOUGHplus') >= 0), -j['size']))

    def one(j):
        try: return j, vf.run_impl(WORKER, j, timeout=timeout, repo=ctx.repo), None
        except subprocess.TimeoutExpired: return j, None, 'timeout'
        except Exception as e: return j, None, repr(e)[-1500:]
    with ThreadPoolExecutor(max_workers=min(8, vf.NPROC)) as ex:
        return list(ex.map(one, jobs))


def collect(ctx, results, timeout):
    tot = {}
    ncalls = 0
    sims = {}
    hyp = {}
    ntab_rows = 0
    nval_tables = nvals = 0
    for j, r, err in results:
        if err == 'timeout':
            ctx.failure('history-terminates', 'history:worker-timeout', j['inp'], 'the history calls on %s did not finish within %d s although each runs under its own limit' % (j['label'], timeout), 'every call returns')
            continue
        if err:
            ctx.proof_failures.append({'kind': 'harness', 'name': 'impl-runner:' + j['label'], 'detail': err})
            ctx.log('IMPLEMENTATION RUNNER FAILED on', j['label'], err[-600:]); continue
        ncalls += r['ncalls']
        sims.setdefault(r['sim'], [0, 0]); sims[r['sim']][0] += 1; sims[r['sim']][1] += r['ncalls']
        for k, v in r['stats'].items(): tot[k] = tot.get(k, 0) + v
        for k, v in r.get('hyp', {}).items(): hyp[k] = hyp.get(k, 0) + v
        if r.get('variant'): ctx.extra.setdefault('toughplus_skip_to_table_variant', {})[j['label']] = {'P': 'as found (hanging classes present)', 'Q': 'repaired'}[r['variant']]
        if r.get('hyp', {}).get('selections') and r['hyp']['wf_file'] != r['hyp']['selections']:
            ctx.log('NOTE: the abstraction of %s is not well-formed in the sense of wf_file (set shapes %s): the positive theorems say nothing about it' % (j['label'], r['sets']))
        for f in r['failures']:
            name = 'history-terminates' if 'did not return' in f['observed'] else ('history-restores-state' if 'state-changed' in f['key'] or 'next-prev' in f['key'] else 'history-eq-stepping')
            ctx.failure(name, f['key'], f['input'], f['observed'], f['required'])
        for d in r['disagreements']: ctx.disagreement('history-model-vs-t2listing', d['case'], d['model'], d['impl'])
        for d in r.get('row_disagreements', []): ctx.disagreement('row_line-model-vs-setup_table', d['case'], d['model'], d['impl'])
        ntab_rows += r.get('row_tables', 0)
        if r.get('values'):
            v = r['values']
            nval_tables += v['tables']; nvals += v['values']
            for d in v['disagreements']: ctx.disagreement('values-from-text-vs-history', d['case'], d['model'], d['impl'])
            if v.get('n_disagreements', 0) > len(v['disagreements']): ctx.corr['values-from-text-vs-history']['n_disagreements'] += v['n_disagreements'] - len(v['disagreements'])
            if v['skipped']: ctx.extra.setdefault('values_tables_skipped', {})[j['label']] = v['skipped']
        if r.get('repeated_rows'): ctx.extra.setdefault('repeated_rows', {})[j['label']] = r['repeated_rows']
        if r.get('repeated_rows_scan_note'): ctx.extra.setdefault('tables_the_line_scan_could_not_match', {})[j['label']] = r['repeated_rows_scan_note']
        if r.get('n_disagreements', 0) > len(r['disagreements']):
            ctx.corr['history-model-vs-t2listing']['n_disagreements'] += r['n_disagreements'] - len(r['disagreements'])
        for s in r['samples']: ctx.sample(s)
        for sub in r['subsets']: ctx.count((j['label'], 'subset', sub))
        ctx.evaluations += r['ncalls'] - len(r['subsets'])
        ctx.extra.setdefault('per_file', {})[j['label']] = {'sim': r['sim'], 'result_sets': r['n'], 'calls': r['ncalls'], 'table_subsets': len(r['subsets']),
                                                            'time_limit_s': r['limit'], 'set_shapes': r['sets'], 'wall_s': r['wall']}
    ctx.corr_cases('history-model-vs-t2listing', ncalls, files=len(results), **{k: v for k, v in tot.items()})
    ctx.corr_cases('row_line-model-vs-setup_table', ntab_rows)
    ctx.corr_cases('values-from-text-vs-history', nvals, tables=nval_tables)
    ctx.oracle_cases('history-eq-stepping', tot.get('ok', 0), items=tot.get('items', 0), values=tot.get('values', 0))
    ctx.oracle_cases('history-terminates', ncalls, timeouts=tot.get('timeout', 0))
    ctx.oracle_cases('history-restores-state', tot.get('ok', 0))
    ctx.extra['input_distribution'] = dict(tot, by_simulator={k: {'files': v[0], 'calls': v[1]} for k, v in sims.items()})
    if hyp.get('selections'):
        # hypotheses of history_eq_stepping / history_terminates_partial / history_hangs_on_class, evaluated by the extracted model
        # on the abstraction of every shipped file and every generated selection
        ctx.hyp_met.update({'wf_file': '%d of %d selections (all files)' % (hyp['wf_file'], hyp['selections']),
                            'wf_metas': '%d of %d' % (hyp['wf_metas'], hyp['selections']),
                            'covers': '%d of %d' % (hyp['covers'], hyp['selections']),
                            'file_hangs': '%d selections in the class; the real call did not return on %d of them' % (hyp['in_hang_class'], hyp['hang_class_and_timeout'])})


def run(ctx):
    ctx.rule = ('every shipped listing file; per file every non-empty subset of its tables (incl. subsets that skip intermediate tables) in 3 (thorough: 12) item orders '
                '(file order, reversed, shuffled), 1-2 items per table, rows by name / reversed connection name / integer index, first / last / random interior row, '
                'first / last / random column, plus every column (quick: first 6) x first/last/interior row on single tables; tuple and list forms; short = default/True/False on '
                'AUTOUGH2 files with short output; current index in {0, middle, last} (thorough: also random); a few items with a row name that is not in the table; of the table subsets in the known '
                'non-terminating class one call per subset and TOUGH+ file (thorough: four); a case is one history() call, distinct by file, table subset and selection')
    ctx.trusted += ['Coq 8.16.1 kernel (coqc); vm_compute only on closed terms inside proofs',
                    'hand model coq/C06/ListingHistory.v of history()/skip_to_table_* over the marker abstraction (validated on this run against the real calls, with the fuel bound proved in HistoryFuel.v)',
                    'abstraction of a file to table kinds per result set, obtained by tracing next_table (and the direct next_table_TOUGH2 calls) from outside during an ordinary read; AUTOUGH2 short sets by an independent scan',
                    'extraction: ExtrOcamlBasic + ExtrOcamlString, OCaml 4.13.1, ocaml/main.ml',
                    'time limit per call = max(3 s, 40 x the time of a one-item history() on the same file): a call that exceeds it is reported as non-terminating',
                    'the variant of skip_to_table_TOUGHplus (as found / repaired) is chosen by the behaviour of two probe selections and then validated by the correspondence']
    ctx.assumptions += ['rows are addressed by names or by indices inside the table; column names exist (a wrong column name raises KeyError in the middle of the scan)',
                        'row reading inside a table (skip_to_results_line, sequential readline, read_table_line) is abstract in the model (`cell`); the oracle covers it by comparing values',
                        'theorem hypotheses wf_file (per result set: tables named, distinct, in selection order; short sets only in AUTOUGH2 and printing exactly short_types), wf_metas and covers '
                        '(every selected table is printed at every scanned result set) are evaluated by the extracted model for every call: see hypotheses_met',
                        'short-output rows are identified by their printed name (the INDEX column of a cut-down listing is not the row number)']
    ctx.stage()
    ok = ctx.coq_build()
    exe = vf.build_driver(ctx) if ok else None
    files = nav.listing_files(ctx.repo)
    cap = 6000 if ctx.thorough else 240
    timeout = 3000 if ctx.thorough else 420
    results = run_all(ctx, exe, files, cap, timeout)
    collect(ctx, results, timeout)

    def deep(broken):
        res2 = run_all(ctx, None, files, cap * 4, timeout * 3)
        collect(ctx, res2, timeout * 3)
    return ctx.finish(deep_search=deep)


def replay(ctx, data):
    inp = data.get('input') or {}
    if 'file' not in inp or 'selection' not in inp: return True
    j = {'path': os.path.join(ctx.repo, inp['file']), 'label': inp['file'], 'inp': {'file': inp['file']}, 'seed': 0, 'cap': 1, 'thorough': False, 'exe': None,
         'repo': ctx.repo, 'partner': (inp.get('preceded_by') or {}).get('file'),
         'calls': [{'selection': inp['selection'], 'form': inp.get('form', 'list'), 'short': inp.get('short'), 'index': inp.get('index', 0),
                    'partner_first': bool(inp.get('preceded_by'))}]}
    try: r = vf.run_impl(WORKER, j, timeout=300, repo=ctx.repo)
    except subprocess.TimeoutExpired:
        print('replay: no result within 300 s'); return True
    for f in r['failures']: print('replay: %s -- %s (required: %s)' % (f['key'], f['observed'], f['required']))
    if not r['failures']: print('replay: history() returned, equals stepping and left the reader state unchanged')
    return bool(r['failures'])
