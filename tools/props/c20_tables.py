"""C20 translator (T): t2data.py -> Gen/GenConvert.v, via `ast` only (t2data is never imported here).

Read from the *current* source on every run, fail-closed (Refusal):

  module level     t2data_sections
  convert_AUTOUGH2_generators_to_TOUGH2
                   `allowed`, `convert`, the literal of `gen.type.startswith(<lit>)`
  convert_AUTOUGH2_parameters_to_TOUGH2 / convert_TOUGH2_parameters_to_AUTOUGH2
                   the LINEQ <-> MOP(21) constants (threshold, solver types, the lineq type list,
                   the lineq keys set to None, the MP solver type) and the *statement list* of the MOP
                   rewriting part (between `warnings = []` and the final `if warn ...`), translated
                   into the small program language of coq/C20/Lang.v (`ostmt`): option tests
                   (== > in), simulator prefix tests, MP, and/or/not, local boolean names inlined
  convert_to_TOUGH2 / convert_to_AUTOUGH2
                   'INFILE', the section keyword, '.dat' / '.DAT', the ljust width, default arguments
  eos_json         supported_eos, eos_from_index, the tracer EOS list, the diffusion EOS name
  generators_json  unsupported_types, mass_component keys, the type lists of the generator_json
                   dispatch, reinjection_contributors, makeup / reinjector type lists, the group type
  get_type         the two type names
"""
import ast, os
from translate import tables

Refusal = tables.Refusal


def where(n):
    return 'line %s' % getattr(n, 'lineno', '?')


class Walk:
    def __init__(self, repo, filename='t2data.py', classname='t2data'):
        self.path = os.path.join(repo, filename)
        self.mod = tables.Module(self.path)
        cls = [n for n in self.mod.tree.body if isinstance(n, ast.ClassDef) and n.name == classname]
        if len(cls) != 1: raise Refusal('class %s not found exactly once in %s' % (classname, filename))
        self.cls = cls[0]
        self.classname = classname

    def method(self, name):
        fs = [n for n in self.cls.body if isinstance(n, ast.FunctionDef) and n.name == name]
        if len(fs) != 1: raise Refusal('method %s.%s not found exactly once' % (self.classname, name))
        return fs[0]

    def ev(self, n):
        if isinstance(n, ast.Set): return [self.mod.ev(e) for e in n.elts]
        return self.mod.ev(n)

    def local_literal(self, fn, name, nested=True):
        """the single assignment `name = <literal>` inside fn (anywhere, incl. nested defs)"""
        found = []
        for n in ast.walk(fn):
            if isinstance(n, ast.Assign) and len(n.targets) == 1 and isinstance(n.targets[0], ast.Name) and n.targets[0].id == name:
                found.append(n)
        if len(found) != 1: raise Refusal('%s: expected exactly one assignment to %s, found %d' % (fn.name, name, len(found)))
        return self.ev(found[0].value)


def is_self_attr(n, attr):
    return isinstance(n, ast.Attribute) and isinstance(n.value, ast.Name) and n.value.id == 'self' and n.attr == attr


def option_index(n):
    """self.parameter['option'][K] -> K"""
    if isinstance(n, ast.Subscript) and isinstance(n.value, ast.Subscript) and is_self_attr(n.value.value, 'parameter'):
        k0 = n.value.slice
        if isinstance(k0, ast.Constant) and k0.value == 'option' and isinstance(n.slice, ast.Constant) and isinstance(n.slice.value, int) \
                and not isinstance(n.slice.value, bool) and 0 <= n.slice.value <= 24:
            return n.slice.value
    return None


def z(n):
    return '(%d)' % n if n < 0 else '%d' % n


def cs(s):
    return tables.coq_string(s)


class MopTranslator:
    """statement list -> list ostmt (Lang.v)"""
    def __init__(self, fname):
        self.fname = fname
        self.env = {}

    def refuse(self, n, msg):
        raise Refusal('%s %s: %s' % (self.fname, where(n), msg))

    def intconst(self, n):
        if isinstance(n, ast.Constant) and isinstance(n.value, (int, float)) and not isinstance(n.value, bool) and n.value == int(n.value):
            return int(n.value)
        self.refuse(n, 'integer constant expected')

    def test(self, n):
        if isinstance(n, ast.Name):
            if n.id == 'MP': return 'TMP'
            if n.id in self.env: return self.env[n.id]
            self.refuse(n, 'unknown name %s in a test' % n.id)
        if isinstance(n, ast.BoolOp):
            parts = [self.test(v) for v in n.values]
            op = 'TAnd' if isinstance(n.op, ast.And) else 'TOr'
            r = parts[-1]
            for p in reversed(parts[:-1]): r = '(%s %s %s)' % (op, p, r)
            return r
        if isinstance(n, ast.UnaryOp) and isinstance(n.op, ast.Not):
            return '(TNot %s)' % self.test(n.operand)
        if isinstance(n, ast.Compare) and len(n.ops) == 1:
            k = option_index(n.left)
            if k is None: self.refuse(n, 'comparison of something that is not an option digit')
            op, rhs = n.ops[0], n.comparators[0]
            if isinstance(op, ast.Eq): return '(TEq %d %s)' % (k, z(self.intconst(rhs)))
            if isinstance(op, ast.Gt): return '(TGt %d %s)' % (k, z(self.intconst(rhs)))
            if isinstance(op, ast.In) and isinstance(rhs, (ast.List, ast.Tuple)):
                return '(TIn %d [%s])' % (k, '; '.join(z(self.intconst(e)) for e in rhs.elts))
            self.refuse(n, 'comparison operator')
        if isinstance(n, ast.Call) and isinstance(n.func, ast.Attribute) and n.func.attr == 'startswith' \
                and is_self_attr(n.func.value, 'simulator') and len(n.args) == 1 and not n.keywords \
                and isinstance(n.args[0], ast.Constant) and isinstance(n.args[0].value, str):
            return '(TSimPrefix %s)' % cs(n.args[0].value)
        self.refuse(n, 'test expression %s' % type(n).__name__)

    def stmts(self, body):
        out = []
        for s in body:
            if isinstance(s, ast.Expr) and isinstance(s.value, ast.Call):
                f = s.value.func
                if isinstance(f, ast.Attribute) and f.attr == 'append' and isinstance(f.value, ast.Name) and f.value.id == 'warnings':
                    continue                                # warnings.append(...): no effect on the model
                if is_self_attr(f, 'convert_mulkom_heat_conductivity') and not s.value.args and not s.value.keywords:
                    out.append('ORescale'); continue
                self.refuse(s, 'call statement')
            if isinstance(s, ast.Assign) and len(s.targets) == 1:
                t = s.targets[0]
                k = option_index(t)
                if k is not None:
                    if isinstance(s.value, ast.Name) and s.value.id == 'solver_type': out.append('(OSet %d ESolver)' % k)
                    else: out.append('(OSet %d (EConst %s))' % (k, z(self.intconst(s.value))))
                    continue
                if isinstance(t, ast.Name) and t.id not in ('MP', 'solver_type', 'warnings'):
                    self.env[t.id] = self.test(s.value)     # local boolean, inlined where used
                    continue
                self.refuse(s, 'assignment target')
            if isinstance(s, ast.If):
                if s.orelse: self.refuse(s, '`else` in the MOP rewriting part')
                out.append('(OIf %s [%s])' % (self.test(s.test), '; '.join(self.stmts(s.body))))
                continue
            self.refuse(s, 'statement %s' % type(s).__name__)
        return out


def split_mop_part(fn):
    """statements strictly between `warnings = []` and the final `if warn and ...: print`"""
    body = fn.body
    if body and isinstance(body[0], ast.Expr) and isinstance(body[0].value, ast.Constant): body = body[1:]   # docstring
    idx = [i for i, s in enumerate(body) if isinstance(s, ast.Assign) and len(s.targets) == 1 and isinstance(s.targets[0], ast.Name)
           and s.targets[0].id == 'warnings' and isinstance(s.value, ast.List) and not s.value.elts]
    if len(idx) != 1: raise Refusal('%s: `warnings = []` not found exactly once' % fn.name)
    last = body[-1]
    ok = isinstance(last, ast.If) and not last.orelse and any(isinstance(x, ast.Name) and x.id == 'warn' for x in ast.walk(last.test)) \
        and all(isinstance(x, (ast.Expr, ast.For)) for x in last.body) \
        and not any(isinstance(x, (ast.Assign, ast.AugAssign, ast.Delete)) for x in ast.walk(last))
    if not ok: raise Refusal('%s: last statement is not the warning printout' % fn.name)
    return body[:idx[0]], body[idx[0] + 1:-1]


def dump(n):
    return ast.dump(n, annotate_fields=False)


def src_eq(node_list, template):
    """statement list equals (as AST) the parsed template text"""
    t = ast.parse(template).body
    return len(t) == len(node_list) and all(dump(a) == dump(b) for a, b in zip(node_list, t))


def ints_in(node, pred=lambda v: True):
    return [c.value for c in ast.walk(node) if isinstance(c, ast.Constant) and isinstance(c.value, int) and not isinstance(c.value, bool) and pred(c.value)]


def head_to_tough2(w, head):
    """MULTI / LINEQ part of convert_AUTOUGH2_parameters_to_TOUGH2: constants out of the fixed shape."""
    c = {}
    if len(head) != 4: raise Refusal('convert_AUTOUGH2_parameters_to_TOUGH2: %d statements before `warnings = []`, expected 4' % len(head))
    s_multi, s_lineq, s_clear, s_del = head
    # if self.multi: / if K in self.multi: del self.multi[K] / self.multi[K2] = None
    try:
        assert isinstance(s_multi, ast.If) and is_self_attr(s_multi.test, 'multi') and not s_multi.orelse and len(s_multi.body) == 2
        a, b = s_multi.body
        assert isinstance(a, ast.If) and not a.orelse and isinstance(a.test, ast.Compare) and isinstance(a.test.ops[0], ast.In)
        key = a.test.left.value
        assert isinstance(key, str) and is_self_attr(a.test.comparators[0], 'multi')
        assert len(a.body) == 1 and isinstance(a.body[0], ast.Delete) and dump(a.body[0]) == dump(ast.parse('del self.multi[%r]' % key).body[0])
        assert isinstance(b, ast.Assign) and isinstance(b.value, ast.Constant) and b.value.value is None
        t = b.targets[0]
        assert isinstance(t, ast.Subscript) and is_self_attr(t.value, 'multi') and isinstance(t.slice.value, str)
        c['multi_del_key'], c['multi_none_key'] = key, t.slice.value
    except (AssertionError, AttributeError, IndexError):
        raise Refusal('convert_AUTOUGH2_parameters_to_TOUGH2 %s: MULTI part has an unexpected shape' % where(s_multi))
    try:
        assert isinstance(s_lineq, ast.If) and is_self_attr(s_lineq.test, 'lineq') and len(s_lineq.body) == 1 and len(s_lineq.orelse) == 1
        inner = s_lineq.body[0]
        assert isinstance(inner, ast.If) and len(inner.body) == 1 and len(inner.orelse) == 1
        cmp_ = inner.test
        assert isinstance(cmp_, ast.Compare) and isinstance(cmp_.ops[0], ast.LtE) and len(cmp_.ops) == 1
        lhs = cmp_.left
        assert isinstance(lhs, ast.Subscript) and is_self_attr(lhs.value, 'lineq') and isinstance(lhs.slice.value, str)
        def st(a):
            assert isinstance(a, ast.Assign) and isinstance(a.targets[0], ast.Name) and a.targets[0].id == 'solver_type'
            v = a.value.value
            assert isinstance(v, int) and not isinstance(v, bool)
            return v
        c['lineq_type_key'] = lhs.slice.value
        c['lineq_threshold'] = cmp_.comparators[0].value
        assert isinstance(c['lineq_threshold'], int)
        c['solver_le'], c['solver_gt'], c['solver_nolineq'] = st(inner.body[0]), st(inner.orelse[0]), st(s_lineq.orelse[0])
    except (AssertionError, AttributeError, IndexError):
        raise Refusal('convert_AUTOUGH2_parameters_to_TOUGH2 %s: LINEQ part has an unexpected shape' % where(s_lineq))
    if not src_eq([s_clear], 'self.lineq = {}'): raise Refusal('convert_AUTOUGH2_parameters_to_TOUGH2 %s: expected `self.lineq = {}`' % where(s_clear))
    try:
        call = s_del.value
        assert isinstance(s_del, ast.Expr) and is_self_attr(call.func, 'delete_section') and len(call.args) == 1 and isinstance(call.args[0].value, str)
        c['lineq_section'] = call.args[0].value
    except (AssertionError, AttributeError):
        raise Refusal('convert_AUTOUGH2_parameters_to_TOUGH2 %s: expected self.delete_section(<keyword>)' % where(s_del))
    return c


def head_to_autough2(w, head):
    c = {}
    if len(head) != 7: raise Refusal('convert_TOUGH2_parameters_to_AUTOUGH2: %d statements before `warnings = []`, expected 7' % len(head))
    s_multi, s_solver, s_types, s_ltype, s_lineq, s_ins, s_clear = head
    try:
        assert isinstance(s_multi, ast.If) and is_self_attr(s_multi.test, 'multi') and not s_multi.orelse and len(s_multi.body) == 1
        b = s_multi.body[0]
        assert isinstance(b, ast.Assign) and b.value.value is None and is_self_attr(b.targets[0].value, 'multi')
        c['multi_none_key'] = b.targets[0].slice.value
        assert isinstance(c['multi_none_key'], str)
    except (AssertionError, AttributeError, IndexError):
        raise Refusal('convert_TOUGH2_parameters_to_AUTOUGH2 %s: MULTI part has an unexpected shape' % where(s_multi))
    try:
        assert isinstance(s_solver, ast.If) and isinstance(s_solver.test, ast.Name) and s_solver.test.id == 'MP'
        assert len(s_solver.body) == 1 and len(s_solver.orelse) == 1
        a = s_solver.body[0]
        assert isinstance(a, ast.Assign) and a.targets[0].id == 'solver_type' and isinstance(a.value.value, int)
        c['mp_solver'] = a.value.value
        inner = s_solver.orelse[0]
        assert isinstance(inner, ast.If) and len(inner.body) == 1 and len(inner.orelse) == 1
        t = inner.test
        assert isinstance(t, ast.Compare) and isinstance(t.ops[0], ast.In) and is_self_attr(t.comparators[0], 'solver') and isinstance(t.left.value, str)
        c['solver_type_key'] = t.left.value
        assert dump(inner.body[0]) == dump(ast.parse('solver_type = self.solver[%r]' % t.left.value).body[0])
        e = inner.orelse[0]
        assert isinstance(e, ast.Assign) and e.targets[0].id == 'solver_type'
        c['solver_option'] = option_index(e.value)
        assert c['solver_option'] is not None
    except (AssertionError, AttributeError, IndexError):
        raise Refusal('convert_TOUGH2_parameters_to_AUTOUGH2 %s: solver-type part has an unexpected shape' % where(s_solver))
    try:
        assert isinstance(s_types, ast.Assign) and isinstance(s_types.targets[0], ast.Name) and s_types.targets[0].id == 'lineq_types'
        table = w.ev(s_types.value)
        assert isinstance(table, list) and table and all(isinstance(v, int) and not isinstance(v, bool) for v in table)
        dflt = s_ltype.value.orelse.value
        assert isinstance(dflt, int) and not isinstance(dflt, bool)
        assert src_eq([s_ltype], 'lineq_type = lineq_types[solver_type] if 0 <= solver_type < len(lineq_types) else %d' % dflt)
        assert isinstance(s_lineq, ast.Assign) and is_self_attr(s_lineq.targets[0], 'lineq') and isinstance(s_lineq.value, ast.Dict)
        keys = [k.value for k in s_lineq.value.keys]
        vals = s_lineq.value.values
        assert all(isinstance(k, str) for k in keys) and len(set(keys)) == len(keys)
        assert isinstance(vals[0], ast.Name) and vals[0].id == 'lineq_type'
        assert all(isinstance(v, ast.Constant) and v.value is None for v in vals[1:])
        c['lineq_type_key'], c['lineq_table'], c['lineq_none_keys'], c['lineq_default'] = keys[0], table, keys[1:], dflt
    except (AssertionError, AttributeError, IndexError, Refusal):
        raise Refusal('convert_TOUGH2_parameters_to_AUTOUGH2 %s: the LINEQ type table / `self.lineq = {...}` has an unexpected shape' % where(s_types))
    try:
        call = s_ins.value
        assert isinstance(s_ins, ast.Expr) and is_self_attr(call.func, 'insert_section') and len(call.args) == 1 and isinstance(call.args[0].value, str)
        c['lineq_section'] = call.args[0].value
    except (AssertionError, AttributeError):
        raise Refusal('convert_TOUGH2_parameters_to_AUTOUGH2 %s: expected self.insert_section(<keyword>)' % where(s_ins))
    if not src_eq([s_clear], 'self.solver = {}'): raise Refusal('convert_TOUGH2_parameters_to_AUTOUGH2 %s: expected `self.solver = {}`' % where(s_clear))
    return c


def nodoc(fn):
    b = fn.body
    if b and isinstance(b[0], ast.Expr) and isinstance(b[0].value, ast.Constant) and isinstance(b[0].value.value, str): b = b[1:]
    return b


def top_level(w):
    """convert_to_TOUGH2 / convert_to_AUTOUGH2 / get_type / set_type: fixed statement order, constants captured."""
    c = {}
    f = w.method('convert_to_TOUGH2')
    b = nodoc(f)
    try:
        assert [a.arg for a in f.args.args] == ['self', 'warn', 'MP'] and [d.value for d in f.args.defaults] == [True, False]
        assert len(b) == 6
        s0 = b[0]
        assert isinstance(s0, ast.If) and isinstance(s0.test, ast.Name) and s0.test.id == 'MP' and not s0.orelse and len(s0.body) == 1
        a = s0.body[0]
        assert isinstance(a, ast.Assign) and is_self_attr(a.targets[0], 'filename') and isinstance(a.value.value, str)
        c['mp_filename'] = a.value.value
        # the two statements clearing the simulator come before (as found) or after the parameter conversion
        if src_eq([b[1]], "self.simulator = ''"):
            c['clears_simulator_first'] = True
            clear, rest = b[1:3], b[3:]
        else:
            c['clears_simulator_first'] = False
            clear, rest = b[2:4], [b[1]] + b[4:]
        assert src_eq([clear[0]], "self.simulator = ''")
        call = clear[1].value
        assert is_self_attr(call.func, 'delete_section') and isinstance(call.args[0].value, str)
        c['simul_section'] = call.args[0].value
        assert src_eq(rest, 'self.convert_AUTOUGH2_parameters_to_TOUGH2(warn, MP)\nself.convert_AUTOUGH2_generators_to_TOUGH2(warn)\nself.convert_short_to_history()')
    except (AssertionError, AttributeError, IndexError):
        raise Refusal('convert_to_TOUGH2 %s: statement list differs from the modelled one' % where(f))
    f = w.method('convert_to_AUTOUGH2')
    b = nodoc(f)
    try:
        assert [a.arg for a in f.args.args] == ['self', 'warn', 'MP', 'simulator', 'eos']
        d = [x.value for x in f.args.defaults]
        assert d[:2] == [True, False] and isinstance(d[2], str) and isinstance(d[3], str)
        c['default_simulator'], c['default_eos'] = d[2], d[3]
        assert len(b) == 6
        s0 = b[0]
        assert isinstance(s0, ast.If) and is_self_attr(s0.test, 'filename') and not s0.orelse and len(s0.body) == 1
        s1 = s0.body[0]
        assert isinstance(s1, ast.If) and not s1.orelse and len(s1.body) == 1
        ends = s1.test.operand.args[0].value
        s2 = s1.body[0]
        up, lo = s2.body[0].value.value, s2.orelse[0].value.value
        tmpl = ("if self.filename:\n if not self.filename.lower().endswith(%r):\n  if self.filename[0].isupper(): self.filename += %r\n"
                "  else: self.filename += %r" % (ends, up, lo))
        assert src_eq([s0], tmpl)
        c['dat_suffix'], c['dat_upper'], c['dat_lower'] = ends, up, lo
        s = b[1]
        width = s.value.left.args[0].value
        assert isinstance(width, int) and src_eq([s], 'self.simulator = simulator.ljust(%d) + eos' % width)
        c['sim_width'] = width
        call = b[2].value
        assert is_self_attr(call.func, 'insert_section') and call.args[0].value == c['simul_section']
        key = b[3].body[0].targets[0].slice.value
        assert isinstance(key, str) and src_eq([b[3]], 'if self.multi: self.multi[%r] = eos' % key)
        c['multi_eos_key'] = key
        assert src_eq(b[4:], 'self.convert_TOUGH2_parameters_to_AUTOUGH2(warn, MP)\nself.convert_history_to_short()')
    except (AssertionError, AttributeError, IndexError, TypeError):
        raise Refusal('convert_to_AUTOUGH2 %s: statement list differs from the modelled one' % where(f))
    f = w.method('get_type')
    b = nodoc(f)
    try:
        a, t = b[0].body[0].value.value, b[0].orelse[0].value.value
        assert src_eq(b, 'if self.simulator: return %r\nelse: return %r' % (a, t))
        c['type_autough2'], c['type_tough2'] = a, t
    except (AssertionError, AttributeError, IndexError):
        raise Refusal('get_type %s: unexpected shape' % where(f))
    f = w.method('set_type')
    b = nodoc(f)
    tmpl = ("if value in [%r, %r]:\n oldtype = self.type\n if oldtype != value:\n  if oldtype == %r: self.convert_to_TOUGH2()\n"
            "  elif oldtype == %r: self.convert_to_AUTOUGH2()\nelse: raise Exception('Data file type ' + value + ' is not supported.')"
            % (c['type_autough2'], c['type_tough2'], c['type_autough2'], c['type_tough2']))
    if not src_eq(b, tmpl): raise Refusal('set_type %s: statement list differs from the modelled one' % where(f))
    return c


def generators_conv(w):
    f = w.method('convert_AUTOUGH2_generators_to_TOUGH2')
    c = {'allowed': w.local_literal(f, 'allowed'), 'convert': w.local_literal(f, 'convert')}
    if not (isinstance(c['allowed'], list) and all(isinstance(x, str) for x in c['allowed'])): raise Refusal('allowed is not a list of strings')
    if not (isinstance(c['convert'], dict) and all(isinstance(k, str) and isinstance(v, str) for k, v in c['convert'].items())):
        raise Refusal('convert is not a str -> str dict')
    pre = [n.args[0].value for n in ast.walk(f) if isinstance(n, ast.Call) and isinstance(n.func, ast.Attribute) and n.func.attr == 'startswith'
           and len(n.args) == 1 and isinstance(n.args[0], ast.Constant) and isinstance(n.args[0].value, str)]
    if len(pre) != 1: raise Refusal('convert_AUTOUGH2_generators_to_TOUGH2: expected one startswith(<literal>) test, found %d' % len(pre))
    c['allowed_prefix'] = pre[0]
    # does the function delete anything?  (recorded; the hand model follows the statement list the check was written against)
    c['mutates_lists'] = any(isinstance(n, ast.Delete) for n in ast.walk(f)) or any(
        isinstance(n, ast.Call) and isinstance(n.func, ast.Attribute) and n.func.attr in ('delete_generator', 'remove', 'pop', 'clear_generators')
        for n in ast.walk(f)) or any(isinstance(n, ast.Assign) and any(is_self_attr(t, 'generatorlist') or is_self_attr(t, 'generator') or
                                     (isinstance(t, ast.Subscript) and (is_self_attr(t.value, 'generatorlist') or is_self_attr(t.value, 'generator')))
                                     for t in n.targets) for n in ast.walk(f))
    return c


def short_history(w):
    c = {}
    f = w.method('convert_short_to_history')
    keys = [n.left.value for n in ast.walk(f) if isinstance(n, ast.Compare) and isinstance(n.ops[0], ast.In) and is_self_attr(n.comparators[0], 'short_output')
            and isinstance(n.left, ast.Constant)]
    if len(keys) != 3: raise Refusal('convert_short_to_history: expected three `<key> in self.short_output` tests')
    c['short_keys'] = keys
    f = w.method('convert_history_to_short')
    keys2 = [n.targets[0].slice.value for n in ast.walk(f) if isinstance(n, ast.Assign) and isinstance(n.targets[0], ast.Subscript)
             and is_self_attr(n.targets[0].value, 'short_output') and isinstance(n.targets[0].slice, ast.Constant)]
    if keys2 != keys: raise Refusal('convert_history_to_short: short_output keys %r differ from those of convert_short_to_history %r' % (keys2, keys))
    return c


def eos_tables(w):
    f = w.method('eos_json')
    c = {'supported_eos': w.local_literal(f, 'supported_eos'), 'eos_from_index': w.local_literal(f, 'eos_from_index')}
    if not (isinstance(c['supported_eos'], dict) and all(isinstance(k, str) and isinstance(v, str) for k, v in c['supported_eos'].items())):
        raise Refusal('supported_eos is not a str -> str dict')
    if not (isinstance(c['eos_from_index'], dict) and all(isinstance(k, int) and isinstance(v, str) for k, v in c['eos_from_index'].items())):
        raise Refusal('eos_from_index is not an int -> str dict')
    # `if aut2eosname in [<tracer eos names>]:` and `if aut2eosname == <diffusion eos>:` and the 'w' test
    lists = [w.ev(n.comparators[0]) for n in ast.walk(f) if isinstance(n, ast.Compare) and isinstance(n.ops[0], ast.In) and isinstance(n.left, ast.Name)
             and n.left.id == 'aut2eosname' and isinstance(n.comparators[0], (ast.List, ast.Tuple))]
    if len(lists) != 1: raise Refusal('eos_json: expected one `aut2eosname in [..]` test')
    c['tracer_eos'] = list(lists[0])
    eqs = [n.comparators[0].value for n in ast.walk(f) if isinstance(n, ast.Compare) and isinstance(n.ops[0], ast.Eq) and isinstance(n.left, ast.Name)
           and n.left.id == 'aut2eosname' and isinstance(n.comparators[0], ast.Constant)]
    if len(eqs) != 1: raise Refusal('eos_json: expected one `aut2eosname == <literal>` test')
    c['diffusion_eos'] = eqs[0]
    ws = [n.comparators[0].value for n in ast.walk(f) if isinstance(n, ast.Compare) and isinstance(n.ops[0], ast.Eq) and isinstance(n.left, ast.Subscript)
          and isinstance(n.comparators[0], ast.Constant) and isinstance(n.comparators[0].value, str)]
    if len(ws) != 1: raise Refusal("eos_json: expected one `jsondata['eos']['name'] == <literal>` test")
    c['temperature_eos'] = ws[0]
    keys = [n.left.value for n in ast.walk(f) if isinstance(n, ast.Compare) and isinstance(n.ops[0], ast.In) and isinstance(n.left, ast.Constant)
            and is_self_attr(n.comparators[0], 'multi')]
    if len(keys) != 1: raise Refusal('eos_json: expected one `<key> in self.multi` test')
    c['multi_eos_key'] = keys[0]
    return c


def generator_tables(w):
    f = w.method('generators_json')
    c = {}
    for name in ('unsupported_types', 'reinjection_contributors'):
        v = w.local_literal(f, name)
        if not (isinstance(v, list) and all(isinstance(x, str) for x in v)): raise Refusal('%s is not a set/list of strings' % name)
        c[name] = sorted(v)
    c['eos_num_equations'] = w.local_literal(f, 'eos_num_equations')
    inner = [n for n in ast.walk(f) if isinstance(n, ast.FunctionDef) and n.name == 'generator_json']
    if len(inner) != 1: raise Refusal('generators_json: nested generator_json not found')
    # the dict literal itself (values may mention num_eqns): keys only
    d = [n for n in ast.walk(inner[0]) if isinstance(n, ast.Assign) and isinstance(n.targets[0], ast.Name) and n.targets[0].id == 'mass_component']
    c['mass_component_types'] = [k.value for k in d[0].value.keys]
    # dispatch chain at the end of generator_json: if gen.type in mass_component / == 'DELV' / in [...] / == 'RECH' / in [...]
    chain = [s for s in inner[0].body if isinstance(s, ast.If) and isinstance(s.test, ast.Compare) and dump(s.test.left) == dump(ast.parse('gen.type').body[0].value)]
    if len(chain) != 1: raise Refusal('generator_json: dispatch chain not found exactly once')
    kinds, s = [], chain[0]
    while True:
        t = s.test
        if not (isinstance(t, ast.Compare) and len(t.ops) == 1 and dump(t.left) == dump(ast.parse('gen.type').body[0].value)):
            raise Refusal('generator_json %s: dispatch test' % where(s))
        if not (len(s.body) == 1 and isinstance(s.body[0], ast.Assign) and isinstance(s.body[0].value, ast.Call) and isinstance(s.body[0].value.func, ast.Name)):
            raise Refusal('generator_json %s: dispatch body' % where(s))
        fn = s.body[0].value.func.id
        rhs = t.comparators[0]
        if isinstance(t.ops[0], ast.Eq) and isinstance(rhs, ast.Constant): kinds.append((fn, [rhs.value]))
        elif isinstance(t.ops[0], ast.In) and isinstance(rhs, ast.Name) and rhs.id == 'mass_component': kinds.append((fn, list(c['mass_component_types'])))
        elif isinstance(t.ops[0], ast.In) and isinstance(rhs, (ast.List, ast.Tuple)): kinds.append((fn, list(w.ev(rhs))))
        else: raise Refusal('generator_json %s: dispatch test' % where(s))
        if not s.orelse: break
        if len(s.orelse) == 1 and isinstance(s.orelse[0], ast.If): s = s.orelse[0]
        else: raise Refusal('generator_json %s: dispatch else' % where(s))
    c['dispatch'] = kinds
    # main loop: the `gen.type != <group type>` test guarding sources.append, makeup / reinjector lists
    loop = [n for n in f.body if isinstance(n, ast.If) and is_self_attr(n.test, 'generatorlist')]
    if len(loop) != 1: raise Refusal('generators_json: `if self.generatorlist:` not found exactly once')
    grp = [n for n in ast.walk(loop[0]) if isinstance(n, ast.If) and isinstance(n.test, ast.Compare) and isinstance(n.test.ops[0], ast.NotEq)
           and dump(n.test.left) == dump(ast.parse('gen.type').body[0].value) and isinstance(n.test.comparators[0], ast.Constant)
           and len(n.body) == 1 and dump(n.body[0]) == dump(ast.parse('sources.append(g)').body[0])]
    if len(grp) != 1: raise Refusal('generators_json: `if gen.type != <group type>: sources.append(g)` not found exactly once')
    c['group_type'] = grp[0].test.comparators[0].value
    appends = [n for n in ast.walk(f) if isinstance(n, ast.Call) and isinstance(n.func, ast.Attribute) and n.func.attr == 'append'
               and isinstance(n.func.value, ast.Name) and n.func.value.id == 'sources']
    if len(appends) != 1: raise Refusal('generators_json: sources.append occurs %d times' % len(appends))
    return c


# ---------------------------------------------------------------- hand-modelled methods: statement lists must be the modelled ones
# (compared as ASTs, docstrings and comments aside; %(name)s holes are the literals captured above)
HAND_MODELLED = {
    'get_present_sections': """
data_present = dict(zip(
    t2data_sections,
    [self.simulator,
     self.grid and self.grid.rocktypelist,
     self.parameter,
     np.any(self.more_option),
     self.start,
     self.noversion,
     self.relative_permeability or self.capillarity,
     self.lineq,
     self.solver,
     self.multi,
     self.output_times,
     self.selection,
     self.diffusion,
     self.grid,
     self.grid,
     self.meshmaker,
     self.generatorlist,
     self.short_output,
     self.history_block,
     self.history_connection,
     self.history_generator,
     self.incon,
     self.indom]))
return [keyword for keyword in t2data_sections if data_present[keyword]]
""",
    'insert_section': """
if section not in self._sections:
    i = self.section_insertion_index(section)
    self._sections.insert(i, section)
""",
    'delete_section': """
try: self._sections.remove(section)
except ValueError: pass
""",
    'section_insertion_index': """
try:
    listindex = t2data_sections.index(section)
    if listindex == 0: return 0
    else:
        for i in reversed(range(listindex)):
            try:
                section_index = self._sections.index(t2data_sections[i])
                return section_index + 1
            except ValueError: pass
        for i in range(listindex, len(t2data_sections)):
            try:
                section_index = self._sections.index(t2data_sections[i])
                return section_index
            except ValueError: pass
        return len(self._sections)
except ValueError: return len(self._sections)
""",
    'update_sections': """
present = self.present_sections
missing = [keyword for keyword in present if keyword not in self._sections]
for keyword in missing: self.insert_section(keyword)
extra = [keyword for keyword in self._sections if keyword not in present]
for keyword in extra: self.delete_section(keyword)
""",
    'convert_AUTOUGH2_generators_to_TOUGH2': """
allowed = %(allowed)r
convert = %(convert)r
delgens, keepgens = [], []
for gen in self.generatorlist:
    if gen.type in convert: gen.type = convert[gen.type]
    elif not ((gen.type in allowed) or gen.type.startswith(%(allowed_prefix)r)):
        delgens.append((gen.block, gen.name))
        continue
    keepgens.append(gen)
self.generatorlist[:] = keepgens
self.generator = dict([((gen.block, gen.name), gen) for gen in keepgens])
if 'generator' in self.short_output:
    self.short_output['generator'] = [gen for gen in self.short_output['generator']
                                      if gen in keepgens]
if warn and len(delgens) > 0:
    print('The following generators have types not supported' + \
          ' by TOUGH2 and have been deleted:')
    print(delgens)
""",
    'convert_short_to_history': """
if 'block' in self.short_output:
    self.history_block = self.short_output['block'][:]
if 'connection' in self.short_output:
    self.history_connection = self.short_output['connection'][:]
if 'generator' in self.short_output:
    self.history_generator = []
    for gen in self.short_output['generator']:
        blk = self.grid.block[gen.block] if gen.block in self.grid.block \
              else gen.block
        if blk not in self.history_generator: self.history_generator.append(blk)
self.short_output = {}
""",
    'convert_history_to_short': """
self.short_output = {}
if self.history_block:
    blks = [self.grid.block[blk] if blk in self.grid.block else blk
            for blk in self.history_block]
    blks = [blk for blk in blks if isinstance(blk, t2block)]
    if blks: self.short_output['block'] = blks
if self.history_connection:
    cons = [self.grid.connection[con] if con in self.grid.connection else con
            for con in self.history_connection]
    cons = [con for con in cons if isinstance(con, t2connection)]
    if cons: self.short_output['connection'] = cons
if self.history_generator:
    blknames = [blk.name if isinstance(blk, t2block) else blk
                for blk in self.history_generator]
    gens = [gen for gen in self.generatorlist if gen.block in blknames]
    if gens: self.short_output['generator'] = gens
self.history_block = []
self.history_connection = []
self.history_generator = []
""",
    'add_generator': """
if generator is None: generator = t2generator()
self.generatorlist.append(generator)
self.generator[(generator.block, generator.name)] = self.generatorlist[-1]
""",
}


GEOMETRY_MODELLED = {
    'get_num_atmosphere_blocks': """
return [1, self.num_columns, 0][self.atmosphere_type]
""",
    'setup_block_name_index': """
self.block_name_list = []
if self.num_layers > 0:
    if self.atmosphere_type  ==  0:
        self.block_name_list.append(
            self.block_name(self.layerlist[0].name, self.atmosphere_column_name))
    elif self.atmosphere_type == 1:
        for col in self.columnlist:
            self.block_name_list.append(
                self.block_name(self.layerlist[0].name, col.name))
    if self.block_order is None or self.block_order == 'layer_column':
        self.block_name_list += self.block_name_list_layer_column()
    elif self.block_order == 'dmplex':
        self.block_name_list += self.block_name_list_dmplex()
    else:
        raise Exception('Unrecognised mulgrid block order: %s' % self.block_order)
self.block_name_index = dict([(blk, i) for i, blk in enumerate(self.block_name_list)])
""",
    'block_name_list_layer_column': """
names = []
for lay in self.layerlist[1:]:
    for col in [col for col in self.columnlist if col.surface > lay.bottom]:
        blkname = self.block_name(lay.name, col.name)
        names.append(blkname)
return names
""",
    'block_name_list_dmplex': """
blocknames = {6: [], 8: []}
for lay in self.layerlist[1:]:
    for col in [col for col in self.columnlist if col.surface > lay.bottom]:
        blkname = self.block_name(lay.name, col.name)
        num_block_nodes = 2 * col.num_nodes
        try:
            blocknames[num_block_nodes].append(blkname)
        except KeyError:
            raise Exception('Blocks with %d nodes not supported by DMPlex ordering' %
                            num_block_nodes)
return blocknames[8] + blocknames[6]
""",
}

EFFECTIVE_INCONS = """
default_incs = self.parameter['default_incons'][:]
default_incs = trim_trailing_nones(default_incs)
effective_incs = default_incs
if self.indom or self.incon or incons:
    effective_incs = self.grid.incons(default_incs)
    if self.indom:
        for blk in self.grid.blocklist:
            if blk.rocktype.name in self.indom:
                effective_incs[blk.name] = self.indom[blk.rocktype.name]
    if self.incon:
        for blkname in self.incon:
            effective_incs[blkname] = self.incon[blkname][1]
    if isinstance(incons, t2incon):
        for blkinc in incons:
            effective_incs[blkinc.block] = blkinc.variable
return effective_incs
"""

INITIAL_LOOP = """
for blkname in geo.block_name_list[geo.num_atmosphere_blocks:]:
    primary = incons[blkname].variable
    jsondata['initial']['primary'].append(primary[:num_primary])
    jsondata['initial']['region'].append(primary_to_region(primary))
    if tracer: jsondata['initial']['tracer'].append(primary[num_primary])
"""

BOUNDARY_LOOP = """
for blk in self.grid.blocklist:
    if not (0. < blk.volume < atmos_volume):
        if isinstance(bdy_incons, t2incon):
            pv = bdy_incons[blk.name].variable
        else:
            pv = bdy_incons
        reg = primary_to_region(pv)
        bc = {'primary': pv[:num_primary], 'region': reg, 'faces': []}
        if tracer: bc['tracer'] = pv[num_primary]
        for conname in blk.connection_name:
            nz = -self.grid.connection[conname].dircos
            vertical_connection = abs(nz) > vertical_tolerance
            names = list(conname)
            names.remove(blk.name)
            interior_blkname = names[0]
            interior_blk = self.grid.block[interior_blkname]
            if 0. < interior_blk.volume < atmos_volume:
                cell_index = geo.block_name_index[interior_blkname] - geo.num_atmosphere_blocks
                if blk.centre is None:
                    if vertical_connection:
                        normal = np.array([0., 0., nz])
                    else:
                        raise Exception("Can't find normal vector for connection: " +
                                        str(conname))
                else:
                    normal = blk.centre - interior_blk.centre
                normal /= np.linalg.norm(normal)
                if mesh_coords != 'xyz':
                    if vertical_connection:
                        if mesh_coords in ['xz', 'yz', 'rz']:
                            normal = normal[[0,2]]
                        elif mesh_coords == 'xy': normal = None
                    else: normal = normal[[0,1]]
                if normal is not None:
                    bc['faces'].append({"cells": [cell_index],
                                        "normal": list(normal)})
        normals = np.array([spec['normal'] for spec in bc['faces']])
        if bc['faces'] and np.isclose(normals, normals[0], rtol = 1.e-8).all():
            allcells = []
            for spec in bc['faces']:
                allcells += spec['cells']
            bc['faces'] = {"cells": allcells,
                           "normal": bc['faces'][0]["normal"]}
        if bc['faces']:
            if isinstance(bc['faces'], list) and \
               len(bc['faces']) == 1: bc['faces'] = bc['faces'][0]
            jsondata['boundaries'].append(bc)
"""


def export_bookkeeping(repo, w):
    """the statement lists the second part of WaiweraJson.v follows (block order, initial conditions, boundary faces)"""
    import textwrap
    g = Walk(repo, 'mulgrids.py', 'mulgrid')
    for name, tmpl in GEOMETRY_MODELLED.items():
        f = g.method(name)
        if not src_eq(nodoc(f), textwrap.dedent(tmpl)):
            raise Refusal('mulgrid.%s %s: the statement list differs from the modelled one (coq/C20/WaiweraJson.v)' % (name, where(f)))
    f = w.method('effective_incons')
    if not src_eq(nodoc(f), textwrap.dedent(EFFECTIVE_INCONS)):
        raise Refusal('effective_incons %s: the statement list differs from the modelled one' % where(f))
    f = w.method('initial_json')
    loops = [n for n in ast.walk(f) if isinstance(n, ast.For) and isinstance(n.iter, ast.Subscript)
             and isinstance(n.iter.value, ast.Attribute) and n.iter.value.attr == 'block_name_list']
    if len(loops) != 1 or not src_eq(loops, textwrap.dedent(INITIAL_LOOP)):
        raise Refusal('initial_json %s: the loop over the underground blocks differs from the modelled one' % where(f))
    f = w.method('boundaries_json')
    loops = [n for n in ast.walk(f) if isinstance(n, ast.For) and isinstance(n.iter, ast.Attribute) and n.iter.attr == 'blocklist']
    if len(loops) != 1 or not src_eq(loops, textwrap.dedent(BOUNDARY_LOOP)):
        raise Refusal('boundaries_json %s: the loop over the boundary blocks differs from the modelled one' % where(f))
    f = w.method('json')
    calls = [n.func.attr for n in ast.walk(f) if isinstance(n, ast.Call) and isinstance(n.func, ast.Attribute) and isinstance(n.func.value, ast.Name)
             and n.func.value.id == 'self' and n.func.attr.endswith(('_json', 'effective_incons'))]
    want = ['mesh_json', 'eos_json', 'timestepping_json', 'output_json', 'rocks_json', 'relative_permeability_json', 'capillary_pressure_json',
            'effective_incons', 'initial_json', 'boundaries_json', 'generators_json']
    if sorted(calls) != sorted(want): raise Refusal('json %s: calls %r differ from the modelled composition' % (where(f), calls))


SEPARATOR_TMPL = """
if P is None: Psep = %(sep_default)r
else:
    if P > 0.: Psep = P
    elif P < 0: Psep = [%(sep_high)r, %(sep_default)r]
    else: Psep = %(sep_default)r
return {'pressure': Psep}
"""

INTERP_TMPL = """
if self.parameter['option'][12] == 0:
    interp_type, averaging_type = "linear", "endpoint"
elif self.parameter['option'][12] == 1:
    interp_type, averaging_type = "step", "endpoint"
else:
    interp_type, averaging_type = "linear", "integrate"
"""

GENERATOR_JSON_TMPL = """
mass_component = %(mass_component)s

def specified_injection_generator_json(g, gen):
    if tracer and gen.type in %(tracer_types)r:
        g['tracer'] = gen.gx
    else:
        g['rate'] = gen.gx
        if gen.type == 'MASD': injection = False
        else:
            injection = gen.gx > 0. or \\
                        (gen.time and any([r > 0. for r in gen.rate]))
        if injection:
            g['component'] = mass_component[gen.type]
            if gen.type != 'HEAT': g['enthalpy'] = gen.ex
        else:
            if gen.type == 'MASS':
                g['separator'] = separator(gen.hg)
            elif gen.type == 'MASD':
                g['deliverability'] = {'productivity': gen.ex,
                                       'pressure': gen.fg,
                                       'threshold': gen.hg}
                g['limiter'] = {'total': abs(gen.gx)}
                g['separator'] = separator(gen.fg)
                g['direction'] = 'production'
    return g

def delv_generator_json(g, gen):
    ltab = 0 if gen.ltab is None else gen.ltab
    if ltab > 1:
        raise Exception('DELV generator with multiple layers not supported.')
    else:
        g['deliverability'] = {'productivity': gen.gx,
                               'pressure': gen.ex}
        if gen.gx >= 0.:
            g['direction'] = 'production'
            g['separator'] = separator(gen.fg)
        else:
            g['direction'] = 'injection'
            g['enthalpy'] = gen.fg
    return g

def geothermal_deliverability_generator_json(g, gen):
    g['deliverability'] = {'productivity': gen.gx,
                           'pressure': gen.ex}
    g['separator'] = separator(gen.fg)
    if gen.hg is not None:
        if gen.hg > 0.:
            g['limiter'] = {limit_type[gen.type]: gen.hg}
        elif gen.hg < 0. and gen.type in %(rate_from_hg)r:
            g['rate'] = gen.hg
            del g['deliverability']['productivity']
    if gen.type == 'DELS': g['production_component'] = 2
    g['direction'] = 'production'
    return g

def recharge_generator_json(g, gen):
    g['enthalpy'] = gen.ex
    if (gen.hg is not None) and gen.hg != 0.:
        rech = {}
        g['direction'] = "both"
        if gen.fg is not None:
            if gen.fg < 0.: g['direction'] = "out"
            elif gen.fg > 0.: g['direction'] = "in"
        if gen.hg > 0.: rech['pressure'] = gen.hg
        else: rech['pressure'] = 'initial'
        rech['coefficient'] = gen.gx
        g['recharge'] = rech
    else:
        g['rate'] = gen.gx
    return g

def injectivity_generator_json(g, gen):
    if gen.type == 'XINJ': g['enthalpy'] = gen.ex
    g['direction'] = 'injection'
    g['injectivity'] = {'pressure': gen.hg,
                        'coefficient': abs(gen.fg)}
    if gen.gx > 0:
        g['limiter'] = {'total': gen.gx}
    return g

def table_generator_json(g, gen):
    g['interpolation'] = interp_type
    g['averaging'] = averaging_type
    data_table = [list(r) for r in zip(gen.time, gen.rate)]
    if gen.type in %(table_types)r:
        ltab = 0 if gen.ltab is None else gen.ltab
        if ltab > 0:
            g['deliverability']['productivity'] = {'time': data_table}
        else:
            g['deliverability']['pressure'] = {'enthalpy': data_table}
    elif tracer and gen.type in %(tracer_types)r:
        g['tracer'] = data_table
    else:
        if gen.rate: g['rate'] = data_table
        if gen.enthalpy:
            g['enthalpy'] = [list(r) for r in zip(gen.time, gen.enthalpy)]
    return g

if gen.block in geo.block_name_index:
    cell_index = geo.block_name_index[gen.block] - geo.num_atmosphere_blocks
    if cell_index < 0: cell_index = None
else:
    cell_index = None
g = {'name': unique_name(gen), 'cell': cell_index}

if gen.type in mass_component:
    g = specified_injection_generator_json(g, gen)
elif gen.type == 'DELV':
    g = delv_generator_json(g, gen)
elif gen.type in %(geothermal_types)r:
    g = geothermal_deliverability_generator_json(g, gen)
elif gen.type == 'RECH':
    g = recharge_generator_json(g, gen)
elif gen.type in %(injectivity_types)r:
    g = injectivity_generator_json(g, gen)

if gen.time:
    g = table_generator_json(g, gen)
return g
"""


def strip_docstrings(nodes):
    """drops the docstrings of (nested) function definitions, in place"""
    for n in nodes:
        for f in ast.walk(n):
            if isinstance(f, ast.FunctionDef): f.body = nodoc(f)
    return nodes


def source_values(w, c):
    """generators_json: the value parts of a source (coq/C20/SourceJson.v) -- tables out of the AST, statement lists compared"""
    import textwrap
    f = w.method('generators_json')
    v = {}
    inner = [n for n in ast.walk(f) if isinstance(n, ast.FunctionDef) and n.name == 'generator_json'][0]
    sep = [n for n in f.body if isinstance(n, ast.FunctionDef) and n.name == 'separator']
    if len(sep) != 1: raise Refusal('generators_json: nested separator() not found')
    nums = [x.value for x in ast.walk(sep[0]) if isinstance(x, ast.Constant) and isinstance(x.value, float) and x.value != 0.0]
    if len(nums) != 4 or len(set(nums)) != 2: raise Refusal('separator %s: expected two distinct pressure constants' % where(sep[0]))
    lst = [x for x in ast.walk(sep[0]) if isinstance(x, ast.List)]
    if len(lst) != 1 or len(lst[0].elts) != 2: raise Refusal('separator %s: expected one two-pressure list' % where(sep[0]))
    v['sep_high'], v['sep_default'] = lst[0].elts[0].value, lst[0].elts[1].value
    if not src_eq(nodoc(sep[0]), textwrap.dedent(SEPARATOR_TMPL % v)): raise Refusal('separator %s: statement list differs from the modelled one' % where(sep[0]))
    chain = [n for n in f.body if isinstance(n, ast.If) and isinstance(n.test, ast.Compare) and option_index(n.test.left) == 12]
    if len(chain) != 1 or not src_eq(chain, textwrap.dedent(INTERP_TMPL)): raise Refusal('generators_json: the MOP(12) interpolation choice differs from the modelled one')
    d = [n for n in inner.body if isinstance(n, ast.Assign) and isinstance(n.targets[0], ast.Name) and n.targets[0].id == 'mass_component']
    if len(d) != 1 or not isinstance(d[0].value, ast.Dict): raise Refusal('generator_json: mass_component dict not found')
    mc = []
    for k, val in zip(d[0].value.keys, d[0].value.values):
        if not (isinstance(k, ast.Constant) and isinstance(k.value, str)): raise Refusal('mass_component key')
        if isinstance(val, ast.Constant) and isinstance(val.value, int) and not isinstance(val.value, bool): mc.append((k.value, val.value))
        elif isinstance(val, ast.Name) and val.id == 'num_eqns': mc.append((k.value, None))
        else: raise Refusal('mass_component[%r] %s: neither an integer nor num_eqns' % (k.value, where(val)))
    v['mass_component_list'] = mc
    v['mass_component'] = '{' + ', '.join('%r: %s' % (k, 'num_eqns' if z is None else z) for k, z in mc) + '}'
    v['limit_type'] = w.local_literal(f, 'limit_type')
    if not (isinstance(v['limit_type'], dict) and all(isinstance(a, str) and isinstance(b, str) for a, b in v['limit_type'].items())): raise Refusal('limit_type is not a str -> str dict')
    def fn(name): return [n for n in inner.body if isinstance(n, ast.FunctionDef) and n.name == name][0]
    def type_lists(node): return [w.ev(n.comparators[0]) for n in ast.walk(node) if isinstance(n, ast.Compare) and isinstance(n.ops[0], ast.In)
                                  and isinstance(n.comparators[0], ast.List) and dump(n.left) == dump(ast.parse('gen.type').body[0].value)]
    try:
        v['tracer_types'] = type_lists(fn('specified_injection_generator_json'))[0]
        v['rate_from_hg'] = type_lists(fn('geothermal_deliverability_generator_json'))[0]
        tl = type_lists(fn('table_generator_json'))
        v['table_types'] = tl[0]
        disp = dict(c['gj']['dispatch'])
        v['geothermal_types'] = disp['geothermal_deliverability_generator_json']
        v['injectivity_types'] = disp['injectivity_generator_json']
    except (IndexError, KeyError):
        raise Refusal('generator_json %s: type lists of the nested functions not found' % where(inner))
    body = strip_docstrings(nodoc(inner))
    if not src_eq(body, textwrap.dedent(GENERATOR_JSON_TMPL % v)):
        raise Refusal('generator_json %s: the statement lists of the nested functions differ from the modelled ones (coq/C20/SourceJson.v)' % where(inner))
    return v


def hand_modelled(w, c):
    import textwrap
    holes = dict(c['gen'])
    for name, tmpl in HAND_MODELLED.items():
        f = w.method(name)
        text = textwrap.dedent(tmpl % holes if '%(' in tmpl else tmpl)
        if not src_eq(nodoc(f), text):
            raise Refusal('%s %s: the statement list differs from the one the hand model (coq/C20/Convert.v) was written against' % (name, where(f)))
    # rocks_json / generators_json loops the export model follows
    f = w.method('rocks_json')
    loop = [n for n in f.body if isinstance(n, ast.For) and isinstance(n.iter, ast.Attribute) and n.iter.attr == 'block_name_list']
    tmpl = """
for blkname in geo.block_name_list:
    blk = self.grid.block[blkname]
    rockname = blk.rocktype.name
    blk_index = geo.block_name_index[blk.name] - geo.num_atmosphere_blocks
    if 0. < blk.volume < atmos_volume:
        jsondata['rock']['types'][rock_index[rockname]]['cells'].append(blk_index)
"""
    if len(loop) != 1 or not src_eq(loop, textwrap.dedent(tmpl)):
        raise Refusal('rocks_json %s: the block loop differs from the modelled one' % where(f))
    f = w.method('generators_json')
    inner = [n for n in ast.walk(f) if isinstance(n, ast.FunctionDef) and n.name == 'generator_json'][0]
    cell = [n for n in inner.body if isinstance(n, ast.If) and isinstance(n.test, ast.Compare) and isinstance(n.test.ops[0], ast.In)
            and isinstance(n.test.comparators[0], ast.Attribute) and n.test.comparators[0].attr == 'block_name_index']
    tmpl = """
if gen.block in geo.block_name_index:
    cell_index = geo.block_name_index[gen.block] - geo.num_atmosphere_blocks
    if cell_index < 0: cell_index = None
else:
    cell_index = None
"""
    if len(cell) != 1 or not src_eq(cell, textwrap.dedent(tmpl)):
        raise Refusal('generators_json %s: the cell index computation differs from the modelled one' % where(inner))
    nxt = inner.body[inner.body.index(cell[0]) + 1]
    if not src_eq([nxt], "g = {'name': unique_name(gen), 'cell': cell_index}"):
        raise Refusal("generators_json %s: expected g = {'name': unique_name(gen), 'cell': cell_index}" % where(nxt))
    f = w.method('eos_json')
    body = nodoc(f)
    sel = [n for n in body if isinstance(n, ast.If) and isinstance(n.test, ast.Compare) and isinstance(n.test.ops[0], ast.Is)]
    tmpl = """
if eos is None:
    if self.multi:
        if %(k)r in self.multi:
            if self.multi[%(k)r]: aut2eosname = self.multi[%(k)r].strip()
    if not aut2eosname and self.simulator:
        for eosname in supported_eos.keys():
            if self.simulator.strip().endswith(eosname):
                aut2eosname = eosname
else:
    if isinstance(eos, int):
        eos_from_index = %(idx)r
        if eos in eos_from_index: aut2eosname = eos_from_index[eos]
    else: aut2eosname = eos
""" % {'k': c['eos']['multi_eos_key'], 'idx': c['eos']['eos_from_index']}
    if len(sel) != 1 or not src_eq(sel, textwrap.dedent(tmpl)):
        raise Refusal('eos_json %s: the EOS name selection differs from the modelled one' % where(f))


def collect(repo):
    w = Walk(repo)
    c = {'sections': w.mod.literal('t2data_sections')}
    if not (isinstance(c['sections'], list) and all(isinstance(s, str) for s in c['sections']) and len(set(c['sections'])) == len(c['sections'])):
        raise Refusal('t2data_sections is not a duplicate-free list of strings')
    c['top'] = top_level(w)
    c['gen'] = generators_conv(w)
    c['sh'] = short_history(w)
    f = w.method('convert_AUTOUGH2_parameters_to_TOUGH2')
    head, mop = split_mop_part(f)
    c['t2_head'] = head_to_tough2(w, head)
    c['t2_prog'] = MopTranslator(f.name).stmts(mop)
    f = w.method('convert_TOUGH2_parameters_to_AUTOUGH2')
    head, mop = split_mop_part(f)
    c['au_head'] = head_to_autough2(w, head)
    c['au_prog'] = MopTranslator(f.name).stmts(mop)
    c['eos'] = eos_tables(w)
    c['gj'] = generator_tables(w)
    hand_modelled(w, c)
    export_bookkeeping(repo, w)
    c['sv'] = source_values(w, c)
    f = w.method('convert_mulkom_heat_conductivity')
    if not src_eq(nodoc(f), 'for rt in self.grid.rocktypelist:\n rt.conductivity *= (1. - rt.porosity)'):
        raise Refusal('convert_mulkom_heat_conductivity: body differs from `conductivity *= (1. - porosity)` over rocktypelist')
    return c


HEADER = '''(* GENERATED by tools/props/c20_tables.py from the current /repo/t2data.py -- do not edit *)
From Coq Require Import Ascii String List Bool ZArith.
From P Require Import Lang.
Import ListNotations.
Local Open Scope string_scope.
Local Open Scope Z_scope.

'''


def slist(l):
    return '[' + '; '.join(cs(s) for s in l) + ']'


def emit(c):
    o = [HEADER]
    d = lambda name, ty, val: o.append('Definition %s : %s := %s.\n' % (name, ty, val))
    d('t2data_sections', 'list string', slist(c['sections']))
    t = c['top']
    d('mp_filename', 'string', cs(t['mp_filename']))
    d('simul_section', 'string', cs(t['simul_section']))
    d('t2_clears_simulator_first', 'bool', 'true' if t['clears_simulator_first'] else 'false')
    d('default_simulator', 'string', cs(t['default_simulator']))
    d('default_eos', 'string', cs(t['default_eos']))
    d('dat_suffix', 'string', cs(t['dat_suffix']))
    d('dat_upper', 'string', cs(t['dat_upper']))
    d('dat_lower', 'string', cs(t['dat_lower']))
    d('sim_width', 'nat', '%d%%nat' % t['sim_width'])
    d('multi_eos_key', 'string', cs(t['multi_eos_key']))
    d('type_autough2', 'string', cs(t['type_autough2']))
    d('type_tough2', 'string', cs(t['type_tough2']))
    g = c['gen']
    d('gen_allowed', 'list string', slist(g['allowed']))
    d('gen_convert', 'list (string * string)', '[' + '; '.join('(%s, %s)' % (cs(k), cs(v)) for k, v in g['convert'].items()) + ']')
    d('gen_allowed_prefix', 'string', cs(g['allowed_prefix']))
    d('gen_conversion_mutates_lists', 'bool', 'true' if g['mutates_lists'] else 'false')
    d('short_keys', 'list string', slist(c['sh']['short_keys']))
    h = c['t2_head']
    d('t2_multi_del_key', 'string', cs(h['multi_del_key']))
    d('t2_multi_none_key', 'string', cs(h['multi_none_key']))
    d('t2_lineq_type_key', 'string', cs(h['lineq_type_key']))
    d('t2_lineq_threshold', 'Z', z(h['lineq_threshold']))
    d('t2_solver_le', 'Z', z(h['solver_le']))
    d('t2_solver_gt', 'Z', z(h['solver_gt']))
    d('t2_solver_nolineq', 'Z', z(h['solver_nolineq']))
    d('t2_lineq_section', 'string', cs(h['lineq_section']))
    d('mop_prog_t2', 'list ostmt', '[\n  ' + ';\n  '.join(c['t2_prog']) + ']')
    h = c['au_head']
    d('au_multi_none_key', 'string', cs(h['multi_none_key']))
    d('au_mp_solver', 'Z', z(h['mp_solver']))
    d('au_solver_type_key', 'string', cs(h['solver_type_key']))
    d('au_solver_option', 'nat', '%d%%nat' % h['solver_option'])
    d('au_lineq_type_key', 'string', cs(h['lineq_type_key']))
    d('au_lineq_table', 'list Z', '[' + '; '.join(z(v) for v in h['lineq_table']) + ']')
    d('au_lineq_default', 'Z', z(h['lineq_default']))
    d('au_lineq_none_keys', 'list string', slist(h['lineq_none_keys']))
    d('au_lineq_section', 'string', cs(h['lineq_section']))
    d('mop_prog_au', 'list ostmt', '[\n  ' + ';\n  '.join(c['au_prog']) + ']')
    e = c['eos']
    d('supported_eos', 'list (string * string)', '[' + '; '.join('(%s, %s)' % (cs(k), cs(v)) for k, v in e['supported_eos'].items()) + ']')
    d('eos_from_index', 'list (Z * string)', '[' + '; '.join('(%s, %s)' % (z(k), cs(v)) for k, v in e['eos_from_index'].items()) + ']')
    d('tracer_eos', 'list string', slist(e['tracer_eos']))
    d('diffusion_eos', 'string', cs(e['diffusion_eos']))
    d('temperature_eos', 'string', cs(e['temperature_eos']))
    d('eos_multi_key', 'string', cs(e['multi_eos_key']))
    j = c['gj']
    d('unsupported_types', 'list string', slist(j['unsupported_types']))
    d('reinjection_contributors', 'list string', slist(j['reinjection_contributors']))
    d('mass_component_types', 'list string', slist(j['mass_component_types']))
    d('generator_dispatch', 'list (string * list string)', '[' + ';\n  '.join('(%s, %s)' % (cs(fn), slist(ts)) for fn, ts in j['dispatch']) + ']')
    d('group_type', 'string', cs(j['group_type']))
    v = c['sv']
    q = lambda x: '(%d, %d)' % float(x).as_integer_ratio()
    d('sep_default', 'Z * Z', q(v['sep_default']))
    d('sep_high', 'Z * Z', q(v['sep_high']))
    d('mass_component', 'list (string * option Z)', '[' + '; '.join('(%s, %s)' % (cs(k), 'None' if n is None else 'Some %s' % z(n)) for k, n in v['mass_component_list']) + ']')
    d('limit_type', 'list (string * string)', '[' + '; '.join('(%s, %s)' % (cs(a), cs(b)) for a, b in v['limit_type'].items()) + ']')
    d('tracer_source_types', 'list string', slist(v['tracer_types']))
    d('rate_from_hg_types', 'list string', slist(v['rate_from_hg']))
    d('table_deliverability_types', 'list string', slist(v['table_types']))
    for name, val in (('masd_type', 'MASD'), ('heat_type', 'HEAT'), ('mass_type', 'MASS'), ('dels_type', 'DELS'), ('xinj_type', 'XINJ'),
                      ('interp_linear', 'linear'), ('interp_step', 'step'), ('avg_endpoint', 'endpoint'), ('avg_integrate', 'integrate')):
        d(name, 'string', cs(val))          # literals of the compared statement lists
    d('eos_num_equations', 'list (string * Z)', '[' + '; '.join('(%s, %s)' % (cs(k), z(v)) for k, v in j['eos_num_equations'].items()) + ']')
    return ''.join(o)


def generate(repo):
    c = collect(repo)
    return emit(c), c
