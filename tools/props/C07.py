"""C07 -- what a listing shows at a given time does not depend on how you navigated there.

tie: H.  coq/C07/ListingNav.v is a hand model of t2listing's navigation (first/last/next/prev,
index/time/step setters, history) as a state machine over an abstract listing; its theorems
hold for every operation sequence.  The correspondence extracts the abstract listing of every
shipped file (and truncated copies) through the public API, feeds it and batches of operation
sequences to the extracted model and compares the observable state after EVERY operation with
the real object.  The oracle (independent of the model) is the property statement itself:
after every operation the navigated object is compared with a freshly opened listing
positioned directly at the reported index.

How many sequences are run on a listing is computed up front by plan_counts from the file size, the
number of result sets and the alphabet size (integer arithmetic, no clock), so a run is reproducible
from its seed whatever the machine load; the only wall-clock items are guards that end a hang
(GUARD_S per action, the worker timeout), which on a healthy reader never fire.

The helpers of this module (file discovery, truncated copies, selections) are also used by C06."""
import os, sys, json, math, hashlib, random, shutil, tempfile, itertools, re, subprocess, time
from fractions import Fraction
from concurrent.futures import ThreadPoolExecutor
import vf

KEY_NONUNIFORM = 'read_tables:%s:table-absent-at-first-time'
SENT_A, SENT_B = -1.2345e-300, 9.8765e+300

# ---------------------------------------------------------------------------------------------
# files


def listing_files(repo):
    """The shipped listing files: everything under tests/listing that is not an expected-value
    array (*.npy) or an editor backup (*~), relative to the repo."""
    root = os.path.join(repo, 'tests', 'listing')
    out = []
    for d, _, fs in sorted(os.walk(root)):
        for f in sorted(fs):
            if f.endswith('.npy') or f.endswith('~'): continue
            out.append(os.path.relpath(os.path.join(d, f), repo))
    return out


def result_set_offsets(data):
    """Byte offsets at which the full result sets of a listing start, found without the reader:
    TOUGH2 family: lines starting (after blanks) with 'OUTPUT DATA AFTER'; AUTOUGH2: the
    first of the three 'EEEEE' keyword lines of each full result set (header open, header close, table end)."""
    offs_t2, offs_au = [], []
    pos = 0
    n_e = 0
    for line in data.split(b'\n'):
        if line.lstrip().lower().startswith(b'output data after'): offs_t2.append(pos)
        if line[1:6] == b'EEEEE':
            n_e += 1
            if n_e % 3 == 1: offs_au.append(pos)
        pos += len(line) + 1
    return offs_au if offs_au else offs_t2


def make_truncated(src, k, tmpdir):
    """Copy of `src` cut just before its (k+1)-th full result set (same base name, so that the
    TOUGH2_MP file-name detection still applies).  Returns None if the file has <= k sets."""
    data = open(src, 'rb').read()
    offs = result_set_offsets(data)
    if k >= len(offs): return None
    d = os.path.join(tmpdir, hashlib.blake2b(('%s|%d' % (src, k)).encode(), digest_size=6).hexdigest())
    os.makedirs(d, exist_ok=True)
    p = os.path.join(d, os.path.basename(src))
    with open(p, 'wb') as f: f.write(data[:offs[k]])
    return p


def materialise(repo, inp, tmpdir):
    """The file an input dict talks about: a shipped file, optionally truncated to k result sets,
    optionally with one printed number replaced."""
    src = os.path.join(repo, inp['file'])
    path = src
    if inp.get('truncate_to'):
        path = make_truncated(src, inp['truncate_to'], tmpdir)
        if path is None: raise ValueError('cannot truncate %s to %s result sets' % (inp['file'], inp['truncate_to']))
    pt = inp.get('perturbation')
    if pt:
        lines = open(path, 'rb').read().split(b'\n')
        ln = pt['line'] - 1
        old, new = pt['old'].encode('latin-1'), pt['new'].encode('latin-1')
        if old not in lines[ln]: raise ValueError('perturbation does not apply: line %d has no %r' % (pt['line'], pt['old']))
        col = pt.get('column')
        if col is None: lines[ln] = lines[ln].replace(old, new, 1)
        else: lines[ln] = lines[ln][:col] + new + lines[ln][col + len(old):]
        d = os.path.join(tmpdir, 'pert-' + hashlib.blake2b(json.dumps(inp, sort_keys=True, default=str).encode(), digest_size=6).hexdigest())
        os.makedirs(d, exist_ok=True)
        path = os.path.join(d, os.path.basename(src))
        with open(path, 'wb') as f: f.write(b'\n'.join(lines))
    return path

# ---------------------------------------------------------------------------------------------
# implementation side (runs in a subprocess: `python -c "import props.C07 as m; m.worker_main()"`)


def table_spec(name):
    return {'element': 'e', 'element1': 'e1', 'element2': 'e2', 'connection': 'c', 'generation': 'g', 'primary': 'p'}.get(name)


def hang_class(simulator, table_names):
    """C06 finding classifier: the closed formula (coq/C06 `hangs`) for selections on which
    history() does not return: TOUGH+ readers, element2 selected without both element and element1."""
    s = set(table_names)
    return simulator == 'TOUGH+' and 'element2' in s and not ('element' in s and 'element1' in s)


def open_listing(path, skip_tables=None):
    from t2listing import t2listing
    return t2listing(path, skip_tables=skip_tables) if skip_tables else t2listing(path)


def tables_of(lst):
    """table names in file order (public: lst.table_names is sorted; the history order is the file order)"""
    order = ['element', 'element1', 'connection', 'primary', 'element2', 'generation']
    names = list(lst.table_names)
    return [n for n in order if n in names] + [n for n in names if n not in order]


def snap(lst, names):
    return (lst.index, lst.time, lst.step, [getattr(lst, n)._data.tobytes() for n in names])


def access_keys(lst, names):
    """The keys through which every table is read after EVERY action, fixed once per listing and re-used
    on the same object before and after navigating: up to three rows (first, middle, last) by index, by
    row name and -- where the table accepts it -- by the row name with its parts REVERSED."""
    keys = {}
    for nme in names:
        t = getattr(lst, nme)
        ks = []
        for r in (sorted(set([0, t.num_rows // 2, t.num_rows - 1])) if t.num_rows else []):
            rn = t.row_name[r]
            ks += [r, rn]
            if isinstance(rn, tuple) and len(rn) > 1 and t.allow_reverse_keys: ks.append(rn[::-1])
        keys[nme] = ks
    return keys


def access_view(lst, names, keys):
    """What the public access paths of the tables show: per table (reached as the attribute lst.<name>)
    the bytes of every column table[col] and the row dictionaries table[i], table[name], table[reversed name]."""
    import numpy as np
    out = []
    for nme in names:
        t = getattr(lst, nme)
        cols = [np.ascontiguousarray(t[c]).tobytes() for c in t.column_name]
        rows = []
        for k in keys[nme]:
            d = t[k]
            rows.append(None if d is None else (repr(d.get('key')), np.array([d[c] for c in t.column_name], dtype=float).tobytes()))
        out.append((cols, rows))
    return out


def view_difference(names, keys, a, b, lst):
    """first access path on which two access_views differ (None if equal)"""
    for nme, (ca, ra), (cb, rb) in zip(names, a, b):
        t = getattr(lst, nme)
        for c, x, y in zip(t.column_name, ca, cb):
            if x != y: return '%s[%r] (column)' % (nme, c)
        for k, x, y in zip(keys[nme], ra, rb):
            if x != y: return '%s[%r] (row)' % (nme, k)
    return None


def dig(b):
    return int.from_bytes(hashlib.blake2b(b, digest_size=5).digest(), 'big')


class Abstract:
    """The abstract listing of ListingNav.v extracted from a real file through the reader's public
    interface: per result set the time, step and, per table, which cells read_tables assigns
    (measured by pre-filling the arrays with two different sentinels through table[row] = v)
    and a digest of the assigned values.  Cells are grouped by their assignment pattern over
    the result sets, so a uniform table is one model cell."""

    def __init__(self, path, skip_tables=None):
        import numpy as np
        self.np = np
        lst = open_listing(path, skip_tables)
        self.sim = lst.simulator
        self.n = lst.num_fulltimes
        self.names = tables_of(lst)
        self.times = [float(t) for t in lst.fulltimes]
        self.steps = list(lst.fullsteps)
        self.family = lst.read_tables.__func__.__name__.replace('read_tables_', '').replace('TOUGHplus', 'TOUGH+')
        tabs = [getattr(lst, n) for n in self.names]
        self.shape = [t._data.shape for t in tabs]
        self.zero_bytes = [np.zeros(s).tobytes() for s in self.shape]

        def fill(v):
            for t in tabs:
                for r in range(t.num_rows): t[r] = v
        assigned, values, hdr = [], [], []
        for i in range(self.n):
            fill(SENT_A); lst.index = i
            a = [t._data.copy() for t in tabs]
            fill(SENT_B); lst.index = i
            b = [t._data.copy() for t in tabs]
            assigned.append([~((x == SENT_A) & (y == SENT_B)) for x, y in zip(a, b)])
            values.append(b)
            hdr.append((lst.time, lst.step))
        lst.close()
        self.hdr = hdr
        # groups of cells with the same assignment pattern
        self.groups = []      # per table: list of flat index arrays
        self.nonuniform = []  # (set index, table name, unassigned cells, total)
        for ti, name in enumerate(self.names):
            ncell = int(np.prod(self.shape[ti])) if len(self.shape[ti]) else 0
            if ncell == 0:
                self.groups.append([]); continue
            pat = np.stack([assigned[i][ti].reshape(-1) for i in range(self.n)], axis=1)
            uniq, inv = np.unique(pat, axis=0, return_inverse=True)
            inv = np.asarray(inv).reshape(-1)
            self.groups.append([np.where(inv == g)[0] for g in range(len(uniq))])
            for i in range(self.n):
                un = int((~assigned[i][ti]).sum())
                if un: self.nonuniform.append((i, name, un, ncell))
        self.assigned, self.values = assigned, values

    def group_digests(self, arrays):
        """model view of a list of table arrays (numpy): per table the digests of its cell groups"""
        return [[dig(arr.reshape(-1)[g].tobytes()) for g in gs] for arr, gs in zip(arrays, self.groups)]

    def cells_at(self, i):
        out = []
        for ti, gs in enumerate(self.groups):
            row = []
            for g in gs:
                asg = self.assigned[i][ti].reshape(-1)[g]
                if asg.all(): row.append(dig(self.values[i][ti].reshape(-1)[g].tobytes()))
                elif not asg.any(): row.append(None)
                else: raise AssertionError('group with mixed assignment')
            out.append(row)
        return out


def scale_for(floats):
    den = 1
    for x in floats:
        d = Fraction(x).denominator
        if d > den: den = d
    return den


def zint(x, den):
    fr = Fraction(x) * den
    return str(fr.numerator) if fr.denominator == 1 else 'X%s' % fr


def fmt_tabs(digs):
    return ''.join(''.join('%d,' % c for c in t) + '|' for t in digs)


def fmt_cells(cells):
    return ''.join(''.join(('-,' if c is None else '%d,' % c) for c in t) + '|' for t in cells)


def op_token(op, den):
    k = op[0]
    if k == 'first': return 'F'
    if k == 'last': return 'L'
    if k == 'next': return 'N'
    if k == 'prev': return 'P'
    if k == 'index': return 'I%d' % op[1]
    if k == 'time': return 'T' + zint(op[1], den)
    if k == 'step': return 'S%d' % op[1]
    if k == 'history': return 'H'
    if k == 'history0': return 'U'          # history() in which no specification matches
    raise ValueError(op)


def apply_op(lst, op, sels):
    """Perform one navigation action through the public interface; returns the outcome token."""
    k = op[0]
    try:
        if k == 'first': lst.first(); return '-'
        if k == 'last': lst.last(); return '-'
        if k == 'next': return 'T' if lst.next() else 'F'
        if k == 'prev': return 'T' if lst.prev() else 'F'
        if k == 'index': lst.index = op[1]; return '-'
        if k == 'time': lst.time = op[1]; return '-'
        if k == 'step': lst.step = op[1]; return '-'
        if k in ('history', 'history0'):
            sel = sels[op[1]] if isinstance(op[1], int) else sel_from_json(op[1])
            lst.history(sel); return '-'
    except Exception as e:
        return type(e).__name__
    raise ValueError(op)


def sel_to_json(sel):
    return [[t, list(k) if isinstance(k, tuple) else k, c] for (t, k, c) in sel]


def sel_from_json(js):
    return [(t, tuple(k) if isinstance(k, list) else k, c) for (t, k, c) in js]


def nav_selections(lst, names, sim):
    """Two history selections per listing for the navigation alphabet (the full selection space
    is C06's business); never in the known non-terminating class."""
    sels = []
    if 'element' in names:
        t = lst.element
        sels.append([('e', t.row_name[0], t.column_name[0])])
    cand = [n for n in names if n != 'element' and table_spec(n) and not hang_class(sim, [n, 'element'] if 'element' in names else [n])]
    if cand:
        n2 = cand[-1]; t2 = getattr(lst, n2)
        s = [(table_spec(n2), t2.num_rows - 1, t2.column_name[-1])]
        if 'element' in names:
            s.append(('e', lst.element.row_name[-1], lst.element.column_name[min(1, lst.element.num_columns - 1)]))
        sels.append(s)
    if not sels:
        n0 = names[0]; t0 = getattr(lst, n0)
        if table_spec(n0) and not hang_class(sim, [n0]): sels.append([(table_spec(n0), 0, t0.column_name[0])])
    return sels


def nav_unmatched_selections(lst, names, thorough):
    """history() selections with specifications that match nothing in this listing:
    returns (mixed, unmatched).  `unmatched`: every specification fails (a table kind the listing
    does not have -- 'e5' never exists --, a row name that does not occur, both together): history()
    returns None early.  `mixed`: a matching specification together with a failing one."""
    col0 = lst.element.column_name[0] if 'element' in names else 'X'
    absent = [k for k in ('c', 'g', 'p') if {'c': 'connection', 'g': 'generation', 'p': 'primary'}[k] not in names]
    kind = absent[0] if absent else 'e5'
    key = 'zz999' if kind in ('p', 'e5') else ('zz998', 'zz999')
    no_table = (kind, key, 'X')
    no_row = ('e', 'zz999', col0)
    unmatched = [[no_table], [no_row, no_table]]
    if thorough: unmatched += [[no_row]] + ([[('e5', 7, 'X')]] if kind != 'e5' else [])
    mixed = []
    if 'element' in names:
        mixed.append([('e', lst.element.row_name[0], col0), no_row, no_table])
    return mixed, unmatched


def op_json(o, sels):
    """an action as it is written into a replay file"""
    if o[0] in ('history', 'history0'): return [o[0], sel_to_json(sels[o[1]]) if isinstance(o[1], int) else o[1]]
    return list(o)


def alphabet(ab, nsel, thorough, nunmatched=0):
    """The actions tried on one listing.  index: both ends, negative, just outside the range;
    time/step: exact hits, a midpoint (tie), a point nearer the LOWER and a point nearer the UPPER
    neighbour of an interval (so that a rule that always takes one side is seen), before the
    first and after the last; history with the listing's selections."""
    n, T, S = ab.n, ab.times, ab.steps
    ops = [('first',), ('last',), ('next',), ('prev',)]
    idxs = [0, n - 1, -1, -n, n, -n - 1]
    if n > 2: idxs += [1, n // 2] + ([-2] if thorough else [])
    seen = []
    for i in idxs:
        if i not in seen: seen.append(i)
    ops += [('index', i) for i in seen]
    ts = []
    js = sorted(set([0, n // 2, n - 1]))
    for j in js: ts.append(T[j])
    ivs = sorted(set([0, max(0, n - 2)]))
    for j in ivs:
        if j + 1 < n:
            d = T[j + 1] - T[j]
            mid = (T[j] + T[j + 1]) / 2
            if thorough or j == ivs[0]: ts.append(mid)
            if thorough or j == ivs[-1]: ts += [T[j] + d * 0.25, T[j] + d * 0.75]
            if thorough: ts += [math.nextafter(mid, math.inf), math.nextafter(mid, -math.inf)]
    ts.append(T[0] - 1.0 - abs(T[0]) * 0.5)
    ts.append(T[-1] * 2 + 1.0)
    seen = []
    for t in ts:
        if t not in seen and t == t and abs(t) != math.inf: seen.append(t)
    ops += [('time', t) for t in seen]
    ss = [int(S[j]) for j in js]
    for j in ivs:
        if j + 1 < n:
            a, b = int(S[j]), int(S[j + 1])
            if thorough or j == ivs[0]: ss.append((a + b) // 2)
            if thorough: ss.append((a + b + 1) // 2)
            if thorough or j == ivs[-1]:
                if b - a >= 3: ss += [a + 1, b - 1]          # nearer the lower / the upper neighbour
                else: ss.append((a + b) // 2)
    ss += [int(S[0]) - 1, int(S[-1]) + 1]
    seen = []
    for s in ss:
        if s not in seen: seen.append(s)
    ops += [('step', s) for s in seen]
    ops += [('history', k) for k in range(nsel)]
    ops += [('history0', nsel + k) for k in range(nunmatched)]      # selections nsel.. match nothing
    return ops


WORK_QUICK, WORK_THOROUGH = 220000, 1400000     # per-listing work allowance (units: KB read), see plan_counts
WALK_CHUNK = 250                                   # triples (index=i; a; b) done on one object before a new one is opened
UNIT_PER_MS = 35          # calibration of the work unit below: ~35 units per millisecond of one core


def plan_counts(size, n, nops, thorough, work=None):
    """How many sequences of each kind are run on ONE listing.  The counts are a function of the
    file size in bytes, its number of result sets, the alphabet size and the tier ONLY (integer
    arithmetic, no clock): the run is the same however loaded the machine is.  Work unit: one KB
    read by the reader; opening a listing scans the whole file, an action reads one result set."""
    kb = size // 1024 + 1
    c_open = kb + 35
    c_op = kb // max(1, n) + 12
    Q = int(work) if work else (WORK_THOROUGH if thorough else WORK_QUICK)
    A = nops
    plan = {'len1': A}
    plan['len2'] = min(A * A, max(A, (20 * Q // 100) // (c_open + 2 * c_op)))
    plan['len3'] = min(A ** 3, (15 * Q // 100) // (c_open + 3 * c_op))
    plan['len4'] = min(A ** 4, (15 * Q // 100) // (c_open + 4 * c_op)) if thorough else 0
    plan['random30'] = min(40 if thorough else 4, max(1, (10 * Q // 100) // (c_open + 33 * c_op)))
    # the chained walk: (index=i; a; b) on ONE object, for every index i, `pairs_per_index` ordered pairs
    npairs = A * A
    per = (55 * Q // 100 if not thorough else 40 * Q // 100) // (max(1, n) * (3 * c_op + c_open // 6 + 1))
    plan['pairs_per_index'] = min(npairs, max(min(npairs, 2 * A), per))
    return plan


def gen_sequences_planned(ab, ops, rng, plan):
    """The operation sequences of one listing, exactly as many as `plan` says.  Sequences of length
    1..4 and the random ones start from a freshly opened listing; when fewer than all sequences of a
    length are asked for they are drawn without repetition in a seeded random order.  The chained
    walk runs on one object: for every index i, `index=i; a; b` for `pairs_per_index` ordered pairs
    (a, b) in a seeded random order (all of them when the plan allows)."""
    seqs, kinds, complete = [], [], {}
    A = len(ops)
    for L in (1, 2, 3, 4):
        want = plan.get('len%d' % L, 0)
        if not want: continue
        total = A ** L
        if want >= total:
            chosen = list(itertools.product(range(A), repeat=L))
        else:
            codes = rng.sample(range(total), want)
            chosen = []
            for c in codes:
                t = []
                for _ in range(L): t.append(c % A); c //= A
                chosen.append(tuple(t))
        for t in chosen:
            seqs.append([ops[i] for i in t]); kinds.append('len%d' % L)
        complete[L] = (len(chosen), total)
    for _ in range(plan.get('random30', 0)):
        seqs.append([ops[rng.randrange(A)] for _ in range(30)]); kinds.append('random30')
    pairs = [(a, b) for a in ops for b in ops]
    walk = []
    for i in range(ab.n):
        rng.shuffle(pairs)
        for a, b in pairs[:plan.get('pairs_per_index', 0)]:
            walk += [('index', i), a, b]
    for c in range(0, len(walk), 3 * WALK_CHUNK):          # one object per WALK_CHUNK triples
        seqs.append(walk[c:c + 3 * WALK_CHUNK]); kinds.append('chained-pairs')
    complete['pairs'] = (min(len(pairs), plan.get('pairs_per_index', 0)) * ab.n, len(pairs) * ab.n)
    return seqs, kinds, complete


def gen_sequences(ab, ops, rng, budget_s, c_open, c_op, thorough):
    """(kept for callers of the earlier interface) `budget_s` is converted to the work allowance of
    plan_counts; c_open and c_op are ignored.  Nothing here looks at a clock."""
    plan = plan_counts(getattr(ab, 'size', 200000), ab.n, len(ops), thorough, work=int(budget_s * 1000 * UNIT_PER_MS))
    return gen_sequences_planned(ab, ops, rng, plan)


def check_nearest(vals, v, sel, exact):
    """the selected result set is nearest to v (float subtraction may round: one part in 2^50 slack)"""
    d = [abs(Fraction(x) - Fraction(v)) for x in vals]
    m = min(d)
    if exact: return d[sel] == m
    return d[sel] <= m * (1 + Fraction(1, 2 ** 50))


class Hang(BaseException):
    """raised by the SIGALRM guard: one navigation action did not return (BaseException so that the
    `except Exception` around an action does not swallow it)"""


GUARD_S = 45          # wall-clock guard for ONE action / one open (normally milliseconds); only ever ends a hang


def _on_alarm(signum, frame): raise Hang()


def guard(seconds):
    import signal
    try:
        if seconds: signal.signal(signal.SIGALRM, _on_alarm)
        signal.alarm(int(seconds))
    except ValueError: pass          # not in the main thread: no guard


def probe_positions(path, skip):
    """[(i, exception name, message, traceback function names)] for every full result set at which
    `index = i` raises on a freshly opened listing ([] normally)."""
    import traceback
    out = []
    l = open_listing(path, skip)
    n = l.num_fulltimes
    l.close()
    for i in range(n):
        l = open_listing(path, skip)
        try: l.index = i
        except Exception as e:
            out.append((i, type(e).__name__, str(e)[:120], [f.name for f in traceback.extract_tb(e.__traceback__)]))
        finally: l.close()
    return out


def run_job(pl):
    """One listing (shipped file or truncated copy): extract the abstract listing, generate the
    sequences, run them on the real reader with the oracle after every step; returns the model
    case line and the implementation's observation strings."""
    res = {'label': pl['label'], 'inp': pl['inp'], 'failures': [], 'skipped': None}
    try: return _run_job(pl, res)
    except Hang:
        # a guard fired outside a single navigation action (extraction of the abstract listing, fresh references)
        res['failures'].append({'key': 'nav:hang', 'input': dict(pl['inp'], ops=[['index', 0], ['index', 0], ['last']]),
                                'observed': 'positioning a listing at each of its indices in turn did not finish within %d s' % (GUARD_S * 8), 'required': 'every navigation action returns'})
        res['skipped'] = 'hang while extracting the abstract listing'
        return res
    finally: guard(0)


def _run_job(pl, res):
    import numpy as np
    t_start = time.time()
    path, label = pl['path'], pl['label']
    skip = pl.get('skip_tables')
    rng = random.Random(pl['seed'])
    try:
        guard(GUARD_S * 4)
        bad_pos = probe_positions(path, skip)
        guard(0)
    except Hang:
        res['failures'].append({'key': 'nav:hang', 'input': dict(pl['inp'], ops=[['last']]), 'observed': 'opening the listing and positioning at each index in turn did not finish within %d s' % (GUARD_S * 4),
                                'required': 'every navigation action returns'})
        res['skipped'] = 'hang while positioning a fresh listing'
        return res
    if bad_pos:
        # some result set cannot be positioned at even from a freshly opened listing: report, classified by
        # where the exception comes from, and leave this listing out of the sequence sweep
        for (i, ename, msg, frames) in bad_pos[:3]:
            key = (KEY_NONUNIFORM % 'TOUGH2') if ('read_tables_TOUGH2' in frames and 'next_tablename' in frames) else 'set_index:raises'
            inp = dict(pl['inp']); inp['ops'] = [['index', i]]
            res['failures'].append({'key': key, 'input': inp, 'observed': 'index=%d on a freshly opened listing raises %s: %s (in %s)' % (i, ename, msg, '>'.join(frames[-3:])),
                                    'required': 'every full result set can be positioned at'})
        res['skipped'] = 'index=%d raises %s on a freshly opened listing' % (bad_pos[0][0], bad_pos[0][1])
        return res
    guard(GUARD_S * 8)
    try: ab = Abstract(path, skip)
    except Exception as e:
        # positioning at every index twice in a row (what the extraction does) raised although each index alone did not
        import traceback
        n0 = open_listing(path, skip).num_fulltimes
        inp = dict(pl['inp']); inp['ops'] = [['index', i] for i in range(n0) for _ in (0, 1)]
        res['failures'].append({'key': 'set_index:raises', 'input': inp, 'observed': 'index=0; index=0; index=1; index=1; ... on one listing raises %s: %s (in %s)' % (
            type(e).__name__, str(e)[:120], '>'.join(f.name for f in traceback.extract_tb(e.__traceback__)[-3:])), 'required': 'setting an index inside the range does not raise'})
        res['skipped'] = 'extraction of the abstract listing raised %s' % type(e).__name__
        guard(0)
        return res
    res.update({'sim': ab.sim, 'n': ab.n, 'tables': ab.names, 'family': ab.family,
                'nonuniform': [(i, nm, un, tot) for (i, nm, un, tot) in ab.nonuniform][:20]})
    if pl.get('expect_n') and ab.n != pl['expect_n']:
        res['skipped'] = 'truncated copy has %d result sets, expected %d' % (ab.n, pl['expect_n'])
        return res
    # header consistency (the model says time/step after index=i are fulltimes[i]/fullsteps[i])
    bad_hdr = [i for i in range(ab.n) if not (ab.hdr[i][0] == ab.times[i] and ab.hdr[i][1] == ab.steps[i])]
    if any(not isinstance(s, (int, np.integer)) for s in ab.steps) or any(t != t for t in ab.times):
        res['skipped'] = 'steps/times are not numbers'; return res
    names = ab.names
    # fresh reference states: a new reader per index, positioned directly
    # They are opened BEFORE any navigated object and stay alive (and open) to the end of the job; what they show
    # through every public access path is recorded now and must still be shown at the end of every sequence.
    fresh, refs, fresh_view = [], [], []
    akeys = None
    for i in range(ab.n):
        l = open_listing(path, skip); l.index = i
        if akeys is None: akeys = access_keys(l, names)
        fresh.append(snap(l, names)); fresh_view.append(access_view(l, names, akeys)); refs.append(l)
    l0 = open_listing(path, skip)
    sels = nav_selections(l0, names, ab.sim)
    mixed, unmatched = nav_unmatched_selections(l0, names, pl['thorough'])
    sels = sels + mixed
    nmatched = len(sels)
    sels = sels + unmatched
    open_snap = snap(l0, names)
    l_dtypes = (np.asarray(l0.fullsteps).dtype.kind, np.asarray(l0.fulltimes).dtype.kind)
    l0.close()
    guard(0)
    ops = alphabet(ab, nmatched, pl['thorough'], len(unmatched))
    size = os.path.getsize(path)
    plan = None
    if pl.get('sequences') is not None:
        seqs = [[tuple(o) for o in s] for s in pl['sequences']]; kinds = ['given'] * len(seqs); complete = {}
    else:
        plan = plan_counts(size, ab.n, len(ops), pl['thorough'], work=pl.get('work'))
        seqs, kinds, complete = gen_sequences_planned(ab, ops, rng, plan)
    res['plan'] = plan
    tvals = ab.times + [o[1] for s in seqs for o in s if o[0] == 'time']
    den = scale_for(tvals)

    def obs_str(outcome, lst):
        sn_idx, sn_t, sn_s = lst.index, lst.time, lst.step
        arrays = [getattr(lst, n)._data for n in names]
        try: ts = zint(float(sn_t), den)
        except Exception: ts = 'X'
        return '%s/%d/%s/%d/%s' % (outcome, int(sn_idx), ts, int(sn_s), fmt_tabs(ab.group_digests(arrays)))

    def fail(key, seq, upto, observed, required):
        if len(res['failures']) < 10:
            inp = dict(pl['inp']); inp['ops'] = [op_json(o, sels) for o in seq[:upto + 1]]
            if live['on']: inp['other_live_listings'] = 'a second listing of the same file%s, opened after the navigated one' % (' and a listing of %s' % '/'.join(pl['other_path'].split(os.sep)[-4:]) if pl.get('other_path') else '')
            res['failures'].append({'key': key, 'input': inp, 'observed': observed, 'required': required})

    def same_as_fresh(lst):
        i = lst.index
        if not (isinstance(i, (int, np.integer)) and 0 <= i < ab.n): return 'index %r outside 0..%d' % (i, ab.n - 1)
        f = fresh[int(i)]
        if lst.time != f[1]: return 'time %r, fresh listing at index %d shows %r' % (lst.time, i, f[1])
        if lst.step != f[2]: return 'step %r, fresh listing at index %d shows %r' % (lst.step, i, f[2])
        for nme, fb in zip(names, f[3]):
            if getattr(lst, nme)._data.tobytes() != fb:
                return 'table %s differs from a fresh listing at index %d' % (nme, i)
        why = view_difference(names, akeys, access_view(lst, names, akeys), fresh_view[int(i)], lst)
        if why: return '%s differs from what a fresh listing at index %d shows through the same access path' % (why, i)
        return None

    live = {'on': False}

    def unchanged(l, sn, vw):
        """a listing nobody navigated still shows what it showed"""
        s2 = snap(l, names_of[id(l)])
        if s2[:3] != sn[:3] or s2[3] != sn[3]: return 'index/time/step or a table array'
        return view_difference(names_of[id(l)], keys_of[id(l)], access_view(l, names_of[id(l)], keys_of[id(l)]), vw, l)
    names_of = {id(l): names for l in refs}
    keys_of = {id(l): akeys for l in refs}

    impl_lines = []
    nops = 0
    opkinds = {}
    for si_, seq in enumerate(seqs):
        lst = open_listing(path, skip)
        # other live objects: in the long sequences, in every 8th short one and in replays a second listing of the SAME
        # file (positioned at the last result set) and a listing of ANOTHER file are opened AFTER the navigated object
        # and watched: navigating `lst` must not change them, and they must not change what `lst` shows
        live['on'] = (len(seq) > 4 or si_ % 8 == 3 or pl.get('sequences') is not None)
        watched = []
        if live['on']:
            late = open_listing(path, skip); late.index = ab.n - 1
            names_of[id(late)] = names; keys_of[id(late)] = akeys
            watched.append((late, snap(late, names), access_view(late, names, akeys), 'the second listing of the same file'))
            if pl.get('other_path'):
                oth = open_listing(pl['other_path'])
                on = tables_of(oth); names_of[id(oth)] = on; keys_of[id(oth)] = access_keys(oth, on)
                watched.append((oth, snap(oth, on), access_view(oth, on, keys_of[id(oth)]), 'the listing of another file'))
        line = []
        for k, op in enumerate(seq):
            before = int(lst.index)
            try:
                guard(GUARD_S)
                out = apply_op(lst, op, sels)
                guard(0)
            except Hang:
                fail('nav:hang', seq, k, '%s did not return within %d s (at index %d)' % (op[0], GUARD_S, before), 'every navigation action returns')
                res['skipped'] = 'hang in %s' % op[0]
                return res
            nops += 1
            opkinds[op[0]] = opkinds.get(op[0], 0) + 1
            line.append(obs_str(out, lst))
            # ---- oracle: the property statement on the implementation alone
            why = same_as_fresh(lst)
            if why: fail('nav:state-differs-from-fresh', seq, k, why, 'index, time, step and every table equal to a fresh listing positioned at the reported index')
            now = int(lst.index) if isinstance(lst.index, (int, np.integer)) else before
            if op[0] == 'next':
                want = before < ab.n - 1
                if out != ('T' if want else 'F') or now != before + (1 if want else 0):
                    fail('next:moved-or-bounds', seq, k, 'next() at index %d of %d returned %s, index now %d' % (before, ab.n, out, now),
                         'returns True and moves by one iff not at the last result set')
            elif op[0] == 'prev':
                want = before > 0
                if out != ('T' if want else 'F') or now != before - (1 if want else 0):
                    fail('prev:moved-or-bounds', seq, k, 'prev() at index %d of %d returned %s, index now %d' % (before, ab.n, out, now),
                         'returns True and moves by one iff not at the first result set')
            elif op[0] == 'time':
                if out != '-' or not check_nearest(ab.times, op[1], now, False):
                    fail('set_time:not-nearest', seq, k, 'time=%r selected index %d (outcome %s), times %r' % (op[1], now, out, ab.times[:8]), 'the result set nearest to the requested time')
            elif op[0] == 'step':
                if out != '-' or not check_nearest([int(s) for s in ab.steps], op[1], now, True):
                    fail('set_step:not-nearest', seq, k, 'step=%r selected index %d (outcome %s), steps %r' % (op[1], now, out, [int(s) for s in ab.steps][:8]), 'the result set nearest to the requested step')
            elif op[0] == 'index':
                i = op[1]
                if -ab.n <= i < ab.n:
                    if out != '-' or now != (i + ab.n if i < 0 else i):
                        fail('set_index:position', seq, k, 'index=%d gave index %d (outcome %s)' % (i, now, out), 'index %d' % (i + ab.n if i < 0 else i))
            elif op[0] in ('first', 'last'):
                if out != '-' or now != (0 if op[0] == 'first' else ab.n - 1):
                    fail('%s:position' % op[0], seq, k, '%s() gave index %d (outcome %s)' % (op[0], now, out), 'first/last result set')
            elif op[0] in ('history', 'history0'):
                if out != '-': fail('history:raises', seq, k, 'history raised %s' % out, 'no exception')
                elif now != before: fail('history:moved', seq, k, 'history() at index %d left the listing at index %r' % (before, lst.index), 'extracting a history does not move the listing')
            for (w, wsn, wvw, what) in watched:
                d = unchanged(w, wsn, wvw)
                if d: fail('nav:other-listing-changed', seq, k, '%s, which nobody navigated, no longer shows what it showed (%s)' % (what, d), 'navigating one listing does not change another')
        # the references opened before the navigated object still show what they showed
        for i, r in enumerate(refs):
            d = unchanged(r, fresh[i], fresh_view[i])
            if d:
                fail('nav:other-listing-changed', seq, len(seq) - 1, 'the reference listing positioned at index %d before the navigated one was opened no longer shows what it showed (%s)' % (i, d), 'navigating one listing does not change another')
                break
        for (w, _, _, _) in watched:
            names_of.pop(id(w), None); keys_of.pop(id(w), None); w.close()
        lst.close()
        impl_lines.append(' '.join(line))
    # the abstract listing as a model case line
    init = fmt_tabs(ab.group_digests([np.zeros(s) for s in ab.shape]))
    sets = ''.join('%s:%d:%s;' % (zint(ab.times[i], den), int(ab.steps[i]), fmt_cells(ab.cells_at(i))) for i in range(ab.n))
    mseqs = [''.join(op_token(o, den) + ',' for o in s) for s in seqs]
    res['model_line'] = '\t'.join(['nav', init, sets] + mseqs)
    res['open_obs'] = '-/%d/%s/%d/%s' % (int(open_snap[0]), zint(float(open_snap[1]), den), int(open_snap[2]),
                                         fmt_tabs(ab.group_digests([np.frombuffer(b, dtype=np.float64) for b in open_snap[3]])))
    res['impl_lines'] = impl_lines
    res['seq_ops'] = [[op_json(o, sels) for o in s] for s in seqs] if pl.get('want_ops') else None
    res['kinds'] = {k: kinds.count(k) for k in set(kinds)}
    res['complete'] = {str(k): v for k, v in complete.items()}
    res['nops'] = nops
    res['opkinds'] = opkinds
    res['alphabet'] = len(ops)
    res['bad_hdr'] = bad_hdr
    res['sorted_times'] = all(a < b for a, b in zip(ab.times, ab.times[1:]))
    res['sorted_steps'] = all(a < b for a, b in zip(ab.steps, ab.steps[1:]))
    res['rounding_sensitive'] = 0
    # the printed-table abstraction (Uniform.v) and what the sentinel measurement says about each table at each result set
    try:
        printed, sizes = printed_tables(path, skip)
        res['uni_line'], extra = uniformity_case(printed, sizes, skip, [(0, int(ab.steps[i])) for i in range(ab.n)])
        codes = dict(TABLE_CODES); codes.update(extra)
        pat = {}
        for ti, nme in enumerate(names):
            pat[str(codes.get(nme, -1))] = ''.join('A' if ab.assigned[i][ti].all() else ('-' if not ab.assigned[i][ti].any() else '?') for i in range(ab.n))
        res['measured_pattern'] = pat
        res['printed_first'] = [n for (a, n) in printed[0]] if printed else []
        res['printed_extra'] = sorted(set(n for ev in printed[1:] for (a, n) in ev) - set(n for (a, n) in printed[0])) if printed else []
    except Exception as e:
        res['uni_error'] = repr(e)[:300]
    res['dtypes'] = {'fullsteps': l_dtypes[0], 'fulltimes': l_dtypes[1]}
    res['wall'] = round(time.time() - t_start, 2)
    # perturbed-variant probe for non-uniform listings (known finding)
    if ab.nonuniform and pl.get('probe_nonuniform', True):
        res['perturbed'] = probe_nonuniform(path, skip, ab, pl)
    return res


FLOAT_RE = re.compile(rb'[-+]?(?:\d+\.\d*|\.\d+)(?:[EeDd][-+ ]?\d+|[-+]\d+)?')


def probe_nonuniform(path, skip, ab, pl):
    """A result set i does not assign some table cells (they keep the values of the previously
    visited index).  Make that visible: change ONE printed number of that table at another
    result set j, then compare a fresh listing positioned at i with `index=j; index=i`."""
    import numpy as np
    from fixed_format_file import fortran_float
    data = open(path, 'rb').read()
    offs = result_set_offsets(data) + [len(data)]
    out = []
    done = set()
    for (i, name, un, tot) in ab.nonuniform:
        if (i, name) in done or len(out) >= 2: continue
        done.add((i, name))
        ti = ab.names.index(name)
        unass = ~ab.assigned[i][ti]
        cand_j = [j for j in range(ab.n) if j != i and ab.assigned[j][ti][unass].all()]
        cand_j = [j for j in cand_j if j != 0] + [j for j in cand_j if j == 0]
        if len(cand_j) < 2 and 0 not in cand_j: continue       # nothing to compare with
        # does set i print more tables than the first one?  (reader-independent count of table intros)
        def ntables(k):
            seg = data[offs[k]:offs[k + 1]]
            return len(re.findall(rb'(?m)^\s*KCYC\s*=.*ITER\s*=', seg))
        extra = len(offs) > ab.n and ntables(i) > ntables(0)
        key = (KEY_NONUNIFORM % ab.family) if extra else 'read_tables:%s:cells-not-assigned' % ab.family
        found = None
        for j in cand_j[:2]:
            orig = ab.values[j][ti]
            valset = set(float(x) for x in orig[unass]) - {0.0}
            seg_lo, seg_hi = offs[j], offs[j + 1]
            toks = [m for m in FLOAT_RE.finditer(data, seg_lo, seg_hi) if fortran_float(m.group(0).decode('latin-1')) in valset]
            for m in list(reversed(toks))[:80]:
                old = m.group(0)
                mm = re.search(rb'[EeDd]|(?<=[\d.])[-+]', old)
                mant_end = mm.start() if mm else len(old)
                digits = [k for k in range(mant_end) if old[k:k + 1].isdigit()]
                if not digits: continue
                k = digits[-1]
                new = old[:k] + (b'7' if old[k:k + 1] != b'7' else b'3') + old[k + 1:]
                line_no = data.count(b'\n', 0, m.start()) + 1
                line_start = data.rfind(b'\n', 0, m.start()) + 1
                inp = dict(pl['inp']); inp['perturbation'] = {'line': line_no, 'column': m.start() - line_start, 'old': old.decode('latin-1'), 'new': new.decode('latin-1')}
                tmp = tempfile.mkdtemp(dir=pl['tmpdir'])
                try:
                    p2 = materialise(pl['repo'], inp, tmp)
                    a = open_listing(p2, skip); a.index = j
                    now = getattr(a, name)._data.copy()
                    a.close()
                    ch = np.argwhere((now != orig) & unass)
                    if len(ch) == 0: continue
                    r, c = (int(x) for x in ch[0])
                    via = j if j != 0 else [x for x in cand_j if x != 0][0] if [x for x in cand_j if x != 0] else None
                    if via is None: continue
                    f = open_listing(p2, skip); f.index = i
                    g = open_listing(p2, skip); g.index = via; g.index = i
                    fv, gv = float(getattr(f, name)._data[r, c]), float(getattr(g, name)._data[r, c])
                    f.close(); g.close()
                    inp['ops'] = [['index', via], ['index', i]]
                    found = {'key': key, 'input': inp, 'differs': bool(fv != gv),
                             'observed': 'table %s row %d column %d at index %d: a fresh listing shows %r, after index=%d; index=%d it shows %r' % (name, r, c, i, fv, via, i, gv),
                             'required': 'identical table contents however the result set was reached'}
                    break
                finally:
                    shutil.rmtree(tmp, ignore_errors=True)
            if found: break
        out.append(found or {'key': key, 'input': dict(pl['inp']), 'differs': None, 'observed': 'no single-number perturbation located for table %s at set %d' % (name, i), 'required': ''})
    return out


TABLE_CODES = {'element': 0, 'element1': 1, 'connection': 2, 'primary': 3, 'element2': 4, 'generation': 5}


def table_code(name, extra):
    if name in TABLE_CODES: return TABLE_CODES[name]
    if name not in extra: extra[name] = 6 + len(extra)
    return extra[name]


def printed_tables(path, skip):
    """Per full result set the sequence of tables the reader meets there and what it does with each
    ('read' / 'skip'), observed from outside by wrapping the instance's read_table / skip_table
    (no change to the reader).  This is the printed-table abstraction of coq/C07/Uniform.v."""
    lst = open_listing(path, skip)
    events = []
    rt, st = lst.read_table, lst.skip_table

    def read_table(name): events.append(('read', name)); return rt(name)

    def skip_table(name): events.append(('skip', name)); return st(name)
    lst.read_table, lst.skip_table = read_table, skip_table
    out = []
    for i in range(lst.num_fulltimes):
        del events[:]
        lst.index = i
        out.append(list(events))
    sizes = {n: int(getattr(lst, n)._data.size) for n in lst.table_names}
    lst.close()
    return out, sizes


def uniformity_case(printed, sizes, skip, times_steps):
    """the `uni` case line of the extracted model for one listing, and the table codes used"""
    extra = {}
    sets = ''
    for (t, k), ev in zip(times_steps, printed):
        sets += '%d:%d:%s;' % (t, k, ''.join('%d/%d,' % (table_code(n, extra), sizes.get(n, 0) if a == 'read' else 0) for (a, n) in ev))
    skipc = ''.join('%d,' % table_code(n, extra) for n in (skip or []))
    return '\t'.join(['uni', skipc, sets]), extra


def table_job(pl):
    """Correspondence for coq/C07/Table.v: random small listingtable objects (string-named and tuple-named
    rows, duplicate row names, a row name that is also a column name, reverse keys on and off) under random
    interleavings of reads (by index incl. negative and out of range, by row name, by REVERSED row name, by
    column name, by unknown name) and writes; the same key is read again after writes."""
    from t2listing import listingtable
    rng = random.Random(pl['seed'])
    lines, impl = [], []

    def enc(k):
        if isinstance(k, tuple): return '.'.join(str(1000 + int(p[1:])) for p in k)
        return '.'.join(str(ord(c)) for c in k)

    def fmt(vals): return '.'.join('%d' % int(v) for v in vals)
    for _ in range(pl['cases']):
        tuples = rng.random() < 0.6
        rev = rng.random() < 0.7
        ncol = rng.randint(1, 3)
        cols = rng.sample(['x', 'y', 'ab', 'ba', 'c'], ncol)
        nrow = rng.randint(0, 5)
        if tuples: pool = [('b%d' % a, 'b%d' % b) for a in range(3) for b in range(3)]
        else: pool = ['a', 'b', 'ab', 'ba', 'abc', 'cba', 'x', 'c']
        rows = [rng.choice(pool) for _ in range(nrow)]
        t = listingtable(list(cols), list(rows), num_keys=2 if tuples else 1, allow_reverse_keys=rev)
        data = [[rng.randint(-9, 9) for _ in range(ncol)] for _ in range(nrow)]
        for i, v in enumerate(data): t[i] = v
        ops, outs = [], []
        hot = [rng.choice(pool) for _ in range(2)]           # keys that are read again and again
        for _ in range(rng.randint(4, 14)):
            u = rng.random()
            if u < 0.5:
                k = rng.choice(hot + [rng.choice(pool)]) if rng.random() < 0.8 else rng.choice(cols)
                if rng.random() < 0.4: k = k[::-1]
                ops.append('gn' + enc(k))
                try: r = t[k]
                except Exception: r = 'E'
            elif u < 0.7:
                i = rng.randint(-nrow - 1, nrow)
                ops.append('gi%d' % i)
                try: r = t[i]
                except Exception: r = 'E'
            else:
                v = [rng.randint(-9, 9) for _ in range(ncol)]
                if rng.random() < 0.5:
                    i = rng.randint(-nrow - 1, nrow); ops.append('pi%d=%s' % (i, fmt(v))); key = i
                else:
                    key = rng.choice(hot + [rng.choice(pool)]); ops.append('pn%s=%s' % (enc(key), fmt(v)))
                try: t[key] = v; r = 'O'
                except Exception: r = 'E'
            if r is None: outs.append('N')
            elif isinstance(r, str): outs.append(r)
            elif isinstance(r, dict): outs.append('R%s=%s' % (enc(r['key']), fmt([r[c] for c in cols])))
            else: outs.append('C' + fmt(list(r)))
        lines.append('\t'.join(['tab', ''.join(enc(c) + ',' for c in cols), ''.join(enc(r) + ',' for r in rows), '1' if rev else '0',
                                 ''.join(fmt(v) + ',' for v in data), ''.join(o + ';' for o in ops)]))
        impl.append(';'.join(outs))
    return {'lines': lines, 'impl': impl}


def worker_main():
    pl = json.load(sys.stdin)
    fn = globals()[pl.get('fn', 'run_job')]
    json.dump(fn(pl), sys.stdout, default=lambda o: o.item() if hasattr(o, 'item') else str(o))


def info_job(pl):
    """number of full result sets of every shipped file (and what the offsets scan finds)"""
    out = {}
    for rel in pl['files']:
        p = os.path.join(pl['repo'], rel)
        try:
            l = open_listing(p)
            offs = result_set_offsets(open(p, 'rb').read())
            out[rel] = {'n': l.num_fulltimes, 'sim': l.simulator, 'offsets': len(offs), 'size': os.path.getsize(p), 'tables': tables_of(l)}
            l.close()
        except Exception as e:
            out[rel] = {'error': repr(e)[:200]}
    return out


WORKER = 'import props.C07 as m; m.worker_main()'


def call_worker(ctx, payload, timeout):
    payload = dict(payload); payload['repo'] = ctx.repo
    return vf.run_impl(WORKER, payload, timeout=timeout, repo=ctx.repo)

# ---------------------------------------------------------------------------------------------
# the check


OTHER_FILES = ('tests/listing/TOUGH2-MP/1/OUTPUT_DATA', 'tests/listing/TOUGH2-MP/7/OUTPUT_DATA')


def other_listing(repo, rel):
    """a small listing of ANOTHER shipped file (with tables of the same names) that is kept alive next to the
    navigated one in some sequences; None if it is not there"""
    for o in OTHER_FILES:
        if o != rel and os.path.exists(os.path.join(repo, o)): return os.path.join(repo, o)
    return None


def plan_jobs(ctx, info, tmpdir, work=None):
    jobs = []
    for rel, d in sorted(info.items()):
        if 'error' in d or d['n'] < 2: continue
        n = d['n']
        ks = list(range(1, n + 1)) if ctx.thorough else sorted(set([1, 2, n]))
        for k in ks:
            if k < 1: continue
            inp = {'file': rel}
            if k < n:
                if d['offsets'] < n: continue
                inp['truncate_to'] = k
            jobs.append({'inp': inp, 'label': '%s[%s]' % (rel, 'full' if k == n else k), 'expect_n': k, 'size': d['size'] * k / n})
        if ctx.thorough or rel.endswith(('TOUGH2/4/case4.out', 'TOUGHplus/1/case1.dat', 'TOUGH2/11/case11.listing')):
            # the skip_tables variants the upstream tests open
            skips = [['connection']] if not ctx.thorough else [['connection'], ['element'], ['generation'], ['primary']]
            for sk in skips:
                if all(s in d['tables'] for s in sk) and len(d['tables']) > len(sk):
                    jobs.append({'inp': {'file': rel, 'skip_tables': sk}, 'label': '%s[skip %s]' % (rel, '+'.join(sk)), 'expect_n': n, 'size': d['size']})
    for j in jobs:
        j['path'] = materialise(ctx.repo, j['inp'], tmpdir)
        j['skip_tables'] = j['inp'].get('skip_tables')
        j['other_path'] = other_listing(ctx.repo, j['inp']['file'])
        j['seed'] = ctx.rng.randrange(1 << 30)
        j['work'] = work
        j['thorough'] = ctx.thorough
        j['tmpdir'] = tmpdir
    return jobs


def run_jobs(ctx, jobs, timeout):
    jobs = sorted(jobs, key=lambda j: -j['size'])

    def one(j):
        try: return j, call_worker(ctx, j, timeout), None
        except subprocess.TimeoutExpired: return j, None, 'timeout'
        except Exception as e: return j, None, repr(e)[-1500:]
    with ThreadPoolExecutor(max_workers=min(8, vf.NPROC)) as ex:
        return list(ex.map(one, jobs))


def correspond_and_collect(ctx, exe, results, timeout):
    """feed the model, diff observation by observation; collect oracle failures"""
    lines, keep = [], []
    for j, r, err in results:
        if err == 'timeout':
            ctx.failure('navigation-terminates', 'nav:timeout', j['inp'], 'the navigation sequences on %s did not finish within %d s' % (j['label'], timeout), 'every navigation action returns')
            continue
        if err:
            ctx.proof_failures.append({'kind': 'harness', 'name': 'impl-runner:' + j['label'], 'detail': err})
            ctx.log('IMPLEMENTATION RUNNER FAILED on', j['label'], err[-400:])
            continue
        for f in r['failures']:
            ctx.failure('fresh-at-index' if f['key'].startswith(('nav:', 'read_tables:', 'set_index:raises')) else 'next-prev-nearest', f['key'], f['input'], f['observed'], f['required'])
        if r.get('skipped'):
            ctx.extra.setdefault('skipped', []).append('%s: %s' % (j['label'], r['skipped']))
            if r['failures']: ctx.oracle_cases('fresh-at-index', len(r['failures']))
            continue
        for p in r.get('perturbed') or []:
            if p.get('differs'):
                ctx.failure('perturbed-nonuniform', p['key'], p['input'], p['observed'], p['required'])
            elif p.get('differs') is None:
                ctx.extra.setdefault('notes', []).append('%s: %s' % (j['label'], p['observed']))
        lines.append(r['model_line']); keep.append((j, r))
    if exe and lines:
        outs = vf.run_driver(exe, lines, shards=min(8, vf.NPROC, len(lines)))
    else:
        outs = [None] * len(lines)
    # uniformity: the extracted model decides the structural condition and predicts which tables are assigned where
    uni = [(j, r) for (j, r) in keep if r.get('uni_line')]
    if exe and uni:
        uouts = vf.run_driver(exe, [r['uni_line'] for _, r in uni], shards=1)
        ok_n, ok_labels, bad_labels = 0, [], []
        for (j, r), uo in zip(uni, uouts):
            parts = (uo or '').split(' ')
            if len(parts) < 2:
                ctx.disagreement('uniformity-model-vs-t2listing', {'input': j['inp']}, uo, 'a result line'); continue
            okflag, kn = parts[0], [c for c in parts[1].split(',') if c]
            rows = parts[2:]
            pred = {c: ''.join(row[k] for row in rows if k < len(row)) for k, c in enumerate(kn)}
            if pred != r['measured_pattern']:
                ctx.disagreement('uniformity-model-vs-t2listing', {'input': j['inp'], 'what': 'per table (code) one letter per result set: A assigned in full, - not assigned, ? partly'},
                                 json.dumps(pred, sort_keys=True), json.dumps(r['measured_pattern'], sort_keys=True))
            measured_uniform = not r['nonuniform']
            if okflag == '1':
                ok_n += 1
                if not measured_uniform:
                    ctx.disagreement('uniformity-model-vs-t2listing', {'input': j['inp'], 'what': 'structural condition holds but the sentinel measurement finds unassigned cells'}, 'uniform', 'not uniform')
            else: bad_labels.append(j['label'])
            ctx.count(('uni', j['label']))
        ctx.corr_cases('uniformity-model-vs-t2listing', len(uni), listings_with_extra_tables=sum(1 for _, r in uni if r.get('printed_extra')))
        ctx.hyp_met['struct_okb: every result set prints every table of the first (nav_state_is_fresh_if_structurally_uniform)'] = {
            'met': ok_n, 'not_met': len(uni) - ok_n, 'not_met_listings': bad_labels[:12]}
    for j, r in keep:
        if r.get('uni_error'):
            ctx.proof_failures.append({'kind': 'harness', 'name': 'printed-tables:' + j['label'], 'detail': r['uni_error']})
        dt = r.get('dtypes') or {}
        if dt and (dt.get('fullsteps') != 'i' or dt.get('fulltimes') != 'f'):
            ctx.proof_failures.append({'kind': 'assumption', 'name': 'steps-signed-times-float:' + j['label'],
                                       'detail': 'fullsteps dtype kind %r, fulltimes dtype kind %r; the theorems set_step_nearest / set_time_nearest assume signed integer steps (exact subtraction) and float64 times' % (dt.get('fullsteps'), dt.get('fulltimes'))})
    ctx.hyp_met['fullsteps signed integer, fulltimes float (set_step_nearest, set_time_nearest)'] = {
        'met': sum(1 for _, r in keep if (r.get('dtypes') or {}).get('fullsteps') == 'i' and (r.get('dtypes') or {}).get('fulltimes') == 'f'),
        'not_met': sum(1 for _, r in keep if not ((r.get('dtypes') or {}).get('fullsteps') == 'i' and (r.get('dtypes') or {}).get('fulltimes') == 'f'))}
    tot_ops = tot_seq = 0
    kinds, opk, complete = {}, {}, {}
    uniform, nonuniform = [], []
    for (j, r), mo in zip(keep, outs):
        nseq = len(r['impl_lines'])
        tot_seq += nseq; tot_ops += r['nops']
        for k, v in r['kinds'].items(): kinds[k] = kinds.get(k, 0) + v
        for k, v in r['opkinds'].items(): opk[k] = opk.get(k, 0) + v
        for k, v in r['complete'].items():
            c = complete.setdefault('chained-pairs' if k == 'pairs' else 'len' + k, [0, 0]); c[0] += v[0]; c[1] += v[1]
        (nonuniform if r['nonuniform'] else uniform).append(j['label'])
        mtoks = r['model_line'].split('\t')[3:]
        for si, il in enumerate(r['impl_lines']):
            toks = mtoks[si].split(',')
            nob = il.count(' ') + 1 if il else 0
            if nob > 30:
                for k in range(nob): ctx.count((j['label'], si, k))
            else:
                for k in range(nob): ctx.count((j['label'], ','.join(toks[:k + 1])))
        if r['bad_hdr']:
            ctx.disagreement('nav-model-vs-t2listing', {'input': j['inp'], 'what': 'time/step after index=i differ from fulltimes[i]/fullsteps[i]', 'indices': r['bad_hdr'][:5]}, 'rtime/rstep of the result set', 'different')
        if mo is None: continue
        parts = mo.split(';')
        if parts[0] != r['open_obs']:
            ctx.disagreement('nav-model-vs-t2listing', {'input': j['inp'], 'ops': []}, parts[0], r['open_obs'])
        mseq = parts[1:]
        if len(mseq) != nseq:
            ctx.disagreement('nav-model-vs-t2listing', {'input': j['inp'], 'what': 'sequence count'}, str(len(mseq)), str(nseq)); continue
        for si, (m, i) in enumerate(zip(mseq, r['impl_lines'])):
            if m != i:
                ml, il = m.split(' '), i.split(' ')
                k = next((x for x in range(min(len(ml), len(il))) if ml[x] != il[x]), min(len(ml), len(il)))
                ops = r['seq_ops'][si][:k + 1] if r.get('seq_ops') else None
                ctx.disagreement('nav-model-vs-t2listing', {'input': dict(j['inp'], ops=ops), 'step': k},
                                 ml[k] if k < len(ml) else '(none)', il[k] if k < len(il) else '(none)')
    ctx.corr_cases('nav-model-vs-t2listing', tot_ops, listings=len(keep), sequences=tot_seq, sequence_kinds=kinds, op_kinds=opk,
                   enumerated_of_all={k: '%d/%d' % tuple(v) for k, v in complete.items()})
    ctx.extra['input_distribution'] = {'listings': len(keep), 'sequences': tot_seq, 'actions': tot_ops, 'sequence_kinds': kinds, 'action_kinds': opk,
                                       'enumerated_of_all': {k: '%d/%d' % tuple(v) for k, v in complete.items()},
                                       'result_sets_per_listing': {str(n): sum(1 for _, r in keep if r['n'] == n) for n in sorted(set(r['n'] for _, r in keep))},
                                       'plan_examples': [{'listing': j['label'], 'bytes': int(j['size']), 'result_sets': r['n'], 'alphabet': r['alphabet'], 'plan': r.get('plan')} for j, r in keep[:4]]}
    ctx.oracle_cases('fresh-at-index', tot_ops, listings=len(keep))
    ctx.oracle_cases('next-prev-nearest', sum(opk.get(k, 0) for k in ('next', 'prev', 'time', 'step', 'index', 'first', 'last')))
    ctx.oracle_cases('perturbed-nonuniform', len(nonuniform))
    ctx.hyp_met['uniform (nav_state_is_fresh_at_index)'] = {'met': len(uniform), 'not_met': len(nonuniform), 'not_met_listings': nonuniform[:12]}
    ctx.hyp_met['sorted_lt times and steps (set_time_nearest, set_step_nearest)'] = {
        'met': sum(1 for _, r in keep if r['sorted_times'] and r['sorted_steps']), 'not_met': sum(1 for _, r in keep if not (r['sorted_times'] and r['sorted_steps']))}
    return keep


def table_correspondence(ctx, exe, ncases):
    """coq/C07/Table.v against the public class t2listing.listingtable"""
    if not exe: return
    try: r = call_worker(ctx, {'fn': 'table_job', 'cases': ncases, 'seed': ctx.rng.randrange(1 << 30)}, 900)
    except Exception as e:
        ctx.proof_failures.append({'kind': 'harness', 'name': 'table-job', 'detail': repr(e)[-800:]}); return
    outs = vf.run_driver(exe, r['lines'], shards=1)
    nops = 0
    for line, mo, io in zip(r['lines'], outs, r['impl']):
        nops += io.count(';') + 1
        ctx.count(('tab', line))
        if mo != io:
            ctx.disagreement('table-model-vs-listingtable', {'case': line.replace('\t', ' | ')[:400]}, (mo or '')[:300], io[:300])
    ctx.corr_cases('table-model-vs-listingtable', len(r['lines']), operations=nops)


def run(ctx):
    ctx.rule = ('listings: every shipped file under tests/listing with >= 2 full result sets, truncated copies (quick: 1 and 2 result sets; thorough: 1..N) and '
                'skip_tables variants; per listing an alphabet of ~25-30 actions {first,last,next,prev, index in {0,1,N/2,N-1,-1,-N,N,-N-1}, '
                'time: exact hits, a midpoint (tie), a point nearer the lower and one nearer the upper neighbour, before first, after last; step likewise; history with 2 matching selections, one mixed and 2 (thorough 3-4) selections in which no specification matches (absent table kind, unknown row name)}; '
                'sequences from a freshly opened listing: all of length 1, N2/N3 (thorough also N4) sequences of length 2/3/4 drawn without repetition, random sequences of length 30; '
                'one chained walk on a single object doing index=i; a; b for every index i and P ordered pairs (a, b); N2, N3, N4, P are computed by plan_counts from '
                'file size, number of result sets and alphabet size only (no clock; reported under enumerated_of_all); '
                'a case is one (listing, sequence prefix) observation, distinct by listing, position and observed state')
    ctx.trusted += ['Coq 8.16.1 kernel (coqc); vm_compute only on closed terms inside proofs',
                    'hand model coq/C07/ListingNav.v of t2listing navigation (validated on this run by the correspondence, observation by observation)',
                    'abstraction of a file to (time, step, assigned cells per table) per result set, extracted through the reader itself (table parsing is C05)',
                    'extraction: ExtrOcamlBasic + ExtrOcamlString, OCaml 4.13.1, ocaml/main.ml',
                    'digests (blake2b, 40 bit) stand for table contents in the model; the oracle compares the arrays byte for byte']
    ctx.assumptions += ['times are finite doubles whose differences neither overflow nor are subnormal (round53 models the subtraction)',
                        'steps are machine integers (no overflowed **** step field)',
                        'history() is called with selections on which it terminates (termination is C06)']
    ctx.stage()
    ok = ctx.coq_build()
    exe = vf.build_driver(ctx) if ok else None
    tmpdir = tempfile.mkdtemp(prefix='c07-')
    try:
        files = listing_files(ctx.repo)
        info = call_worker(ctx, {'fn': 'info_job', 'files': files}, 600)
        ctx.extra['files'] = {'shipped': len(files), 'with_2_or_more_times': sum(1 for d in info.values() if d.get('n', 0) >= 2),
                              'unreadable': {k: v['error'] for k, v in info.items() if 'error' in v}}
        timeout = 3600 if ctx.thorough else 900          # guard against a hang of a whole worker only (single actions have their own guard); the work is bounded by counts
        jobs = plan_jobs(ctx, info, tmpdir)
        ctx.log('%d listings (files, truncated copies, skip variants); sequence counts per listing from plan_counts (file size, result sets, alphabet; no clock)' % len(jobs))
        for j in jobs: j['want_ops'] = True
        results = run_jobs(ctx, jobs, timeout)
        keep = correspond_and_collect(ctx, exe, results, timeout)
        table_correspondence(ctx, exe, 30000 if ctx.thorough else 3000)
        for j, r in keep[:3]:
            ctx.sample({'listing': j['label'], 'simulator': r['sim'], 'result_sets': r['n'], 'alphabet': r['alphabet'],
                        'first_sequence': (r.get('seq_ops') or [[]])[0], 'observations': r['impl_lines'][0][:200]})

        def deep(broken):
            # search for a concrete failing input: other seeds, twice the work allowance on every listing
            for j in jobs: j['work'] = 2 * (WORK_THOROUGH if ctx.thorough else WORK_QUICK); j['seed'] += 1
            res2 = run_jobs(ctx, jobs, timeout * 2)
            correspond_and_collect(ctx, None, res2, timeout * 2)
        return ctx.finish(deep_search=deep)
    finally:
        shutil.rmtree(tmpdir, ignore_errors=True)


def replay(ctx, data):
    """re-run the recorded (file, truncation, perturbation, op sequence) with the oracle"""
    inp = data.get('input') or {}
    if 'file' not in inp: return True
    tmpdir = tempfile.mkdtemp(prefix='c07r-')
    try:
        path = materialise(ctx.repo, inp, tmpdir)
        key = data.get('finding_key', '')
        if inp.get('perturbation'):
            pl = {'fn': 'replay_perturbed', 'path': path, 'skip_tables': inp.get('skip_tables'), 'ops': inp.get('ops')}
            r = call_worker(ctx, pl, 300)
            print('replay:', r['text'])
            return r['differs']
        pl = {'fn': 'run_job', 'path': path, 'label': 'replay', 'inp': {k: v for k, v in inp.items() if k != 'ops'}, 'skip_tables': inp.get('skip_tables'),
              'seed': 0, 'thorough': False, 'work': 1, 'tmpdir': tmpdir, 'other_path': other_listing(ctx.repo, inp['file']), 'sequences': [inp.get('ops') or []], 'probe_nonuniform': False}
        try: r = call_worker(ctx, pl, 300)
        except subprocess.TimeoutExpired:
            print('replay: did not finish within 300 s'); return True
        for f in r['failures']: print('replay: %s -- %s (required: %s)' % (f['key'], f['observed'], f['required']))
        if not r['failures']: print('replay: the sequence now agrees with a fresh listing after every step')
        return bool(r['failures'])
    finally:
        shutil.rmtree(tmpdir, ignore_errors=True)


def replay_perturbed(pl):
    ops = [tuple(o) for o in pl['ops']]
    g = open_listing(pl['path'], pl.get('skip_tables'))
    for o in ops: apply_op(g, o, [])
    f = open_listing(pl['path'], pl.get('skip_tables')); f.index = int(g.index)
    names = tables_of(g)
    diff = [n for n in names if getattr(g, n)._data.tobytes() != getattr(f, n)._data.tobytes()]
    return {'differs': bool(diff), 'text': 'after %r at index %d tables differing from a fresh listing at that index: %r' % (pl['ops'], int(g.index), diff)}
