"""C01: abstraction of a t2data object (through public attributes) into the token tree the
extracted Coq model consumes / prints, and the canonical comparison of such trees."""
import math
import numpy as np

MODELLED = None     # set by C01.py: set of section keywords the Coq model covers


class Unsupported(Exception):
    """The object holds something the abstract object cannot express."""


def hexs(s):
    return s.encode('latin-1').hex()


def val(v):
    if v is None: return 'N'
    if isinstance(v, (bool, np.bool_)): return 'I:%d' % int(v)
    if isinstance(v, (int, np.integer)): return 'I:%d' % int(v)
    if isinstance(v, str): return 'S:' + hexs(v)
    if isinstance(v, (float, np.floating)):
        v = float(v)
        if v != v: return 'R:0:0:1'
        neg = 1 if math.copysign(1.0, v) < 0 else 0
        if v in (math.inf, -math.inf): return 'R:%d:0:2' % neg
        if v == 0: return 'R:%d:0:0' % neg
        n, d = abs(v).as_integer_ratio()
        e = 0
        if d > 1: e = -(d.bit_length() - 1)
        else:
            while n % 2 == 0: n //= 2; e += 1
        return 'R:%d:%d:%d' % (neg, n, e)
    raise Unsupported('value %r' % (v,))


def L(*items):
    out = ['[']
    for it in items:
        if isinstance(it, list): out.extend(it)
        else: out.append(it)
    out.append(']')
    return out


def lst(f, xs): return L(*[f(x) for x in xs])
def vals(xs): return L(*[val(x) for x in xs])
def opt(f, x): return L() if x is None else L(f(x))
def s(x):
    if not isinstance(x, str): raise Unsupported('expected str, got %r' % (x,))
    return val(x)
def dct(d, keys=None):
    items = [(k, d[k]) for k in (keys if keys is not None else d.keys()) if k in d]
    return L(val('#dict'), *[L(val(k), val(v)) for k, v in items])
def pair(f, g): return lambda p: L(f(p[0]), g(p[1]))


ROCK_EXTRA = ['compressibility', 'expansivity', 'dry_conductivity', 'tortuosity', 'klinkenberg', 'xkd3', 'xkd4']
PARAM_LISTS = ('option', 'timestep', 'default_incons')


def tp(d):
    """{} -> None, else (type, parameters)"""
    if not d: return None
    return (d['type'], list(d['parameters']))


def rock(rt):
    ex = {k: rt.__dict__[k] for k in ROCK_EXTRA if k in rt.__dict__}
    return L(s(rt.name), val(rt.nad), val(rt.density), val(rt.porosity), vals(list(rt.permeability)), val(rt.conductivity),
             val(rt.specific_heat), dct(ex), opt(pair(val, vals), tp(rt.relative_permeability)), opt(pair(val, vals), tp(rt.capillarity)))


def block(b):
    return L(s(b.name), val(b.nseq), val(b.nadd), s(b.rocktype.name), val(b.volume), val(b.ahtx), val(b.pmx),
             opt(vals, None if b.centre is None else list(b.centre)))


def conn(c):
    return L(s(c.block[0].name), s(c.block[1].name), val(c.nseq), val(c.nad1), val(c.nad2), val(c.direction), vals(list(c.distance)),
             val(c.area), val(c.dircos), val(c.sigma))


def gen(g):
    return L(s(g.block), s(g.name), val(g.nseq), val(g.nadd), val(g.nads), val(g.ltab), s(g.type), s(g.itab),
             val(g.gx), val(g.ex), val(g.hg), val(g.fg), vals(list(g.time)), vals(list(g.rate)), vals(list(g.enthalpy)))


def params(p):
    d = {k: v for k, v in p.items() if k not in PARAM_LISTS}
    return L(dct(d), L(*['I:%d' % int(m) for m in list(p['option'])[1:]]), vals(list(p['timestep'])), vals(list(p['default_incons'])))


def inc(i):
    return L(val(i[0]), vals(list(i[1])), opt(pair(val, val), (i[2], i[3]) if len(i) >= 4 else None))


def name_of(x): return x if isinstance(x, str) else x.name
def conname_of(c): return tuple(c) if isinstance(c, tuple) else tuple(b.name for b in c.block)


def short(so):
    return L(L(val(so['frequency'])) if 'frequency' in so else L(),
             opt(lambda l: lst(lambda b: s(b.name), l), so.get('block')),
             opt(lambda l: lst(lambda c: L(s(c.block[0].name), s(c.block[1].name)), l), so.get('connection')),
             opt(lambda l: lst(lambda g: L(s(g.block), s(g.name)), l), so.get('generator')))


def mm(sec):
    stype, body = sec
    st = stype.lower()
    if st == 'rz2d':
        def sub(x):
            k, d = x
            lists = [v for v in d.values() if isinstance(v, list)]
            sc = {a: b for a, b in d.items() if not isinstance(b, list)}
            return L(s(k), dct(sc), vals(lists[0] if lists else []))
        return L(s(stype), lst(sub, body))
    if st == 'xyz':
        def sub(d):
            sc = {a: b for a, b in d.items() if a != 'deli'}
            return L(dct(sc), vals(d.get('deli', [])))
        return L(s(stype), val(body[0]), lst(sub, body[1:]))
    if st == 'minc':
        sc = {a: b for a, b in body.items() if a not in ('spacing', 'vol')}
        return L(s(stype), dct(sc), vals(body['spacing']), vals(body['vol']))
    raise Unsupported('meshmaker section %r' % stype)


def encode(dat):
    """Token list of the abstract object of a t2data."""
    g = dat.grid
    ot = dat.output_times
    sel = dat.selection
    return L(s(dat.title), s(dat.simulator), lst(rock, g.rocktypelist), lst(block, g.blocklist), lst(conn, g.connectionlist),
             params(dat.parameter), L(*['I:%d' % int(m) for m in list(dat.more_option)[1:]]), val(bool(dat.start)), val(bool(dat.noversion)),
             opt(pair(val, vals), tp(dat.relative_permeability)), opt(pair(val, vals), tp(dat.capillarity)),
             dct(dat.lineq), dct(dat.solver), dct(dat.multi),
             opt(pair(lambda d: dct({k: v for k, v in d.items() if k != 'time'}), vals), (ot, list(ot.get('time', []))) if ot else None),
             opt(pair(vals, vals), (list(sel['integer']), list(sel['float'])) if sel else None),
             lst(lambda c: vals(list(c)), dat.diffusion), lst(mm, dat.meshmaker),
             lst(gen, dat.generatorlist), opt(short, dat.short_output if dat.short_output else None),
             lst(lambda b: s(name_of(b)), dat.history_block), lst(lambda c: L(*[s(n) for n in conname_of(c)]), dat.history_connection),
             lst(lambda b: s(name_of(b)), dat.history_generator),
             lst(pair(s, inc), list(dat.incon.items())), lst(pair(s, vals), [(k, list(v)) for k, v in dat.indom.items()]),
             lst(s, dat._sections), s(dat.end_keyword), lst(s, list(dat.extra_precision)), val(bool(dat.echo_extra_precision)))


# ---- trees -------------------------------------------------------------------
def parse(tokens):
    """token list -> nested python lists of value tokens"""
    stack, cur = [], []
    for t in tokens:
        if t == '[': stack.append(cur); cur = []
        elif t == ']':
            done = cur; cur = stack.pop(); cur.append(done)
        else: cur.append(t)
    if stack: raise ValueError('unbalanced token tree')
    return cur


DICT_TAG = val('#dict')
DROP_KEYS = {val('_option_str')}


def normalise(t):
    """dicts: drop None-valued entries and derived keys, sort by key"""
    if not isinstance(t, list): return t
    if t and t[0] == DICT_TAG:
        items = [e for e in t[1:] if e[1] != 'N' and e[0] not in DROP_KEYS]
        return [DICT_TAG] + sorted(items, key=lambda e: e[0])
    return [normalise(x) for x in t]


FIELDS = ['title', 'simulator', 'rocks', 'blocks', 'conns', 'param', 'momop', 'start', 'noversion', 'relperm', 'capil', 'lineq',
          'solver', 'multi', 'otimes', 'selection', 'diffusion', 'meshmaker', 'gens', 'short', 'hist_block', 'hist_conn', 'hist_gen',
          'incon', 'indom', 'sections', 'end_keyword', 'xprec', 'xecho']


def show_token(t):
    if isinstance(t, list): return '[' + ' '.join(show_token(x) for x in t) + ']'
    if t.startswith('S:'): return repr(bytes.fromhex(t[2:]).decode('latin-1'))
    if t.startswith('R:'):
        _, ng, m, e = t.split(':')
        m, e = int(m), int(e)
        if m == 0 and e == 1: return 'nan'
        if m == 0 and e == 2: return '-inf' if ng == '1' else 'inf'
        x = math.ldexp(m, e) if -1100 < e < 1100 else float('nan')
        return repr(-x if ng == '1' else x)
    return t


def diff(a, b, path='obj'):
    """First difference between two normalised trees of whole objects (or None)."""
    if isinstance(a, list) and isinstance(b, list):
        if len(a) != len(b):
            return '%s: lengths %d vs %d: %s vs %s' % (path, len(a), len(b), show_token(a)[:300], show_token(b)[:300])
        for i, (x, y) in enumerate(zip(a, b)):
            nm = FIELDS[i] if path == 'obj' and len(a) == len(FIELDS) else str(i)
            d = diff(x, y, '%s.%s' % (path, nm))
            if d: return d
        return None
    if a != b: return '%s: %s vs %s' % (path, show_token(a)[:300], show_token(b)[:300])
    return None
