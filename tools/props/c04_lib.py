"""C04 helpers: geometry recipes (deterministic, replayable), extraction of the abstract
geometry from a real mulgrid object, canonical dump of the implementation's grid, the
comparison with the extracted Coq model, and the model-independent oracle."""
import math, copy, os, traceback
from fractions import Fraction
import numpy as np

ALPHA_SETS = [None, 'abcdefghijklmnopqrstuvwxyz', 'ABCDEFGHIJKLMNOPQRSTUVWXYZ', 'qwertyuiopasdfghjklzxcvbnm', 'xyzuvw', 'MNPQRSTUVW']
SHIPPED = ['g1', 'g2', 'g3', 'g4', 'g5', 'g6', 'g7']
EXN = {'KeyError': 'KeyError', 'IndexError': 'IndexError', 'TypeError': 'TypeError', 'ValueError': 'ValueError',
       'Exception': 'Exception', 'ZeroDivisionError': 'ZeroDivisionError', 'AttributeError': 'AttributeError'}


# ----------------------------------------------------------------------------------------
# recipes -> geometries (public mulgrid API only)
# ----------------------------------------------------------------------------------------
def canon_cols(geo):
    """The columns in an order that does not depend on the library's (set-iteration dependent) column
    order and naming after refine(): sorted by centroid position.  Recipes refer to columns by their index
    in this list at the moment the operation is applied."""
    sc = max([1.0] + [abs(float(v)) for n in geo.nodelist for v in n.pos])

    def key(c):
        xs = [float(n.pos[0]) for n in c.node]; ys = [float(n.pos[1]) for n in c.node]
        return (round(sum(xs) / len(xs) / sc * 1e7), round(sum(ys) / len(ys) / sc * 1e7), c.num_nodes)
    return sorted(geo.columnlist, key=key)


def canon_nodes(col):
    return sorted(col.node, key=lambda n: (float(n.pos[0]), float(n.pos[1])))


def blockmap_of(geo, spec):
    """recipe block map (positional: [layer index, canonical column index, new name]; ['atm', new name] for the
    single atmosphere block; ['raw', key, new name] for a key that names no block) -> dict of names"""
    if spec is None: return None
    cc = canon_cols(geo)
    bm = {}
    for e in spec:
        if e[0] == 'raw': bm[e[1]] = e[2]
        elif e[0] == 'atm': bm[geo.block_name(geo.layerlist[0].name, geo.atmosphere_column_name)] = e[1]
        else: bm[geo.block_name(geo.layerlist[e[0]].name, cc[e[1]].name)] = e[2]
    return bm


def build_geo(recipe, repo):
    """Deterministically rebuild the geometry a recipe describes.  Returns (geo, blockmap or None)."""
    from mulgrids import mulgrid
    base = recipe['base']
    if base['kind'] == 'rect':
        kw = dict(convention=base['convention'], atmos_type=base['atmos_type'], origin=list(base['origin']),
                  justify=base['justify'], case=base['case'], block_order=base.get('block_order'))
        if base.get('chars'): kw['chars'] = base['chars']
        geo = mulgrid().rectangular(list(base['dx']), list(base['dy']), list(base['dz']), **kw)
    elif base['kind'] == 'file':
        geo = mulgrid(os.path.join(repo, 'tests', 'mulgrid', base['name'] + '.dat'))
    else:
        raise ValueError('unknown recipe base %r' % (base,))
    for op in recipe.get('ops', []):
        k = op[0]
        if k == 'refine':
            geo.refine([geo.columnlist[i].name for i in op[1]] if op[1] else [])
        elif k == 'refine_layers':
            geo.refine_layers([geo.layerlist[i].name for i in op[1]] if op[1] else [], factor=op[2])
        elif k == 'rotate':
            geo.rotate(op[1], None if op[2] is None else np.array(op[2], dtype=float))
        elif k == 'translate':
            geo.translate(np.array(op[1], dtype=float))
        elif k == 'atm':
            geo.atmosphere_type = op[1]
        elif k == 'order':
            geo.block_order = op[1]
        elif k == 'perm':
            geo.permeability_angle = op[1]
        elif k == 'tilt':
            geo.gdcx, geo.gdcy = op[1], op[2]
        elif k == 'atmvol':
            geo.atmosphere_volume = op[1]
        elif k == 'atmconn':
            geo.atmosphere_connection = op[1]
        elif k == 'convert':
            # an earlier use of the same geometry object: converted once, result dropped
            from t2grids import t2grid
            t2grid().fromgeo(geo)
        elif k == 'split':
            # a quadrilateral column split into two triangles (moves the retained column's centre, keeps connection objects)
            col = canon_cols(geo)[op[1]]
            geo.split_column(col.name, canon_nodes(col)[op[2]].name)
        elif k == 'move_centre':
            # column centres assigned (a MULgraph file may specify them): towards one of the column's own nodes
            cc = canon_cols(geo)
            for i, j, f in op[1]:
                col = cc[i]
                col.centre = col.centre + f * (canon_nodes(col)[j].pos - col.centre)
        elif k == 'copy_layers':
            # the layer structure is replaced by that of another geometry (columns keep their surfaces)
            other = mulgrid().rectangular([1.0], [1.0], list(op[1]), origin=[0.0, 0.0, op[2]], convention=geo.convention,
                                          atmos_type=geo.atmosphere_type)
            geo.copy_layers_from(other)
        elif k == 'add_layers':
            # new layers with a different top elevation, then the usual index set-up
            geo.add_layers(list(op[1]), op[2])
            for col in geo.columnlist: geo.set_column_num_layers(col)
            geo.setup_block_name_index()
            geo.setup_block_connection_name_index()
        elif k == 'rename_col':
            cc = canon_cols(geo)
            geo.rename_column([cc[i].name for i, _ in op[1]], [n for _, n in op[1]])
        elif k == 'centres':
            # layer centres off the mid-point (a MULgraph file gives each layer's centre separately)
            for i, f in op[1]:
                lay = geo.layerlist[i]
                lay.centre = lay.bottom + f * (lay.top - lay.bottom)
        elif k == 'surface':
            # explicit elevations per column index, then the documented refresh calls
            cc = canon_cols(geo)
            for i, s in op[1]:
                col = cc[i]
                col.surface = s
                geo.set_column_num_layers(col)
            geo.setup_block_name_index()
            geo.setup_block_connection_name_index()
        else:
            raise ValueError('unknown recipe op %r' % (op,))
    return geo, blockmap_of(geo, recipe.get('blockmap'))


def rnd_spacings(rng, n):
    style = rng.choice(['uniform', 'random', 'log', 'mixed'])
    if style == 'uniform':
        d = rng.choice([0.5, 1.0, 10.0, 25.0, 100.0, 250.0, rng.uniform(0.3, 400.0)])
        return [d] * n
    if style == 'log':
        a, r = rng.uniform(0.5, 50.0), rng.uniform(1.05, 1.8)
        return [a * r ** i for i in range(n)]
    if style == 'mixed':
        return [rng.choice([0.5, 1.0, 2.5, 10.0, 33.3, 100.0]) for _ in range(n)]
    return [rng.uniform(0.3, 500.0) for _ in range(n)]


def rnd_name5(rng, used):
    while True:
        n = ''.join(rng.choice('ABCDEFGHJKLMNPQRSTUVWXYZabcdefghijkmnpqrstuvwxyz') for _ in range(3)) + '%2d' % rng.randint(1, 99)
        if n not in used:
            used.add(n); return n


def choose_surfaces(rng, geo, mode):
    """Explicit column surfaces (list of (index, elevation)); every column keeps at least a sliver of
    the bottom layer (col.surface > bottom of the last layer), anything else is fair game."""
    lays = geo.layerlist
    top, bot = lays[0].bottom, lays[-1].bottom
    tops = [l.bottom for l in lays[:-1]]          # layer boundaries except the very bottom
    thick = [lays[i].bottom - lays[i + 1].bottom for i in range(len(lays) - 1)]
    span = top - bot
    out = []
    ncol = geo.num_columns
    if mode == 'default': return out
    a, b = rng.uniform(-1, 1), rng.uniform(-1, 1)
    cx = [c.centre[0] for c in geo.columnlist]; cy = [c.centre[1] for c in geo.columnlist]
    x0, x1, y0, y1 = min(cx), max(cx), min(cy), max(cy)
    for i, col in enumerate(canon_cols(geo)):
        if mode == 'some' and rng.random() < 0.5: continue
        r = rng.random()
        if mode == 'slope':
            u = (col.centre[0] - x0) / (x1 - x0) if x1 > x0 else 0.5
            v = (col.centre[1] - y0) / (y1 - y0) if y1 > y0 else 0.5
            f = 0.5 + 0.5 * (a * (u - 0.5) + b * (v - 0.5))      # 0..1
            s = bot + (0.08 + 0.97 * f) * span                   # may poke above the top layer
        elif mode == 'boundary' or r < 0.22:
            s = rng.choice(tops)                                 # exactly on a layer boundary
        elif r < 0.34:
            s = top + rng.uniform(0.01, 1.5) * max(thick[0], 1e-3)   # above the top of layer 1
        elif r < 0.42:
            k = rng.randrange(len(thick))                        # a thin sliver above a layer bottom
            s = lays[k + 1].bottom + thick[k] * rng.choice([1e-3, 0.01, 0.5, 0.99])
        elif r < 0.50:
            s = bot + thick[-1] * rng.uniform(0.05, 1.0)         # inside the bottom layer
        else:
            s = bot + rng.uniform(0.02, 1.0) * span
        if not (s > bot): s = bot + 0.5 * thick[-1]
        out.append((i, float(s)))
    return out


def gen_recipe(rng, kind=None, repo='/repo', big=False):
    """One random recipe.  The generator builds the geometry while choosing (surfaces and block
    maps refer to the actual columns/names), and returns (recipe, geo, blockmap)."""
    from mulgrids import mulgrid
    if kind is None:
        kind = rng.choices(['rect', 'rect2d', 'rect_refined', 'g7', 'g7_refined'], [50, 8, 20, 10, 12])[0]
    ops = []
    if kind.startswith('rect'):
        conv = rng.randrange(4)
        maxn = 9 if big else 6
        nx, ny = rng.randint(1, maxn), rng.randint(1, maxn)
        if kind == 'rect2d':
            if rng.random() < 0.5: nx = 1
            else: ny = 1
        if nx == 1 and ny == 1: nx = 2
        nz = rng.randint(1, 8 if big else 6)
        org_scale = rng.choice([0.0, 1.0, 100.0, 1e4, 1e5])
        origin = [rng.uniform(-1, 1) * org_scale, rng.uniform(-1, 1) * org_scale,
                  rng.choice([0.0, 0.0, rng.uniform(-1, 1) * rng.choice([10.0, 1000.0, 3000.0])])]
        base = dict(kind='rect', dx=rnd_spacings(rng, nx), dy=rnd_spacings(rng, ny), dz=rnd_spacings(rng, nz),
                    convention=conv, atmos_type=rng.randrange(3), origin=origin,
                    justify=rng.choice(['r', 'l']), case=rng.choice([None, 'l', 'u']),
                    chars=rng.choice(ALPHA_SETS), block_order=rng.choice([None, None, 'layer_column', 'dmplex']))
    else:
        base = dict(kind='file', name=kind.split('_')[0])
    recipe = dict(base=base, ops=ops, blockmap=None)

    def rebuild():
        return build_geo(dict(base=base, ops=ops, blockmap=None), repo)[0]

    geo = rebuild()
    if kind.endswith('_refined'):
        ok = [i for i, c in enumerate(geo.columnlist) if c.num_nodes <= 4]
        if rng.random() < 0.15: sel = []
        else:
            # a connected-ish patch: columns near a random centre
            c0 = geo.columnlist[rng.choice(ok)].centre
            ok.sort(key=lambda i: float(np.linalg.norm(geo.columnlist[i].centre - c0)))
            sel = sorted(ok[:rng.randint(1, max(1, min(len(ok), 12)))])
            if len(sel) == geo.num_columns: sel = []
        ops.append(('refine', sel))
        if rng.random() < 0.25: ops.append(('refine_layers', sorted(rng.sample(range(1, geo.num_layers), rng.randint(1, min(2, geo.num_layers - 1)))), 2))
    if rng.random() < 0.3:
        # the geometry object is USED (converted once) and then edited in ways that move column centres
        # while the connection objects stay: the conversion under test is the later one
        ops.append(('convert',))
        if rng.random() < 0.7:
            for _ in range(rng.choice([1, 1, 2, 3])):
                quads = [i for i, c in enumerate(canon_cols(rebuild())) if c.num_nodes == 4]      # indices as they are NOW
                if not quads: break
                ops.append(('split', rng.choice(quads), rng.randrange(4)))
        if rng.random() < 0.5:
            g0 = rebuild()
            cc0 = canon_cols(g0)
            ops.append(('move_centre', [(i, rng.randrange(cc0[i].num_nodes), rng.uniform(0.05, 0.3))
                                        for i in sorted(rng.sample(range(g0.num_columns), min(g0.num_columns, rng.choice([1, 2, 4]))))]))
    if base['kind'] == 'file':
        if rng.random() < 0.7: ops.append(('atm', rng.randrange(3)))
        geo = rebuild()
        if all(c.num_nodes in (3, 4) for c in geo.columnlist) and rng.random() < 0.4:
            ops.append(('order', rng.choice(['dmplex', 'layer_column'])))
    if rng.random() < 0.45:
        ops.append(('rotate', rng.choice([30.0, 45.0, 90.0, -17.5, 180.0, rng.uniform(-180, 180)]),
                    rng.choice([None, None, [0.0, 0.0], [rng.uniform(-100, 100), rng.uniform(-100, 100)]])))
    if rng.random() < 0.45:
        sc = rng.choice([1.0, 100.0, 1e4])
        ops.append(('translate', [rng.uniform(-1, 1) * sc, rng.uniform(-1, 1) * sc,
                                  rng.choice([0.0, rng.uniform(-1, 1) * rng.choice([1.0, 100.0, 2000.0])])]))
    if rng.random() < 0.6:
        ops.append(('perm', rng.choice([0.0, 30.0, 45.0, 90.0, -30.0, rng.uniform(-180, 180)])))
    if rng.random() < 0.3:
        gx = rng.choice([0.0, rng.uniform(-0.6, 0.6)]); gy = rng.choice([0.0, rng.uniform(-0.6, 0.6)])
        ops.append(('tilt', gx, gy))
    if rng.random() < 0.4: ops.append(('atmvol', rng.choice([1.e25, 1.e50, 1.e20, rng.uniform(1e10, 1e30)])))
    if rng.random() < 0.4: ops.append(('atmconn', rng.choice([1.e-6, 1.e-3, 1.0, rng.uniform(1e-9, 10.0)])))
    if rng.random() < 0.3:
        # replace the layer structure (other top elevation): columns keep their (default or file) surfaces
        g0 = rebuild()
        ground, smin = float(g0.layerlist[0].bottom), min(float(c.surface) for c in g0.columnlist)
        dz = rnd_spacings(rng, rng.randint(1, 8 if big else 6))
        top = ground + rng.choice([0.0, 1.0, -1.0, 1.0, -1.0]) * rng.uniform(0.2, 1.6) * dz[0]
        need = (top - smin) + rng.uniform(0.2, 1.0) * dz[-1]
        if sum(dz) < need: dz[-1] += need - sum(dz)
        ops.append((rng.choice(['copy_layers', 'add_layers']), [float(x) for x in dz], float(top)))
    if rng.random() < 0.3:
        nl = len(rebuild().layerlist)
        ops.append(('centres', [(i, rng.choice([0.25, 0.4, 0.6, 0.75, rng.uniform(0.05, 0.95)]))
                                for i in range(1, nl) if rng.random() < 0.7]))
    geo = rebuild()
    mode = rng.choices(['default', 'some', 'all', 'slope', 'boundary'], [12, 25, 38, 15, 10])[0]
    surf = choose_surfaces(rng, geo, mode)
    if surf: ops.append(('surface', surf))
    if surf and rng.random() < 0.15:
        again = choose_surfaces(rng, rebuild(), 'some')            # surfaces reassigned
        if again: ops.append(('surface', again))
    if rng.random() < 0.15: ops.append(('convert',))                   # used once more before the last assignments
    # configuration reached by assignment on the finished geometry (no refresh calls of ours after these):
    geo = rebuild()
    if rng.random() < 0.35:
        ops.append(('atm', rng.choice([k for k in range(3) if k != geo.atmosphere_type])))
    if rng.random() < 0.2 and all(c.num_nodes in (3, 4) for c in geo.columnlist):
        ops.append(('order', rng.choice([o for o in (None, 'layer_column', 'dmplex') if o != geo.block_order])))
    if rng.random() < 0.2:
        L = geo.colname_length
        taken = set(c.name for c in geo.columnlist) | set(['ATM'[:L]])
        ren = []
        for i in sorted(rng.sample(range(geo.num_columns), min(geo.num_columns, rng.choice([1, 2, 5])))):
            while True:
                n = ''.join(rng.choice('abcdefghijklmnopqrstuvwxyzABCDEFGHIJKLMNOPQRSTUVWXYZ') for _ in range(L))
                if n not in taken: break
            taken.add(n); ren.append((i, n))
        ops.append(('rename_col', ren))
    geo = rebuild()
    if rng.random() < 0.45:
        cc = canon_cols(geo)
        where = {}
        for li, lay in enumerate(geo.layerlist):
            for ci, col in enumerate(cc): where.setdefault(geo.block_name(lay.name, col.name), (li, ci))
        names = sorted(geo.block_name_list, key=lambda n: where.get(n, (-1, -1)))      # an order that does not depend on names
        used = set(names)
        m = rng.choice([1, 2, max(1, len(names) // 4), len(names)])
        spec = []
        for n in rng.sample(names, min(m, len(names))):
            spec.append(list(where[n]) + [rnd_name5(rng, used)] if n in where else ['atm', rnd_name5(rng, used)])
        if rng.random() < 0.3: spec.append(['raw', rnd_name5(rng, used), rnd_name5(rng, used)])    # an unused key
        recipe['blockmap'] = spec
    elif rng.random() < 0.2:
        recipe['blockmap'] = []                                               # explicit empty map
    recipe['mode'] = mode
    recipe['kind'] = kind
    # how the conversion under test is made: on a fresh grid; as a SECOND conversion after the first grid was
    # built and scribbled over by its owner; on a grid object that already held another model
    recipe['use'] = rng.choices(['fresh', 'again', 'reuse'], [60, 25, 15])[0]
    return recipe, geo, blockmap_of(geo, recipe['blockmap'])


# ----------------------------------------------------------------------------------------
# abstract geometry -> case line for the extracted model
# ----------------------------------------------------------------------------------------
def qs(x):
    n, d = float(x).as_integer_ratio()
    return '%d/%d' % (n, d)


def hx(s):
    return s.encode('latin-1').hex()


def abstract_line(geo, blockmap):
    """Everything the model needs, read through public attributes of the mulgrid object."""
    colidx = {id(c): i for i, c in enumerate(geo.columnlist)}
    tilt = geo.tilt_vector
    ang = math.radians(geo.permeability_angle)
    bo = geo.block_order
    fields = ['G', str(geo.convention), str(geo.atmosphere_type), qs(geo.atmosphere_volume), qs(geo.atmosphere_connection),
              # tilt vector: the first two components are exactly GDCX, GDCY in the model (Tilt.v: closed form of
              # get_tilt_vector); the third, -sqrt(1 - GDCX^2 - GDCY^2), is carried as the double the code computed
              '1' if bo == 'dmplex' else '0', qs(0.0 if geo.gdcx is None else geo.gdcx), qs(0.0 if geo.gdcy is None else geo.gdcy),
              qs(tilt[2]), qs(math.cos(ang)), qs(math.sin(ang)),
              ';'.join('%s,%s,%s,%s' % (hx(l.name), qs(l.bottom), qs(l.centre), qs(l.top)) for l in geo.layerlist),
              ';'.join('%s,%s,%s,%s,%s,%d,%s' % (hx(c.name), qs(c.surface), qs(c.area), qs(c.centre[0]), qs(c.centre[1]), c.num_nodes,
                                                   '|'.join('%s_%s' % (qs(n.pos[0]), qs(n.pos[1])) for n in c.node))
                       for c in geo.columnlist),
              ';'.join('%d,%d,%s,%s,%s,%s' % (colidx[id(con.column[0])], colidx[id(con.column[1])],
                                                qs(con.node[0].pos[0]), qs(con.node[0].pos[1]),
                                                qs(con.node[1].pos[0]), qs(con.node[1].pos[1]))
                       for con in geo.connectionlist),
              ';'.join('%s,%s' % (hx(k), hx(v)) for k, v in (blockmap or {}).items())]
    return '\t'.join(fields)


def pq(s):
    n, d = s.split('/')
    return Fraction(int(n, 16), int(d, 16))


def fr2f(fr):
    return fr.numerator / fr.denominator       # correctly rounded


def surd_val(c, r):
    c, r = pq(c), pq(r)
    if r < 0: return float('nan')
    return fr2f(c) * math.sqrt(fr2f(r))


def unhx(s):
    return bytes.fromhex(s).decode('latin-1')


def parse_model(line):
    """-> dict(names, cnames, blocks, conns); each a list or ('RAISE', exn)."""
    parts = line.split('\t')
    if len(parts) != 5: return None

    def sec(p, f):
        if p.startswith('RAISE '): return ('RAISE', p[6:])
        body = p[1:]
        return [f(x) for x in body.split(';')] if body else []

    def blk(x):
        f = x.split(':')
        name = unhx(f[0]); vol = None if f[1] == 'None' else pq(f[1])
        if f[2] == 'None': return (name, vol, None, f[3] == '1')
        return (name, vol, (pq(f[2]), pq(f[3]), pq(f[4])), f[5] == '1')

    def con(x):
        f = x.split(':')
        return (unhx(f[0]), unhx(f[1]), int(f[2]), surd_val(f[3], f[4]), surd_val(f[5], f[6]),
                surd_val(f[7], f[8]), surd_val(f[9], f[10]))

    def cen(x):
        if x == 'None': return None
        f = x.split(':')
        return (pq(f[0]), pq(f[1]))

    return dict(names=sec(parts[0], unhx), cnames=sec(parts[1], lambda x: tuple(unhx(y) for y in x.split(':'))),
                blocks=sec(parts[2], blk), conns=sec(parts[3], con), centroids=sec(parts[4], cen))


# ----------------------------------------------------------------------------------------
# scales and tolerances
# ----------------------------------------------------------------------------------------
class Scales:
    def __init__(self, geo):
        xy = [abs(float(v)) for n in geo.nodelist for v in n.pos] + [abs(float(v)) for c in geo.columnlist for v in c.centre]
        zs = [abs(float(l.bottom)) for l in geo.layerlist] + [abs(float(l.top)) for l in geo.layerlist] + \
             [abs(float(c.surface)) for c in geo.columnlist]
        self.L = max([1.0] + xy)
        self.Z = max([1.0] + zs)
        self.A = max([1e-300] + [abs(float(c.area)) for c in geo.columnlist])
        self.S = max([1e-300] + [float(np.linalg.norm(con.node[0].pos - con.node[1].pos)) for con in geo.connectionlist])
        lo = min(float(l.bottom) for l in geo.layerlist)
        hi = max([float(l.top) for l in geo.layerlist] + [float(c.surface) for c in geo.columnlist])
        self.H = max(hi - lo, 1e-300)
        self.P = max([1e-300] + [sum(float(np.linalg.norm(c.node[i].pos - c.node[(i + 1) % c.num_nodes].pos))
                                     for i in range(c.num_nodes)) for c in geo.columnlist])


REL = 1e-9
ABSF = 2e-13           # ~ 900 ulp of the cancellation scale


def close(a, b, scale=0.0):
    if a is None or b is None: return a is None and b is None
    a, b = float(a), float(b)
    if a != a or b != b: return (a != a) and (b != b)
    return abs(a - b) <= REL * max(abs(a), abs(b)) + ABSF * scale


# ----------------------------------------------------------------------------------------
# implementation side
# ----------------------------------------------------------------------------------------
def run_impl(geo, blockmap, use='fresh'):
    """t2grid().fromgeo(geo[, blockmap]) -> (grid, None) or (None, exception class name).
    use='again': the grid under test is the SECOND one built from this geometry (same block map object), after the
    first one was built and its owner wrote into its mutable fields (distances, centres): nothing may be shared
    between two grids or between a grid and the geometry, and nothing may be remembered from the first call.
    use='reuse': the grid object already holds another model when fromgeo is called on it."""
    from t2grids import t2grid
    try:
        bm = None if blockmap is None else dict(blockmap)
        conv = (lambda g: g.fromgeo(geo)) if bm is None else (lambda g: g.fromgeo(geo, bm))
        if use == 'again':
            first = conv(t2grid())
            for c in first.connectionlist:
                c.distance[0] += 1.0; c.distance[1] *= 3.0
            for b in first.blocklist:
                if b.centre is not None: b.centre += 1.0
            grid = conv(t2grid())
        elif use == 'reuse':
            from mulgrids import mulgrid
            grid = t2grid().fromgeo(mulgrid().rectangular([7.0, 9.0], [11.0], [3.0, 4.0], atmos_type=0, convention=1))
            grid = conv(grid)
        else:
            grid = conv(t2grid())
        if bm is not None and bm != dict(blockmap): return None, 'BlockmapMutated'
        return grid, None
    except Exception as e:
        return None, type(e).__name__


def compare(geo, blockmap, grid, err, model, sc):
    """Model vs implementation.  Returns a list of difference strings (empty = agree)."""
    diffs = []
    if model is None: return ['model output malformed']
    # (1) the geometry's own lists
    if isinstance(model['names'], tuple): diffs.append('block_name_list: model raises %s, geometry has a list' % model['names'][1])
    elif list(geo.block_name_list) != model['names']:
        diffs.append('block_name_list differs: impl %r.. model %r..' % (first_diff(list(geo.block_name_list), model['names'])))
    if isinstance(model['cnames'], tuple): diffs.append('block_connection_name_list: model raises %s' % model['cnames'][1])
    elif [tuple(x) for x in geo.block_connection_name_list] != model['cnames']:
        diffs.append('block_connection_name_list differs: impl %r.. model %r..' % (first_diff([tuple(x) for x in geo.block_connection_name_list], model['cnames'])))
    # (1a) the defining equation of the third tilt component: tz <= 0 and tz^2 = 1 - GDCX^2 - GDCY^2
    gx = Fraction(0.0 if geo.gdcx is None else float(geo.gdcx)); gy = Fraction(0.0 if geo.gdcy is None else float(geo.gdcy))
    tz = Fraction(float(geo.tilt_vector[2]))
    if gx * gx + gy * gy <= 1 and gy * gy < 1:
        if tz > 0 or abs(float(tz * tz - (1 - gx * gx - gy * gy))) > 1e-12:
            diffs.append('tilt_vector[2] = %r: not -sqrt(1 - gdcx^2 - gdcy^2) for gdcx %r gdcy %r' % (float(tz), float(gx), float(gy)))
    # (1b) geometry.polygon_centroid of the model, from the node positions, against the column's own centroid
    #      (the model's polygon_area enters every block volume and vertical connection area below)
    cens = model.get('centroids')
    if isinstance(cens, tuple) or cens is None or len(cens) != len(geo.columnlist):
        diffs.append('model centroids malformed')
    else:
        for c, m in zip(geo.columnlist, cens):
            if c.num_nodes < 3: continue
            ic = c.centroid
            if m is None or not (close(ic[0], fr2f(m[0]), sc.L) and close(ic[1], fr2f(m[1]), sc.L)):
                diffs.append('column %r centroid: impl %r model %r' % (c.name, [float(v) for v in ic], None if m is None else [fr2f(v) for v in m]))
                break
    # (2) the grid
    if err is not None:
        for k in ('blocks', 'conns'):
            m = model[k]
            if isinstance(m, tuple):
                if EXN.get(err) == m[1]: return diffs
        diffs.append('fromgeo raised %s; model: blocks %s, conns %s' % (
            err, model['blocks'] if isinstance(model['blocks'], tuple) else 'ok', model['conns'] if isinstance(model['conns'], tuple) else 'ok'))
        return diffs
    if isinstance(model['blocks'], tuple) or isinstance(model['conns'], tuple):
        diffs.append('model raises (blocks %s, conns %s), fromgeo returned a grid' % (
            model['blocks'] if isinstance(model['blocks'], tuple) else 'ok', model['conns'] if isinstance(model['conns'], tuple) else 'ok'))
        return diffs
    mb, mc = model['blocks'], model['conns']
    ib = grid.blocklist
    if [b.name for b in ib] != [b[0] for b in mb]:
        diffs.append('block names/order differ: impl %r.. model %r..' % first_diff([b.name for b in ib], [b[0] for b in mb]))
    else:
        for b, m in zip(ib, mb):
            if bool(b.atmosphere) != m[3]: diffs.append('block %r atmosphere flag: impl %r model %r' % (b.name, b.atmosphere, m[3]))
            mv = None if m[1] is None else fr2f(m[1])
            if not close(b.volume, mv, 0.0 if m[3] else sc.A * sc.Z):
                diffs.append('block %r volume: impl %r model %r' % (b.name, b.volume, mv))
            if (b.centre is None) != (m[2] is None): diffs.append('block %r centre: impl %r model %r' % (b.name, b.centre, m[2]))
            elif b.centre is not None:
                for k, s in ((0, sc.L), (1, sc.L), (2, sc.Z)):
                    if not close(b.centre[k], fr2f(m[2][k]), s):
                        diffs.append('block %r centre[%d]: impl %r model %r' % (b.name, k, float(b.centre[k]), fr2f(m[2][k])))
            if len(diffs) > 8: break
    ic = grid.connectionlist
    inames = [tuple(b.name for b in c.block) for c in ic]
    if inames != [(c[0], c[1]) for c in mc]:
        diffs.append('connection names/order/orientation differ: impl %r.. model %r..' % first_diff(inames, [(c[0], c[1]) for c in mc]))
    else:
        ang = math.radians(geo.permeability_angle); cs, sn = math.cos(ang), math.sin(ang)
        for c, m in zip(ic, mc):
            nm = tuple(b.name for b in c.block)
            vertical = (m[2] == 3)
            if c.direction != m[2]:
                tie = False
                if not vertical and c.block[0].centre is not None and c.block[1].centre is not None:
                    d = c.block[1].centre - c.block[0].centre
                    a1 = abs(cs * d[0] + sn * d[1]); a2 = abs(-sn * d[0] + cs * d[1])
                    tie = abs(a1 - a2) <= 1e-9 * max(a1, a2) + ABSF * sc.L
                if not tie: diffs.append('connection %r direction: impl %r model %r' % (nm, c.direction, m[2]))
            ds = sc.Z if vertical else sc.L
            for k in (0, 1):
                if not close(c.distance[k], m[3 + k], ds):
                    diffs.append('connection %r distance[%d]: impl %r model %r' % (nm, k, float(c.distance[k]), m[3 + k]))
            if not close(c.area, m[5], 0.0 if vertical else (sc.L * sc.H + sc.Z * sc.S)):
                diffs.append('connection %r area: impl %r model %r' % (nm, float(c.area), m[5]))
            if not (close(c.dircos, m[6], 0.0) or abs(float(c.dircos) - m[6]) <= 1e-9):
                diffs.append('connection %r dircos: impl %r model %r' % (nm, float(c.dircos), m[6]))
            if len(diffs) > 8: break
    return diffs


def first_diff(a, b):
    for i, (x, y) in enumerate(zip(a, b)):
        if x != y: return ('[%d] %r' % (i, x), '[%d] %r' % (i, y))
    return ('len %d' % len(a), 'len %d' % len(b))


# ----------------------------------------------------------------------------------------
# the oracle: the property statement on the implementation alone
# ----------------------------------------------------------------------------------------
def own_block_name(conv, lname, cname):
    """Block name from layer and column names per the documented conventions (incl. the
    TOUGH2 (a3,i2) blank fix)."""
    if conv in (0, 3): n = cname[0:3] + lname[0:2]
    elif conv == 1: n = lname[0:3] + cname[0:2]
    else: n = lname[0:2] + cname[0:3]
    if len(n) >= 5 and n[2].isdigit() and n[4].isdigit() and n[3] == ' ': n = n[0:3] + '0' + n[4]
    return n


def shoelace(pts, signed=False):
    """Exact (rational) polygon area from raw node coordinates, rounded once at the end."""
    P = [(Fraction(float(p[0])), Fraction(float(p[1]))) for p in pts]
    s = Fraction(0)
    for i in range(len(P)):
        x1, y1 = P[i]; x2, y2 = P[(i + 1) % len(P)]
        s += x1 * y2 - x2 * y1
    return fr2f(s / 2) if signed else abs(fr2f(s / 2))


def oracle(geo, blockmap, grid, err, sc, fail):
    """fail(key, observed, required) is called for every clause of the property text that the
    grid built by the implementation does not satisfy.  Returns dict of counters."""
    stats = dict(blocks=0, vconn=0, vatm=0, hconn=0, hconn_trunc=0, hconn_level=0, top_trunc=0, top_above=0, top_on_boundary=0, vconn_nonpositive_distance=0)
    if err is not None:
        fail('t2grid.fromgeo:raises', 'fromgeo raised %s' % err, 'a grid')
        return stats
    bm = blockmap or {}
    mp = lambda n: bm.get(n, n)
    # --- blocks and connections are the announced ones, in order and orientation
    want_b = [mp(n) for n in geo.block_name_list]
    got_b = [b.name for b in grid.blocklist]
    if got_b != want_b:
        fail('t2grid.add_blocks:names-order', 'blocks %s' % (first_diff(got_b, want_b)[0],), 'announced %s' % (first_diff(got_b, want_b)[1],))
        return stats
    want_c = [(mp(a), mp(b)) for a, b in geo.block_connection_name_list]
    got_c = [tuple(b.name for b in c.block) for c in grid.connectionlist]
    if got_c != want_c:
        fail('t2grid.add_connections:names-order-orientation', 'connections %s' % (first_diff(got_c, want_c)[0],),
             'announced %s' % (first_diff(got_c, want_c)[1],))
        return stats
    if set(grid.block.keys()) != set(got_b) or any(grid.block[b.name] is not b for b in grid.blocklist):
        fail('t2grid.add_blocks:index-consistency', 'block dictionary and block list disagree', 'same blocks')
    if set(grid.connection.keys()) != set(got_c) or any(grid.connection[k] is not c for k, c in zip(got_c, grid.connectionlist)):
        fail('t2grid.add_connections:index-consistency', 'connection dictionary and list disagree', 'same connections')
    # --- independent geometry: which block is which (layer, column), heights, centres
    conv = geo.convention
    lays = geo.layerlist
    where = {}
    for li, lay in enumerate(lays):
        for ci, col in enumerate(geo.columnlist):
            where.setdefault(mp(own_block_name(conv, lay.name, col.name)), []).append((li, ci))
    area = [shoelace([n.pos for n in c.node]) for c in geo.columnlist]
    bottom_last = float(lays[-1].bottom)

    def toplayer(col):      # index of the column's top block layer: first layer below the atmosphere whose bottom is under the surface
        for li in range(1, len(lays)):
            if lays[li].bottom < col.surface: return li
        return None

    tl = [toplayer(c) for c in geo.columnlist]

    def height(li, ci):
        col, lay = geo.columnlist[ci], lays[li]
        if li == tl[ci]: return float(col.surface) - float(lay.bottom)       # the top block reaches the surface
        return float(lay.top) - float(lay.bottom)

    def zc(li, ci):
        """elevation of the block centre: layer centre, or mid-way between bottom and surface in a
        truncated top block (DESIGN App. A / mulgrid.block_centre docstring)"""
        col, lay = geo.columnlist[ci], lays[li]
        if lay.bottom < col.surface <= lay.top: return 0.5 * (float(lay.bottom) + float(col.surface))
        return float(lay.centre)

    natm = {0: 1, 1: geo.num_columns, 2: 0}[geo.atmosphere_type]
    total = 0.0
    seen = set()
    located = {}
    for b in grid.blocklist[natm:]:
        w = where.get(b.name)
        if w and len(w) > 1:
            # a mapped name may coincide with the unmapped name of a (layer, column) pair that has NO block
            # (column surface at or below that layer's bottom): the block is then the one of the pair that
            # is expected to have a block, if that is unique
            present = [(li, ci) for li, ci in w if li > 0 and geo.columnlist[ci].surface > lays[li].bottom]
            if len(present) == 1: w = present
        if not w or len(w) != 1 or w[0][0] == 0:
            fail('t2grid.add_underground_blocks:unknown-block', 'block %r' % b.name, 'a block of one (layer, column) below the atmosphere layer')
            return stats
        li, ci = w[0]
        located[b.name] = (li, ci)
        col, lay = geo.columnlist[ci], lays[li]
        if not (col.surface > lay.bottom):
            fail('t2grid.add_underground_blocks:block-above-surface', 'block %r exists; surface %r, layer bottom %r' % (b.name, col.surface, lay.bottom), 'no block')
        seen.add((li, ci))
        h = height(li, ci)
        want = area[ci] * h
        stats['blocks'] += 1
        if li == tl[ci]:
            if col.surface < lay.top: stats['top_trunc'] += 1
            elif col.surface > lay.top: stats['top_above'] += 1
            if any(col.surface == l.bottom for l in lays): stats['top_on_boundary'] += 1
        if b.volume is None or not close(b.volume, want, sc.A * sc.Z + sc.L * sc.P * sc.H):
            fail('mulgrid.block_volume:area-times-height', 'block %r volume %r' % (b.name, b.volume),
                 'area %r x height %r = %r' % (area[ci], h, want))
        total += float(b.volume) if b.volume is not None else 0.0
    nexp = sum(1 for ci, col in enumerate(geo.columnlist) for li in range(1, len(lays)) if lays[li].bottom < col.surface)
    if len(seen) != nexp:
        fail('t2grid.add_underground_blocks:block-count', '%d rock blocks' % len(seen), '%d (layer, column) pairs below the surface' % nexp)
    want_total = sum(a * (float(c.surface) - bottom_last) for a, c in zip(area, geo.columnlist))
    if not close(total, want_total, len(geo.columnlist) * (sc.A * sc.Z + sc.L * sc.P * sc.H)):
        fail('t2grid.fromgeo:total-volume', 'total rock volume %r' % total, 'sum of area x depth to surface = %r' % want_total)
    # --- connections
    tiltv = None
    gx = 0.0 if geo.gdcx is None else float(geo.gdcx); gy = 0.0 if geo.gdcy is None else float(geo.gdcy)
    untilted = (gx == 0.0 and gy == 0.0)
    gz = -math.sqrt(max(0.0, 1.0 - gx * gx - gy * gy))
    atmnames = set(got_b[:natm])
    for c, key in zip(grid.connectionlist, got_c):
        n1, n2 = key
        if n2 in atmnames or n1 in atmnames:
            # connection to the atmosphere: (rock block, atmosphere block)
            if n1 in atmnames or n1 not in located:
                fail('t2grid.add_vertical_layer_connections:orientation', 'connection %r' % (key,), '(lower, upper)'); continue
            li, ci = located[n1]; col = geo.columnlist[ci]
            stats['vatm'] += 1
            if not close(c.area, area[ci], sc.L * sc.P):
                fail('t2grid.add_vertical_layer_connections:area', 'connection %r area %r' % (key, float(c.area)), 'column area %r' % area[ci])
            if untilted and float(c.dircos) != -1.0:
                fail('t2grid.add_vertical_layer_connections:dircos', 'connection %r dircos %r' % (key, float(c.dircos)), '-1')
            if not untilted and not close(c.dircos, gz, 1e3):
                fail('t2grid.add_vertical_layer_connections:dircos-tilted', 'connection %r dircos %r' % (key, float(c.dircos)), repr(gz))
            want1 = float(col.surface) - zc(li, ci)
            if not close(c.distance[0], want1, sc.Z):
                fail('t2grid.add_vertical_layer_connections:atmosphere-distance', 'connection %r distance[0] %r' % (key, float(c.distance[0])),
                     'surface - block centre = %r' % want1)
            if float(c.distance[1]) != float(geo.atmosphere_connection):
                fail('t2grid.add_vertical_layer_connections:atmosphere-connection', 'connection %r distance[1] %r' % (key, float(c.distance[1])),
                     'atmosphere_connection %r' % geo.atmosphere_connection)
            continue
        if n1 not in located or n2 not in located:
            fail('t2grid.add_connections:unknown-block', 'connection %r' % (key,), 'blocks of the grid'); continue
        (l1, c1), (l2, c2) = located[n1], located[n2]
        if c1 == c2:
            stats['vconn'] += 1
            if not (l1 == l2 + 1):
                fail('t2grid.add_vertical_layer_connections:orientation', 'connection %r joins layers %d, %d' % (key, l1, l2), '(lower, upper) adjacent layers')
                continue
            if not close(c.area, area[c1], sc.L * sc.P):
                fail('t2grid.add_vertical_layer_connections:area', 'connection %r area %r' % (key, float(c.area)), 'column area %r' % area[c1])
            if untilted and float(c.dircos) != -1.0:
                fail('t2grid.add_vertical_layer_connections:dircos', 'connection %r dircos %r' % (key, float(c.dircos)), '-1')
            if not untilted and not close(c.dircos, gz, 1e3):
                fail('t2grid.add_vertical_layer_connections:dircos-tilted', 'connection %r dircos %r' % (key, float(c.dircos)), repr(gz))
            sep = zc(l2, c2) - zc(l1, c1)
            if not close(float(c.distance[0]) + float(c.distance[1]), sep, sc.Z):
                fail('t2grid.add_vertical_layer_connections:distances-sum', 'connection %r distances %r + %r' % (key, float(c.distance[0]), float(c.distance[1])),
                     'centre separation %r' % sep)
            # (positivity of the two distances is not part of the property text: counted, not demanded)
            if not (float(c.distance[0]) > 0 and float(c.distance[1]) > 0): stats['vconn_nonpositive_distance'] += 1
            continue
        if l1 != l2:
            fail('t2grid.add_horizontal_layer_connections:layers', 'connection %r joins layers %d and %d of different columns' % (key, l1, l2), 'one layer'); continue
        stats['hconn'] += 1
        colA, colB = geo.columnlist[c1], geo.columnlist[c2]
        shared = [n for n in colA.node if n in colB.node]
        if len(shared) != 2:
            fail('t2grid.add_horizontal_layer_connections:no-shared-edge', 'connection %r: %d shared nodes' % (key, len(shared)), '2'); continue
        p, q = (np.array(shared[0].pos, dtype=float), np.array(shared[1].pos, dtype=float))
        e = q - p
        elen = math.hypot(e[0], e[1])
        hmin = min(height(l1, c1), height(l1, c2))
        if not close(c.area, elen * hmin, sc.L * sc.H + sc.Z * sc.S):
            fail('mulgrid.connection_params:area', 'connection %r area %r' % (key, float(c.area)),
                 'edge %r x lower height %r = %r' % (elen, hmin, elen * hmin))
        for k, col in ((0, colA), (1, colB)):
            w = np.array(col.centre, dtype=float) - p
            perp = abs(e[0] * w[1] - e[1] * w[0]) / elen
            if not close(c.distance[k], perp, sc.L):
                fail('mulgrid.connection_params:distance', 'connection %r distance[%d] %r' % (key, k, float(c.distance[k])),
                     'perpendicular distance centre-edge %r' % perp)
        z1, z2 = zc(l1, c1), zc(l1, c2)
        d = np.array([float(colB.centre[0]) - float(colA.centre[0]), float(colB.centre[1]) - float(colA.centre[1]), z2 - z1])
        nd = math.sqrt(float(np.dot(d, d)))
        want = (d[0] * gx + d[1] * gy + d[2] * gz) / nd
        if z1 == z2: stats['hconn_level'] += 1
        else: stats['hconn_trunc'] += 1
        if untilted:
            if z1 == z2 and float(c.dircos) != 0.0:
                fail('t2grid.add_horizontal_layer_connections:dircos-level', 'connection %r dircos %r between blocks at equal elevation' % (key, float(c.dircos)), '0')
            if z1 != z2 and float(c.dircos) == 0.0:
                fail('t2grid.add_horizontal_layer_connections:dircos-truncated', 'connection %r dircos 0 beside a truncated surface block' % (key,), 'non-zero')
        if not (abs(float(c.dircos) - want) <= 1e-9 + 1e-9 * abs(want)):
            fail('t2grid.add_horizontal_layer_connections:dircos', 'connection %r dircos %r' % (key, float(c.dircos)),
                 'cosine of centre line against gravity %r' % want)
    return stats
