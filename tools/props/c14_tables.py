"""C14/C15 -- fail-closed translator of literal tables (coefficient arrays, exponent arrays,
multiplication-chain tables, scalar constants) from a thermodynamics module's AST to Coq data.

The module is parsed with `ast`, never imported.  The closed literal sub-language is:
number literals, unary +/-, binary + - * / on numbers (evaluated in double arithmetic exactly
as CPython does), names bound earlier at module level, tuple/list literals, tuple
assignment, `np.array(<list>[, float64])`.  A module-level name bound to anything else (e.g.
a constant computed by calling one of the module's functions) is recorded as OPAQUE: it is
refused as soon as a requested table, or a literal expression, depends on it.  Any other
statement at module level (other than imports, the import try/except, docstrings, `def`s) is
refused.

Each float is emitted twice: as the exact dyadic rational of the double (Q) and as a hex
PrimFloat literal."""
import ast
from fractions import Fraction


class Refusal(Exception):
    pass


class Opaque:
    """a module-level name whose value is outside the literal sub-language"""
    def __init__(self, why): self.why = why


class FArray(list):
    """np.array(..., float64)"""


class IArray(list):
    """np.array of Python ints"""


def _num(v):
    return isinstance(v, (int, float)) and not isinstance(v, bool)


class Tables:
    def __init__(self, path):
        self.path = path
        self.env = {}          # name -> value (float | int | FArray | IArray | tuple)
        self.order = []
        self.lines = {}
        src = open(path).read()
        self.tree = ast.parse(src, path)
        self.funcs = {}
        for st in self.tree.body:
            self.stmt(st)

    def fail(self, node, why):
        raise Refusal('%s:%s: %s' % (self.path, getattr(node, 'lineno', '?'), why))

    def stmt(self, st):
        if isinstance(st, ast.Expr) and isinstance(st.value, ast.Constant) and isinstance(st.value.value, str):
            return
        if isinstance(st, (ast.Import, ast.ImportFrom)):
            return
        if isinstance(st, ast.Try):
            for s in st.body + [x for h in st.handlers for x in h.body] + st.orelse + st.finalbody:
                if not isinstance(s, (ast.Import, ast.ImportFrom)):
                    self.fail(s, 'only imports are supported inside a module-level try')
            return
        if isinstance(st, ast.FunctionDef):
            self.funcs[st.name] = st
            return
        if isinstance(st, ast.If):
            # `if __name__ == '__main__':` blocks are not part of the library
            t = st.test
            if (isinstance(t, ast.Compare) and isinstance(t.left, ast.Name) and t.left.id == '__name__'):
                return
            self.fail(st, 'module-level if')
        if isinstance(st, ast.Assign):
            if len(st.targets) != 1: self.fail(st, 'chained assignment')
            tgt = st.targets[0]
            try:
                val = self.expr(st.value)
            except Refusal as e:
                if not isinstance(tgt, ast.Name): raise
                val = Opaque(str(e))          # refused later if anything requested depends on it
            if isinstance(tgt, ast.Name):
                self.bind(tgt.id, val, st)
            elif isinstance(tgt, ast.Tuple) and all(isinstance(e, ast.Name) for e in tgt.elts):
                if not isinstance(val, tuple) or len(val) != len(tgt.elts):
                    self.fail(st, 'tuple assignment shape')
                for e, v in zip(tgt.elts, val): self.bind(e.id, v, st)
            else:
                self.fail(st, 'unsupported assignment target')
            return
        self.fail(st, 'unsupported module-level statement %s' % type(st).__name__)

    def bind(self, name, val, st):
        if name in self.funcs: self.fail(st, 'name %s rebinds a function' % name)
        self.env[name] = val
        if name in self.order: self.order.remove(name)    # later binding wins, as in Python
        self.order.append(name)
        self.lines[name] = st.lineno

    def expr(self, e):
        if isinstance(e, ast.Constant):
            if _num(e.value): return e.value
            self.fail(e, 'unsupported constant %r' % (e.value,))
        if isinstance(e, ast.UnaryOp) and isinstance(e.op, (ast.USub, ast.UAdd)):
            v = self.expr(e.operand)
            if not _num(v): self.fail(e, 'unary sign on a non-number')
            return -v if isinstance(e.op, ast.USub) else +v
        if isinstance(e, ast.BinOp) and isinstance(e.op, (ast.Add, ast.Sub, ast.Mult, ast.Div)):
            a, b = self.expr(e.left), self.expr(e.right)
            if not (_num(a) and _num(b)): self.fail(e, 'arithmetic on non-numbers')
            try:
                if isinstance(e.op, ast.Add): return a + b
                if isinstance(e.op, ast.Sub): return a - b
                if isinstance(e.op, ast.Mult): return a * b
                return a / b
            except (ZeroDivisionError, OverflowError) as ex:
                self.fail(e, 'arithmetic error %r' % ex)
        if isinstance(e, ast.Name):
            if e.id in self.env:
                if isinstance(self.env[e.id], Opaque): self.fail(e, 'name %s is not a literal (%s)' % (e.id, self.env[e.id].why))
                return self.env[e.id]
            self.fail(e, 'name %s is not bound to a literal earlier in the module' % e.id)
        if isinstance(e, (ast.Tuple, ast.List)):
            vals = tuple(self.expr(x) for x in e.elts)
            return vals if isinstance(e, ast.Tuple) else list(vals)
        if isinstance(e, ast.Call):
            f = e.func
            if (isinstance(f, ast.Attribute) and f.attr == 'array' and isinstance(f.value, ast.Name) and f.value.id == 'np'
                    and not e.keywords and 1 <= len(e.args) <= 2):
                vals = self.expr(e.args[0])
                if not isinstance(vals, (list, tuple)) or not all(_num(v) for v in vals):
                    self.fail(e, 'np.array of something other than a flat number list')
                isf = False
                if len(e.args) == 2:
                    d = e.args[1]
                    if not (isinstance(d, ast.Name) and d.id == 'float64'): self.fail(e, 'np.array dtype other than float64')
                    isf = True
                if isf or any(isinstance(v, float) for v in vals):
                    return FArray(float(v) for v in vals)
                return IArray(int(v) for v in vals)
            self.fail(e, 'unsupported call')
        self.fail(e, 'unsupported expression %s' % type(e).__name__)

    # ---- typed access (fail closed on a shape change) --------------------
    def scalar(self, name):
        v = self.env.get(name)
        if not _num(v): raise Refusal('%s: expected a numeric scalar `%s`, found %s' % (self.path, name, type(v).__name__))
        return float(v)

    def farray(self, name):
        v = self.env.get(name)
        if not isinstance(v, FArray): raise Refusal('%s: expected a float64 array `%s`, found %s' % (self.path, name, type(v).__name__))
        return list(v)

    def iarray(self, name):
        v = self.env.get(name)
        if not isinstance(v, IArray): raise Refusal('%s: expected an integer array `%s`, found %s' % (self.path, name, type(v).__name__))
        return list(v)

    def chain(self, name):
        v = self.env.get(name)
        ok = isinstance(v, tuple) and all(
            isinstance(c, tuple) and len(c) == 2 and isinstance(c[0], int) and not isinstance(c[0], bool)
            and isinstance(c[1], tuple) and all(isinstance(m, int) and not isinstance(m, bool) for m in c[1])
            for c in v)
        if not ok: raise Refusal('%s: `%s` is not a chain table ((int, (int, ...)), ...)' % (self.path, name))
        return [(c[0], list(c[1])) for c in v]


# ---- Coq rendering ------------------------------------------------------------
def coq_z(n):
    return '%d' % n if n >= 0 else '(%d)' % n


def coq_q(x):
    fr = Fraction(x)          # exact value of the double
    return '(%d # %d)' % (fr.numerator, fr.denominator)


def coq_f(x):
    if x != x: return 'nan'
    if x in (float('inf'), float('-inf')): return 'infinity' if x > 0 else 'neg_infinity'
    h = float(x).hex()
    return '(%s)' % h


def emit(t, scalars, farrays, iarrays, chains, header=''):
    out = [header,
           'From Coq Require Import ZArith QArith List PrimFloat.',
           'Import ListNotations.', '']
    for n in scalars:
        x = t.scalar(n)
        out.append('Definition %s_Q : Q := %s%%Q.' % (n, coq_q(x)))
        out.append('Definition %s_F : float := %s%%float.' % (n, coq_f(x)))
    for n in farrays:
        xs = t.farray(n)
        out.append('Definition %s_Q : list Q := [%s]%%Q.' % (n, '; '.join(coq_q(x) for x in xs)))
        out.append('Definition %s_F : list float := [%s]%%float.' % (n, '; '.join(coq_f(x) for x in xs)))
    for n in iarrays:
        xs = t.iarray(n)
        out.append('Definition %s : list Z := [%s]%%Z.' % (n, '; '.join(coq_z(x) for x in xs)))
    for n in chains:
        cs = t.chain(n)
        out.append('Definition %s : list (Z * list Z) := [%s]%%Z.' % (
            n, '; '.join('(%s, [%s])' % (coq_z(c[0]), '; '.join(coq_z(m) for m in c[1])) for c in cs)))
    return '\n'.join(out) + '\n'
