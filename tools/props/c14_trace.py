"""C14/C15 -- symbolic execution of straight-line float arithmetic (DESIGN.md 3.1, trace.py).

The *real* functions of a private copy of the module are executed on tracer objects that
overload + - * / neg and comparisons and record an expression DAG in evaluation order.
In the private module copy
  - `np` is rebound to a shim offering only `zeros` (a Python list of 0.0) and `dot`
    (left-to-right sum of products); any other numpy attribute raises -> fail closed;
  - `sqrt`, `exp` are rebound to traced versions;
  - every float64 coefficient array is rebound to a list of symbolic coefficient atoms, so
    `n * i` stays symbolic (with numeric coefficients the product is rounded before the powers
    are multiplied in and the algebraic identity holds only to 2^-50);
  - `power_array` is wrapped: its argument is cut into a named atom (so the sums are Laurent
    polynomials in those atoms) and the returned array records which slots callers read.
Every divisor that is not a literal is cut into an atom as well (the normaliser only inverts
monomials).  Comparisons on tracers yield a condition object whose truth value is taken from
a decision plan; all plans are enumerated (the functions have <= 6 branches).
`__float__`, `__index__`, `__int__`, `__bool__` on a tracer, `**`, `==` raise -> fail closed."""
import importlib.util, math, os, sys
from fractions import Fraction


class Refusal(Exception):
    pass


class Graph:
    def __init__(self):
        self.nodes = []        # tuples: (op, args...)
        self.index = {}
        self.cut_of = {}       # node id -> cut node id
        self.ncuts = 0
        self.plan = []
        self.decisions = []    # (op, a, b, outcome)

    def mk(self, *key):
        i = self.index.get(key)
        if i is None:
            i = len(self.nodes); self.nodes.append(key); self.index[key] = i
        return i

    def const(self, x):
        import numpy as np
        if isinstance(x, (bool, np.bool_)): raise Refusal('boolean used as a number')
        if isinstance(x, (int, np.integer)):
            x = int(x)
            if abs(x) >= 2 ** 53: raise Refusal('integer constant too large for exact conversion')
            x = float(x)
        elif isinstance(x, (float, np.floating)):
            x = float(x)
        elif x is None or isinstance(x, (str, bytes, tuple, list, dict)):
            # what CPython does for float <op> None etc.
            raise TypeError('unsupported operand type %s for a float operation' % type(x).__name__)
        else:
            raise Refusal('unsupported operand of type %s' % type(x).__name__)
        return self.mk('const', x.hex())

    def lift(self, x):
        if isinstance(x, T):
            if x.g is not self: raise Refusal('tracer from another graph')
            return x.i
        return self.const(x)

    def cut(self, i):
        """node i as an atom (idempotent; literals stay literals)"""
        op = self.nodes[i][0]
        if op in ('const', 'cut'): return i
        if i in self.cut_of: return self.cut_of[i]
        j = self.mk('cut', self.ncuts, i)
        self.ncuts += 1
        self.cut_of[i] = j
        return j

    def decide(self, op, a, b):
        k = len(self.decisions)
        out = self.plan[k] if k < len(self.plan) else True
        self.decisions.append((op, a, b, out))
        return out


class Cond:
    def __init__(self, g, op, a, b): self.g, self.op, self.a, self.b = g, op, a, b
    def __bool__(self): return self.g.decide(self.op, self.a, self.b)


class T:
    """a traced double"""
    __slots__ = ('g', 'i')
    __array_ufunc__ = None
    __array_priority__ = 1e9
    __hash__ = None

    def __init__(self, g, i): self.g, self.i = g, i

    def _bin(self, op, a, b): return T(self.g, self.g.mk(op, a, b))
    def __add__(s, o): return s._bin('add', s.i, s.g.lift(o))
    def __radd__(s, o): return s._bin('add', s.g.lift(o), s.i)
    def __sub__(s, o): return s._bin('sub', s.i, s.g.lift(o))
    def __rsub__(s, o): return s._bin('sub', s.g.lift(o), s.i)
    def __mul__(s, o): return s._bin('mul', s.i, s.g.lift(o))
    def __rmul__(s, o): return s._bin('mul', s.g.lift(o), s.i)
    def __truediv__(s, o): return s._bin('div', s.i, s.g.cut(s.g.lift(o)))
    def __rtruediv__(s, o): return s._bin('div', s.g.lift(o), s.g.cut(s.i))
    def __neg__(s): return T(s.g, s.g.mk('neg', s.i))
    def __pos__(s): return s
    def __le__(s, o): return Cond(s.g, 'le', s.i, s.g.lift(o))
    def __lt__(s, o): return Cond(s.g, 'lt', s.i, s.g.lift(o))
    def __ge__(s, o): return Cond(s.g, 'le', s.g.lift(o), s.i)
    def __gt__(s, o): return Cond(s.g, 'lt', s.g.lift(o), s.i)

    def _no(self, what):
        raise Refusal('traced value used with %s (outside the supported straight-line subset)' % what)
    def __eq__(s, o): s._no('==')
    def __ne__(s, o): s._no('!=')
    def __bool__(s): s._no('bool()')
    def __float__(s): s._no('float()')
    def __int__(s): s._no('int()')
    def __index__(s): s._no('indexing')
    def __pow__(s, o): s._no('**')
    def __rpow__(s, o): s._no('**')
    def __abs__(s): s._no('abs()')
    def __floordiv__(s, o): s._no('//')
    def __mod__(s, o): s._no('%')
    def __iter__(s): s._no('iteration')
    def __len__(s): s._no('len()')
    def __getitem__(s, k): s._no('subscript')


class RecList(list):
    """the array returned by power_array: records the slots read by the caller"""
    def __init__(self, items, log):
        list.__init__(self, items); self._log = log
    def __getitem__(self, k):
        if isinstance(k, slice):
            self._log.extend(range(*k.indices(len(self))))
            return list.__getitem__(self, k)
        k = int(k)
        self._log.append(k)
        return list.__getitem__(self, k)


class NPShim:
    def __init__(self, g): self._g = g
    def zeros(self, n, dtype=None):
        if isinstance(n, T): raise Refusal('array size depends on a traced value')
        return [0.0] * int(n)
    def dot(self, a, b):
        a, b = list(a), list(b)
        if len(a) != len(b) or not a: raise Refusal('np.dot on unequal or empty operands')
        acc = a[0] * b[0]
        for x, y in zip(a[1:], b[1:]): acc = acc + x * y
        return acc
    def __getattr__(self, name):
        raise Refusal('numpy attribute `%s` is not supported by the tracer' % name)


def load_private(path, name):
    spec = importlib.util.spec_from_file_location(name, path)
    mod = importlib.util.module_from_spec(spec)
    spec.loader.exec_module(mod)
    return mod


RAISED = object()


class Traced:
    """result of tracing one function: DAG restricted to what the paths use"""
    def __init__(self, fname, nargs, nodes, paths, coef_arrays, reads, ncuts):
        self.fname, self.nargs, self.nodes, self.paths = fname, nargs, nodes, paths
        self.coef_arrays = coef_arrays     # [(array name, length)] in flat-index order
        self.reads = reads                 # [(table name, [indices])] per power_array call (main path)
        self.ncuts = ncuts


def trace_function(path, fname, nargs, farrays, chain_names, max_paths=64):
    """Trace module function `fname` of the file `path` on `nargs` symbolic arguments.
    farrays: {name: length} of float64 coefficient arrays; chain_names: chain-table names."""
    import numpy as np
    mod = load_private(path, '_traced_%s_%s' % (os.path.basename(path).replace('.', '_'), fname))
    if not hasattr(mod, fname): raise Refusal('function %s not found' % fname)
    g = Graph()
    used_arrays = []

    class CoefList(list):
        """coefficient array: atoms are created on first use so that the flat numbering only
        covers arrays the function touches"""
        def __init__(self, name, n):
            list.__init__(self, [None] * n); self._name = name
        def _atom(self, k):
            if self._name not in used_arrays: used_arrays.append(self._name)
            return T(g, g.mk('coef', self._name, k))
        def __getitem__(self, k):
            if isinstance(k, slice): return [self._atom(j) for j in range(*k.indices(len(self)))]
            k = int(k)
            if k < 0: k += len(self)
            if not 0 <= k < len(self): raise IndexError(k)
            return self._atom(k)
        def __iter__(self):
            return iter(self._atom(k) for k in range(len(self)))

    for name, n in farrays.items():
        if not hasattr(mod, name): raise Refusal('coefficient array %s missing' % name)
        setattr(mod, name, CoefList(name, n))
    mod.np = NPShim(g)
    def tsqrt(x):
        if isinstance(x, T): return T(g, g.mk('sqrt', x.i))
        return math.sqrt(x)
    def texp(x):
        if isinstance(x, T): return T(g, g.mk('exp', x.i))
        return math.exp(x)
    for nm, f in (('sqrt', tsqrt), ('exp', texp)):
        if hasattr(mod, nm): setattr(mod, nm, f)
    for nm in ('log', 'pow', 'sin', 'cos', 'fabs'):
        if hasattr(mod, nm):
            def bad(*a, _nm=nm): raise Refusal('math.%s is not supported by the tracer' % _nm)
            setattr(mod, nm, bad)
    tables = {id(getattr(mod, n)): n for n in chain_names if hasattr(mod, n)}
    reads_runs = []
    cur_reads = []
    if hasattr(mod, 'power_array'):
        orig = mod.power_array
        def pa(value, combination):
            tn = tables.get(id(combination))
            if tn is None: raise Refusal('power_array called with a table that is not a module-level chain table')
            if isinstance(value, T): value = T(g, g.cut(value.i))
            arr = orig(value, combination)
            log = []
            cur_reads.append((tn, log))
            return RecList(arr, log)
        mod.power_array = pa

    fn = getattr(mod, fname)
    args = [T(g, g.mk('var', k)) for k in range(nargs)]
    paths = []

    def explore(prefix):
        if len(paths) >= max_paths: raise Refusal('too many paths in %s' % fname)
        g.plan = list(prefix); g.decisions = []
        del cur_reads[:]
        try:
            res = fn(*args)
        except Refusal:
            raise
        except (TypeError, ValueError, ZeroDivisionError, IndexError, KeyError, ArithmeticError) as e:
            # the real function raises on this path (e.g. region(): `p > None`); recorded as an outcome
            res = RAISED
        dec = list(g.decisions)
        if res is None: out = None
        elif res is RAISED: out = 'raise'
        else:
            items = res if isinstance(res, tuple) else (res,)
            out = []
            for r in items:
                if isinstance(r, T): out.append(r.i)
                else: out.append(g.const(r))
        paths.append((dec, out))
        reads_runs.append([(tn, list(lg)) for tn, lg in cur_reads])
        for j in range(len(prefix), len(dec)):
            explore([d[3] for d in dec[:j]] + [not dec[j][3]])

    explore([])
    # reads: union over paths, per (call position, table)
    reads = max(reads_runs, key=lambda r: sum(len(x[1]) for x in r)) if reads_runs else []
    for run in reads_runs:
        for item in run:
            if item[1] and item not in reads: reads = reads + [item]
    # restrict to reachable nodes, renumber
    need = set()
    stack = []
    for dec, out in paths:
        for (_, a, b, _) in dec: stack += [a, b]
        if out is not None and out != 'raise': stack += out
    while stack:
        i = stack.pop()
        if i in need: continue
        need.add(i)
        nd = g.nodes[i]
        if nd[0] in ('add', 'sub', 'mul', 'div'): stack += [nd[1], nd[2]]
        elif nd[0] in ('neg', 'sqrt', 'exp'): stack.append(nd[1])
        elif nd[0] == 'cut': stack.append(nd[2])
    order = sorted(need)
    ren = {old: new for new, old in enumerate(order)}
    # cuts renumbered in order of appearance among kept nodes
    cutren = {}
    arrays = [a for a in farrays if a in used_arrays]       # fixed (translator) order
    offs, o = {}, 0
    for a in arrays: offs[a] = o; o += farrays[a]
    nodes = []
    for old in order:
        nd = g.nodes[old]
        op = nd[0]
        if op == 'const': nodes.append(('const', float.fromhex(nd[1])))
        elif op == 'var': nodes.append(('var', nd[1]))
        elif op == 'coef': nodes.append(('coef', offs[nd[1]] + nd[2]))
        elif op in ('add', 'sub', 'mul', 'div'): nodes.append((op, ren[nd[1]], ren[nd[2]]))
        elif op in ('neg', 'sqrt', 'exp'): nodes.append((op, ren[nd[1]]))
        elif op == 'cut':
            cutren.setdefault(nd[1], len(cutren))
            nodes.append(('cut', cutren[nd[1]], ren[nd[2]]))
        else: raise Refusal('internal: node kind %s' % op)
    rpaths = [([(op, ren[a], ren[b], out_) for (op, a, b, out_) in dec],
               out if (out is None or out == 'raise') else [ren[i] for i in out])
              for dec, out in paths]
    return Traced(fname, nargs, nodes, rpaths, [(a, farrays[a]) for a in arrays], reads, len(cutren))


# ---- Coq rendering -----------------------------------------------------------
def coq_q(x):
    fr = Fraction(x)
    return '(%d # %d)' % (fr.numerator, fr.denominator)


def coq_f(x):
    if x != x: return 'nan'
    if x == float('inf'): return 'infinity'
    if x == float('-inf'): return 'neg_infinity'
    return '(%s)' % float(x).hex()


def emit_traced(tr, name):
    """Coq text for one traced function: `<name>_nodes`, `<name>_traced`, `<name>_coefs_F/_Q`, counts."""
    n = len(tr.nodes)
    out = []
    items = []
    for k, nd in enumerate(tr.nodes):
        op = nd[0]
        rel = lambda i: k - 1 - i
        if op == 'const': items.append('NConst %s%%Q %s%%float' % (coq_q(nd[1]), coq_f(nd[1])))
        elif op == 'var': items.append('NVar %d' % nd[1])
        elif op == 'coef': items.append('NCoef %d' % nd[1])
        elif op in ('add', 'sub', 'mul', 'div'):
            if not (0 <= nd[1] < k and 0 <= nd[2] < k): raise Refusal('internal: forward reference')
            items.append('N%s %d %d' % (op.capitalize(), rel(nd[1]), rel(nd[2])))
        elif op in ('neg', 'sqrt', 'exp'): items.append('N%s %d' % (op.capitalize(), rel(nd[1])))
        elif op == 'cut': items.append('NCut %d %d' % (nd[1], rel(nd[2])))
    out.append('Definition %s_nodes : list node := [\n  %s].' % (name, ';\n  '.join(items)))
    pos = lambda i: n - 1 - i
    ps = []
    for dec, o in tr.paths:
        cs = '; '.join('{| c_cmp := %s; c_a := %d; c_b := %d; c_expect := %s |}' % (
            'CLe' if op == 'le' else 'CLt', pos(a), pos(b), 'true' if e else 'false') for (op, a, b, e) in dec)
        oo = 'ONone' if o is None else ('ORaise' if o == 'raise' else 'ORet [%s]' % '; '.join('%d' % pos(i) for i in o))
        ps.append('{| p_conds := [%s]; p_out := %s |}' % (cs, oo))
    out.append('Definition %s_traced : traced := {| t_nodes := %s_nodes; t_paths := [\n  %s] |}.' % (name, name, ';\n  '.join(ps)))
    arrs = [a for a, _ in tr.coef_arrays]
    out.append('Definition %s_coefs_F : list float := %s.' % (name, ' ++ '.join(a + '_F' for a in arrs) if arrs else '[]'))
    out.append('Definition %s_coefs_Q : list Q := %s.' % (name, ' ++ '.join(a + '_Q' for a in arrs) if arrs else '[]'))
    out.append('Definition %s_ncuts : nat := %d.' % (name, tr.ncuts))
    out.append('Definition %s_nargs : nat := %d.' % (name, tr.nargs))
    return '\n'.join(out) + '\n'


def emit_reads(trs, table_names):
    out = ['From Coq Require Import ZArith List.', 'Import ListNotations.', 'Open Scope Z_scope.',
           '(* table numbers follow: %s *)' % ' '.join(table_names)]
    for name, tr in trs.items():
        items = ['(%d, [%s])' % (table_names.index(tn), '; '.join('%d' % k if k >= 0 else '(%d)' % k for k in ks)) for tn, ks in tr.reads]
        out.append('Definition %s_reads : list (Z * list Z) := [%s].' % (name, '; '.join(items)))
    return '\n'.join(out) + '\n'
