"""C15 -- the property statement evaluated on the implementation alone (t2thermo.py against
IAPWS97.py and against itself).  Nothing here uses the Coq model.

Clauses (one function each; `T` = t2thermo, `I` = IAPWS97 as imported from the repo under test):
  agree_liquid / agree_steam / agree_sat   IFC-67 vs IAPWS-97 on the common range
  potential                                single-potential identity of cowat / supst (finite differences)
  tsat_inverse                             tsat(sat t) = t, sat(tsat p) = p, range checking on and off
  bounds                                   range checking returns no value exactly outside the stated range
  regions                                  the two classifiers agree below 350 degC and above Tc, off the curves
  steam_fraction                           in [0, 1], non-decreasing in the enthalpy, 1 and 2 stages

Tolerances of the agreement clauses: the two formulations are different fits (IFC-67 to the 1963
skeleton tables, IAPWS-IF97 to IAPWS-95); their difference is not zero and not a defect.  The
bounds below are about twice the largest difference measured on the pinned tree over 40 000
states per clause (in comments), which is the size of the 1963 skeleton-table tolerances."""
import math

TOL_RHO_LIQ = 5e-3        # measured 2.27e-3 (350 degC, 100 MPa corner)
TOL_U_LIQ_ABS = 7000.0    # J/kg; measured 3548 at the same corner (u passes through 0 near 0 degC: absolute)
TOL_RHO_STM = 1e-2        # measured 4.67e-3 (on the B23 boundary, 478 degC, 46.5 MPa)
TOL_U_STM = 6e-3          # measured 2.82e-3
TOL_SAT = 2.5e-3          # measured 1.30e-3 (52 degC)
TOL_IDENTITY = 2e-6       # residual of the single-potential identity relative to v, 5-point differences (measured: cowat 2.9e-9, supst 1.3e-7)
TOL_TSAT_K = 1e-5         # |tsat(sat t) - t|: fsolve's default xtol is 1.49e-8 relative
TOL_SAT_REL = 1e-6        # |sat(tsat p) - p| / p
REGION_MARGIN = 1e-6      # "away from the boundary curves": relative distance in pressure beyond BOTH modules' curves
KEY_TSAT = 'tsat:fsolve-array-argument'          # fsolve hands sat() a one-element array: TypeError on every call (numpy >= 2)
KEY_TSAT2 = 'tsat:iterate-leaves-sat-range'       # (masked by the former) an fsolve iterate below 0.01 degC makes sat() return None


def call(f, *a):
    try:
        return f(*a)
    except Exception as e:
        return ('raise', type(e).__name__, str(e)[:120])


def raised(r):
    return isinstance(r, tuple) and len(r) == 3 and r[0] == 'raise'


def isnum(x):
    try: return x is not None and not isinstance(x, (tuple, complex)) and math.isfinite(float(x))
    except Exception: return False


def ispair(r):
    return isinstance(r, tuple) and len(r) == 2 and isnum(r[0]) and isnum(r[1])


def novalue(r):
    return r is None or (isinstance(r, tuple) and len(r) == 2 and r[0] is None and r[1] is None)


def fl(x):
    return float(x) if isnum(x) else repr(x)


def up(x): return math.nextafter(x, math.inf)
def dn(x): return math.nextafter(x, -math.inf)


def psat_both(T, I, t):
    return float(T.sat(t)), float(I.sat(t))


# ---- state generators (shared with the correspondence) --------------------------------------
def gen_liquid(T, I, rng, n):
    """0.01..350 degC, from the (higher of the two) saturation pressure to 100 MPa; ~25 % on an edge"""
    out = []
    for k in range(n):
        r = rng.random()
        t = rng.choice([0.01, 350.0]) if r < 0.08 else rng.uniform(0.01, 350.0)
        ps = max(psat_both(T, I, t))
        r = rng.random()
        if r < 0.05: p = ps                                   # the saturation pressure exactly
        elif r < 0.10: p = ps * (1 + 10 ** rng.uniform(-12, -3))
        elif r < 0.18: p = 100e6                               # the upper pressure limit exactly
        elif r < 0.60: p = math.exp(rng.uniform(math.log(ps), math.log(100e6)))
        else: p = rng.uniform(ps, 100e6)
        out.append((t, p))
    return out


def steam_pmax(T, I, t):
    """upper pressure limit common to supst of both modules at temperature t (never above 100 MPa:
    b23p(590) is 100000000.00003 Pa in both modules)"""
    if t <= 350.0: m = min(psat_both(T, I, t))
    elif t <= I.tcritical: m = min(min(psat_both(T, I, t)), float(T.b23p(t)), float(I.b23p(t)))
    elif t <= 590.0:
        m = min(float(T.b23p(t)), float(I.b23p(t)))
        if t <= T.Tc1_C: m = min(m, float(T.sat(t)))
    else: m = 100e6
    return min(m, 100e6)


def gen_steam(T, I, rng, n):
    out = []
    for k in range(n):
        r = rng.random()
        t = rng.choice([0.01, 350.0, 590.0, 800.0]) if r < 0.08 else rng.uniform(0.01, 800.0)
        pm = steam_pmax(T, I, t)
        r = rng.random()
        if r < 0.05: p = pm                                   # the upper limit (saturation / B23 / 100 MPa) exactly
        elif r < 0.15: p = pm * (1 - 10 ** rng.uniform(-12, -3))
        elif r < 0.60: p = math.exp(rng.uniform(math.log(100.0), math.log(pm)))
        else: p = rng.uniform(0.0, pm)
        if p <= 0.0: p = 100.0
        out.append((t, min(p, pm)))
    return out


# ---- clauses ------------------------------------------------------------------------------
def agree_liquid(T, I, ctx, n):
    name = 'ifc67-vs-iapws97:liquid'
    worst = [0.0, 0.0]
    for (t, p) in gen_liquid(T, I, ctx.rng, n):
        ctx.count((name, t, p))
        a, b = call(T.cowat, t, p), call(I.cowat, t, p)
        # inside the common range (0.01..350 degC, saturation..100 MPa, limits included) BOTH routines must answer:
        # with one side missing there is nothing to agree with
        if not ispair(b):
            ctx.failure(name, 'iapws97.cowat:no-value-in-common-range', {'fn': 'agree_liquid', 't': t, 'p': p}, 'IAPWS97.cowat -> %r (t2thermo.cowat -> %r)' % (b, a), 'a density and an energy from both formulations')
            continue
        if not ispair(a):
            ctx.failure(name, 'cowat:no-value-in-range', {'fn': 'agree_liquid', 't': t, 'p': p}, repr(a), 'a density and an energy')
            continue
        dr, du = abs(a[0] - b[0]) / b[0], abs(a[1] - b[1])
        worst = [max(worst[0], dr), max(worst[1], du)]
        if not (dr <= TOL_RHO_LIQ and du <= TOL_U_LIQ_ABS):
            ctx.failure(name, 'cowat:differs-from-iapws97', {'fn': 'agree_liquid', 't': t, 'p': p},
                        'IFC-67 (rho, u) = (%r, %r), IAPWS-97 (%r, %r): |d rho|/rho = %.3g, |d u| = %.4g J/kg' % (a[0], a[1], fl(b[0]), fl(b[1]), dr, du),
                        '|d rho|/rho <= %g and |d u| <= %g J/kg' % (TOL_RHO_LIQ, TOL_U_LIQ_ABS))
    ctx.oracle_cases(name, n, worst_rel_density=worst[0], worst_abs_energy=worst[1])


def agree_steam(T, I, ctx, n):
    name = 'ifc67-vs-iapws97:steam'
    worst = [0.0, 0.0]
    for (t, p) in gen_steam(T, I, ctx.rng, n):
        ctx.count((name, t, p))
        a, b = call(T.supst, t, p), call(I.supst, t, p)
        if not ispair(b):
            ctx.failure(name, 'iapws97.supst:no-value-in-common-range', {'fn': 'agree_steam', 't': t, 'p': p}, 'IAPWS97.supst -> %r (t2thermo.supst -> %r)' % (b, a), 'a density and an energy from both formulations')
            continue
        if not ispair(a):
            ctx.failure(name, 'supst:no-value-in-range', {'fn': 'agree_steam', 't': t, 'p': p}, repr(a), 'a density and an energy')
            continue
        dr, du = abs(a[0] - b[0]) / b[0], abs(a[1] - b[1]) / abs(b[1])
        worst = [max(worst[0], dr), max(worst[1], du)]
        if not (dr <= TOL_RHO_STM and du <= TOL_U_STM):
            ctx.failure(name, 'supst:differs-from-iapws97', {'fn': 'agree_steam', 't': t, 'p': p},
                        'IFC-67 (rho, u) = (%r, %r), IAPWS-97 (%r, %r): |d rho|/rho = %.3g, |d u|/u = %.3g' % (a[0], a[1], fl(b[0]), fl(b[1]), dr, du),
                        '|d rho|/rho <= %g and |d u|/u <= %g' % (TOL_RHO_STM, TOL_U_STM))
    ctx.oracle_cases(name, n, worst_rel_density=worst[0], worst_rel_energy=worst[1])


def agree_sat(T, I, ctx, n):
    name = 'ifc67-vs-iapws97:saturation-line'
    worst = 0.0
    hi = min(T.Tc1_C, I.tcritical)
    ts = [0.01, hi] + [0.01 + (hi - 0.01) * k / (n - 1) for k in range(n)] + [ctx.rng.uniform(0.01, hi) for _ in range(n // 4)]
    for t in ts:
        ctx.count((name, t))
        for bounds in (False, True):
            a, b = call(T.sat, t, bounds), call(I.sat, t)
            if not isnum(b):
                ctx.failure(name, 'iapws97.sat:no-value-in-common-range', {'fn': 'agree_sat', 't': t, 'bounds': bounds}, 'IAPWS97.sat -> %r' % (b,), 'a pressure from both formulations')
                continue
            if not isnum(a):
                ctx.failure(name, 'sat:no-value-in-range', {'fn': 'agree_sat', 't': t, 'bounds': bounds}, repr(a), 'a pressure')
                continue
            d = abs(a - float(b)) / float(b)
            worst = max(worst, d)
            if not d <= TOL_SAT:
                ctx.failure(name, 'sat:differs-from-iapws97', {'fn': 'agree_sat', 't': t, 'bounds': bounds},
                            'IFC-67 %r, IAPWS-97 %r: relative difference %.3g' % (a, fl(b), d), 'relative difference <= %g' % TOL_SAT)
    ctx.oracle_cases(name, len(ts), worst_rel=worst)


def _d5(f, x, h):
    return (f(x - 2 * h) - 8 * f(x - h) + 8 * f(x + h) - f(x + 2 * h)) / (12 * h)


def identity_residual(f, t, p):
    """residual of  du/dp|_T + T dv/dT|_p + p dv/dp|_T = 0  (v = 1/rho, T in kelvin; every term is a
    specific volume) relative to v.  (Scaling by max(|T v_T|, |p v_p|) instead is noise for liquid
    water near its density maximum at 4 degC, where both vanish.)"""
    TK = t + 273.15
    ht, hp = 0.02, p * 2e-4 + (50.0 if f.__name__ == 'cowat' else 0.0)
    v = lambda tt, pp: 1.0 / f(tt, pp)[0]
    u = lambda tt, pp: f(tt, pp)[1]
    up_ = _d5(lambda pp: u(t, pp), p, hp)
    vt = _d5(lambda tt: v(tt, p), t, ht)
    vp = _d5(lambda pp: v(t, pp), p, hp)
    return abs(up_ + TK * vt + p * vp) / v(t, p)


def potential(T, I, ctx, n):
    name = 'single-potential-identity'
    worst = {'cowat': 0.0, 'supst': 0.0}
    rng = ctx.rng
    for k in range(n):
        if k % 2 == 0:
            fn = 'cowat'
            t = rng.uniform(1.0, 349.0); ps = float(T.sat(t + 0.05))
            p = math.exp(rng.uniform(math.log(ps * 1.002), math.log(99e6)))
        else:
            fn = 'supst'
            t = rng.uniform(1.0, 799.0)
            pm = steam_pmax(T, I, min(max(t - 0.05, 0.01), 800.0)) * 0.998
            p = math.exp(rng.uniform(math.log(500.0), math.log(pm)))
        ctx.count((name, fn, t, p))
        try:
            r = identity_residual(getattr(T, fn), t, p)
        except Exception as e:
            ctx.failure(name, '%s:raises-in-range' % fn, {'fn': 'potential', 'routine': fn, 't': t, 'p': p}, repr(e), 'a value')
            continue
        worst[fn] = max(worst[fn], r)
        if not r <= TOL_IDENTITY:
            ctx.failure(name, '%s:not-from-one-potential' % fn, {'fn': 'potential', 'routine': fn, 't': t, 'p': p},
                        '|du/dp + T dv/dT + p dv/dp| / v = %.3g' % r, '<= %g (difference quotients)' % TOL_IDENTITY)
    ctx.oracle_cases(name, n, worst_cowat=worst['cowat'], worst_supst=worst['supst'])


def _tsat_defect(r, T=None, p=None):
    """finding key when tsat (or a caller) raised one of the two recorded TypeErrors, else None.
    The second one (an fsolve iterate leaves sat's range) is the recorded finding only for a
    pressure within 1e-9 (relative) of sat(0.01); anywhere else it is a new failure."""
    if not (raised(r) and r[1] == 'TypeError'): return None
    if 'NoneType' in r[2]:
        if T is not None and p is not None and isnum(p):
            plo = float(T.sat(0.01))
            if abs(p - plo) <= 1e-9 * plo: return KEY_TSAT2
        return 'tsat:raises-in-range'
    return KEY_TSAT


def tsat_inverse(T, I, ctx, n):
    name = 'tsat-inverts-sat'
    rng = ctx.rng
    worst = [0.0, 0.0]
    tc = T.Tc1_C
    ts = [0.01, tc, up(0.01), dn(tc), 100.0, 200.0, 300.0, 370.0] + [0.01 + (tc - 0.01) * k / (n - 1) for k in range(n)] + \
         [rng.uniform(0.01, tc) for _ in range(n // 2)] + \
         [tc - 1.0 * k / 40 for k in range(41)] + [tc - 0.01 * k / 20 for k in range(21)] + [tc - 10.0 ** -k for k in range(3, 13)] + \
         [0.01 + 1.0 * k / 20 for k in range(21)] + [0.01 + 10.0 ** -k for k in range(3, 15)]      # the last / first degree, densely
    ndef = 0
    for t in ts:
        for bounds in (False, True):
            ctx.count((name, 't', t, bounds))
            p = call(T.sat, t, bounds)
            if not isnum(p):
                ctx.failure(name, 'sat:no-value-in-range', {'fn': 'tsat_inverse', 't': t, 'bounds': bounds}, repr(p), 'a pressure')
                continue
            r = call(T.tsat, p, bounds)
            if _tsat_defect(r):
                ndef += 1
                ctx.failure(name, _tsat_defect(r, T, p), {'fn': 'tsat_inverse', 't': t, 'bounds': bounds}, 'tsat(%r) raises %s: %s' % (p, r[1], r[2]), 'tsat(sat(t)) = t')
                continue
            if not isnum(r):
                key = 'tsat:upper-endpoint' if t >= dn(T.Tc1_C) else ('tsat:lower-endpoint' if t <= up(0.01) else 'tsat:no-value-in-range')
                ctx.failure(name, key, {'fn': 'tsat_inverse', 't': t, 'bounds': bounds}, 'sat(t) = %r, tsat(sat(t)) = %r' % (p, r), 'tsat(sat(t)) = t')
                continue
            d = abs(float(r) - t)
            worst[0] = max(worst[0], d)
            if not d <= TOL_TSAT_K:
                ctx.failure(name, 'tsat:not-inverse-of-sat', {'fn': 'tsat_inverse', 't': t, 'bounds': bounds},
                            'tsat(sat(t)) = %r, |difference| = %.3g K' % (fl(r), d), '<= %g K' % TOL_TSAT_K)
    plo, phi = float(T.sat(0.01)), T.Pc1
    ps = [plo, phi, up(plo), dn(phi), 1e5, 1e6] + [math.exp(rng.uniform(math.log(plo), math.log(phi))) for _ in range(n)] + \
         [phi * (1 - 10.0 ** -k) for k in range(2, 15)] + [phi * (1 - 0.01 * k / 30) for k in range(31)] + [plo * (1 + 10.0 ** -k) for k in range(2, 16)]
    for p in ps:
        for bounds in (False, True):
            ctx.count((name, 'p', p, bounds))
            r = call(T.tsat, p, bounds)
            if _tsat_defect(r):
                ndef += 1
                ctx.failure(name, _tsat_defect(r, T, p), {'fn': 'tsat_inverse', 'p': p, 'bounds': bounds}, 'tsat(%r) raises %s: %s' % (p, r[1], r[2]), 'sat(tsat(p)) = p')
                continue
            if not isnum(r):
                ctx.failure(name, 'tsat:no-value-in-range', {'fn': 'tsat_inverse', 'p': p, 'bounds': bounds}, repr(r), 'a temperature')
                continue
            # the solver's specification (hypothesis of sat_tsat_inverse): a root inside the saturation interval
            # (a root finder answers to within its tolerance: a result up to TOL_TSAT_K outside the interval is
            # read at the end point)
            inside = 0.01 - TOL_TSAT_K <= float(r) <= T.Tc1_C + TOL_TSAT_K
            q = call(T.sat, min(max(float(r), 0.01), T.Tc1_C))
            ctx.hyp_met['solve_root'] = ctx.hyp_met.get('solve_root', 0) + (1 if (isnum(q) and inside and abs(q - p) <= TOL_SAT_REL * p) else 0)
            if not (isnum(q) and abs(q - p) <= TOL_SAT_REL * p and inside):
                ctx.failure(name, 'tsat:not-inverse-of-sat', {'fn': 'tsat_inverse', 'p': p, 'bounds': bounds},
                            'tsat(p) = %r, sat(tsat(p)) = %r' % (fl(r), fl(q)), 'sat(tsat(p)) = p to %g relative, tsat(p) in 0.01..Tc1_C' % TOL_SAT_REL)
                continue
            worst[1] = max(worst[1], abs(q - p) / p)
    ctx.oracle_cases(name, 2 * (len(ts) + len(ps)), worst_abs_K=worst[0], worst_rel_p=worst[1], calls_hitting_known_defect=ndef)


def _expect_cowat(T, t, p):
    return 0.01 <= t <= 350.0 and p <= 1e8 and p >= T.sat(t)


def _expect_supst(T, t, p):
    if not (0.01 <= t <= 800.0 and 0 <= p): return False
    if t <= T.Tc1_C: return p <= T.sat(t)
    if t <= 590.0: return p <= T.b23p(t)
    return p <= 1e8


def bounds(T, I, ctx, n):
    """range checking on: a value exactly inside the stated range; on and off agree inside"""
    name = 'bounds-flag'
    rng = ctx.rng
    tl = [0.01, 350.0, T.Tc1_C, 590.0, 800.0, 500.0]
    edges_t = []
    for x in tl: edges_t += [dn(x), x, up(x)]
    nin = {'cowat': [0, 0], 'supst': [0, 0], 'sat': [0, 0], 'tsat': [0, 0]}

    def same(a, b):
        if novalue(a) or novalue(b): return novalue(a) and novalue(b)
        if raised(a) or raised(b): return raised(a) and raised(b)
        if isinstance(a, tuple) != isinstance(b, tuple): return False
        return tuple(a) == tuple(b) if isinstance(a, tuple) else a == b

    nseq = [0]
    def check2(fn, t, p, expect):
        """range checking on: value exactly inside the range; on == off inside; and the answer of a checked
        call must not depend on earlier calls (unchecked call first, or in between, with the same arguments)"""
        ctx.count((name, fn, t, p))
        f = getattr(T, fn)
        nseq[0] += 1
        if nseq[0] % 2:
            off = call(f, t, p, False); on = call(f, t, p, True); seq = ['off', 'on']
            on_again = on
        else:
            on = call(f, t, p, True); off = call(f, t, p, False); on_again = call(f, t, p, True); seq = ['on', 'off', 'on']
        nin[fn][0 if expect else 1] += 1
        if raised(on) and on[1] in ('ZeroDivisionError', 'OverflowError') and p == 0.0: return     # p = 0 is no steam state
        inp = {'fn': 'bounds', 'routine': fn, 't': t, 'p': p, 'sequence': seq}
        if not same(on, on_again):
            ctx.failure(name, '%s:range-check-depends-on-earlier-calls' % fn, inp, 'bounds=True -> %r, after an unchecked call with the same arguments -> %r' % (on, on_again), 'the same answer')
        elif expect:
            if not ispair(on):
                ctx.failure(name, '%s:no-value-in-range' % fn, inp, 'bounds=True -> %r' % (on,), 'inside the stated range: a density and an energy')
            elif not (ispair(off) and off[0] == on[0] and off[1] == on[1]):
                ctx.failure(name, '%s:on-off-differ' % fn, inp, 'bounds=True -> %r, bounds=False -> %r' % (on, off), 'same values')
        else:
            if not novalue(on):
                key = '%s:range-check-depends-on-earlier-calls' % fn if seq[0] == 'off' else '%s:value-out-of-range' % fn
                ctx.failure(name, key, inp, 'call sequence %s, bounds=True -> %r' % (seq, on), 'outside the stated range: no value')

    for k in range(n):
        # --- cowat
        r = rng.random()
        t = rng.choice(edges_t[:6]) if r < 0.3 else (rng.uniform(-5.0, 360.0) if r < 0.5 else rng.uniform(0.01, 350.0))
        ps = call(T.sat, min(max(t, 0.01), 500.0))
        r = rng.random()
        if r < 0.3: p = rng.choice([dn(ps), ps, up(ps), ps * (1 - 1e-9), ps * (1 + 1e-9)])
        elif r < 0.55: p = rng.choice([dn(1e8), 1e8, up(1e8)])
        elif r < 0.8: p = math.exp(rng.uniform(math.log(ps), math.log(1e8)))
        else: p = rng.uniform(0.0, 1.05e8)
        check2('cowat', t, p, _expect_cowat(T, t, p) if 0.01 <= t <= 500.0 else False)
        # --- supst
        r = rng.random()
        t = rng.choice(edges_t[:15]) if r < 0.3 else (rng.uniform(-5.0, 810.0) if r < 0.5 else rng.uniform(0.01, 800.0))
        tt = min(max(t, 0.01), 800.0)
        lim = T.sat(tt) if tt <= T.Tc1_C else (T.b23p(tt) if tt <= 590.0 else 1e8)
        r = rng.random()
        if r < 0.4: p = rng.choice([dn(lim), lim, up(lim), lim * (1 - 1e-9), lim * (1 + 1e-9)])
        elif r < 0.5: p = rng.choice([-1.0, 1.0, 100.0])
        elif r < 0.85: p = math.exp(rng.uniform(math.log(100.0), math.log(lim)))
        else: p = rng.uniform(0.0, min(1.05e8, 1.5 * lim))
        check2('supst', t, p, _expect_supst(T, t, p))
    # --- sat
    ts = edges_t + [rng.uniform(-5.0, 510.0) for _ in range(n)]
    for k, t in enumerate(ts):
        ctx.count((name, 'sat', t))
        if k % 2:
            off = call(T.sat, t, False); on = call(T.sat, t, True); seq = ['off', 'on']
        else:
            on = call(T.sat, t, True); off = call(T.sat, t, False); seq = ['on', 'off', 'on']
            on2 = call(T.sat, t, True)
            if not same(on, on2):
                ctx.failure(name, 'sat:range-check-depends-on-earlier-calls', {'fn': 'bounds', 'routine': 'sat', 't': t, 'sequence': seq}, '%r then %r' % (on, on2), 'the same answer')
                continue
        expect = 0.01 <= t <= T.Tc1_C
        nin['sat'][0 if expect else 1] += 1
        inp = {'fn': 'bounds', 'routine': 'sat', 't': t, 'sequence': seq}
        if expect:
            if not isnum(on): ctx.failure(name, 'sat:no-value-in-range', inp, 'bounds=True -> %r' % (on,), 'a pressure')
            elif not (isnum(off) and off == on): ctx.failure(name, 'sat:on-off-differ', inp, '%r vs %r' % (on, off), 'same value')
        elif on is not None:
            ctx.failure(name, 'sat:range-check-depends-on-earlier-calls' if seq[0] == 'off' else 'sat:value-out-of-range', inp, 'call sequence %s, bounds=True -> %r' % (seq, on), 'None')
    # --- tsat (an unchecked call above Pc1 works: the extrapolated sat() is defined up to 500 degC)
    plo, phi = float(T.sat(0.01)), T.Pc1
    ps = [dn(plo), plo, up(plo), dn(phi), phi, up(phi), 1.0, 1e9, phi * 1.00005, 2.3e7, 2.5e7, 3e7, plo * 0.999, 500.0] + \
         [math.exp(rng.uniform(math.log(plo * 0.5), math.log(phi * 1.5))) for _ in range(max(8, n // 4))]
    for k, p in enumerate(ps):
        ctx.count((name, 'tsat', p))
        if k % 2:
            off = call(T.tsat, p, False); on = call(T.tsat, p, True); on2 = on; seq = ['off', 'on']
        else:
            on = call(T.tsat, p, True); off = call(T.tsat, p, False); on2 = call(T.tsat, p, True); seq = ['on', 'off', 'on']
        expect = plo <= p <= phi
        nin['tsat'][0 if expect else 1] += 1
        inp = {'fn': 'bounds', 'routine': 'tsat', 'p': p, 'sequence': seq}
        if _tsat_defect(on):
            ctx.failure(name, _tsat_defect(on, T, p), inp, 'tsat(%r, True) raises %s: %s' % (p, on[1], on[2]), 'a temperature')
        elif not same(on, on2):
            ctx.failure(name, 'tsat:range-check-depends-on-earlier-calls', inp, 'bounds=True -> %r, after an unchecked call with the same pressure -> %r' % (on, on2), 'the same answer')
        elif expect and not isnum(on):
            ctx.failure(name, 'tsat:no-value-in-range', inp, 'bounds=True -> %r' % (on,), 'a temperature')
        elif not expect and on is not None:
            ctx.failure(name, 'tsat:range-check-depends-on-earlier-calls' if seq[0] == 'off' else 'tsat:value-out-of-range', inp,
                        'call sequence %s with p = %r (unchecked call -> %r), bounds=True -> %r' % (seq, p, off, on), 'None')
    ctx.oracle_cases(name, 2 * n + len(ts) + len(ps), **{'%s_in/out' % k: '%d/%d' % tuple(v) for k, v in nin.items()})


def regions(T, I, ctx, n):
    name = 'regions-agree'
    rng = ctx.rng
    nskip = 0
    dist = {}
    for k in range(n):
        r = rng.random()
        if r < 0.45: t = rng.uniform(0.01, 350.0)
        elif r < 0.80: t = rng.uniform(up(T.Tc1_C), 590.0)
        elif r < 0.90: t = rng.uniform(590.0, 800.0)
        else: t = rng.choice([0.01, dn(0.01), 350.0, up(T.Tc1_C), 590.0, up(590.0), 800.0, up(800.0), -3.0, 805.0])
        if not (t <= 350.0 or t > T.Tc1_C): continue
        curves = None
        if 0.01 <= t <= 350.0: curves = psat_both(T, I, t)
        elif T.Tc1_C < t <= 590.0: curves = (float(T.b23p(t)), float(I.b23p(t)))
        r = rng.random()
        if curves and r < 0.5:
            lo, hi = min(curves), max(curves)
            side = rng.choice([-1, 1])
            eps = 10 ** rng.uniform(-5.9, -1)
            p = lo * (1 - eps) if side < 0 else hi * (1 + eps)
        elif r < 0.6: p = rng.choice([0.0, -1.0, 100e6, up(100e6), dn(100e6)])
        else: p = rng.uniform(0.0, 100e6)
        if curves and min(curves) * (1 - REGION_MARGIN) <= p <= max(curves) * (1 + REGION_MARGIN):
            nskip += 1
            continue
        ctx.count((name, t, p))
        a, b = call(T.region, t, p), call(I.region, t, p)
        dist[repr(a)] = dist.get(repr(a), 0) + 1
        if a != b:
            ctx.failure(name, 'region:classifiers-disagree', {'fn': 'regions', 't': t, 'p': p}, 't2thermo.region = %r, IAPWS97.region = %r' % (a, b), 'equal (t <= 350 or t > Tc1_C, off the curves)')
    ctx.oracle_cases(name, n, skipped_near_curves=nskip, answers=dist)


def steam_fraction(T, I, ctx, n):
    name = 'separated-steam-fraction'
    rng = ctx.rng
    nh = 29
    ndef = 0
    nord = 0
    for k in range(n):
        sp1 = rng.choice([0.1e6, 5e6]) if rng.random() < 0.15 else rng.uniform(0.1e6, 5e6)
        two = (k % 2 == 1)
        sp2 = (rng.choice([0.1e6, 5e6]) if rng.random() < 0.15 else rng.uniform(0.1e6, 5e6)) if two else None
        hs = sorted([0.0, 3.5e6] + [rng.uniform(0.0, 3.5e6) for _ in range(nh - 2)])
        prev = None
        for h in hs:
            ctx.count((name, h, sp1, sp2))
            r = call(T.separated_steam_fraction, h, sp1, sp2) if two else call(T.separated_steam_fraction, h, sp1)
            if _tsat_defect(r):
                ndef += 1
                ctx.failure(name, _tsat_defect(r), {'fn': 'steam_fraction', 'h': h, 'sp1': sp1, 'sp2': sp2}, 'raises %s: %s' % (r[1], r[2]), 'a fraction in [0, 1]')
                break
            if not isnum(r) or not (0.0 <= float(r) <= 1.0):
                ctx.failure(name, 'separated_steam_fraction:outside-0-1', {'fn': 'steam_fraction', 'h': h, 'sp1': sp1, 'sp2': sp2}, repr(r), 'a fraction in [0, 1]')
                break
            if prev is not None and float(r) < prev[1]:
                ctx.failure(name, 'separated_steam_fraction:decreases-with-enthalpy', {'fn': 'steam_fraction', 'h': h, 'h_prev': prev[0], 'sp1': sp1, 'sp2': sp2},
                            'f(%r) = %r > f(%r) = %r' % (prev[0], prev[1], h, fl(r)), 'non-decreasing in the enthalpy')
                break
            prev = (h, float(r))
        else:
            # hypotheses of steam_fraction_range_mono: the saturated enthalpies are ordered
            try:
                def hh(p, f):
                    d, u = f(float(T.tsat(p)), p); return u + p / d
                ok = hh(sp1, T.cowat) < hh(sp1, T.supst) and (not two or (hh(sp2, T.cowat) < hh(sp2, T.supst) and hh(sp1, T.cowat) <= hh(sp2, T.supst)))
                nord += 1 if ok else 0
            except Exception:
                pass
    ctx.hyp_met['steam_fraction_enthalpy_orderings'] = nord
    ctx.oracle_cases(name, n * nh, separator_settings=n, enthalpies_per_setting=nh, settings_hitting_known_defect=ndef)


def sweep(T, I, ctx, scale):
    agree_liquid(T, I, ctx, 3000 * scale)
    agree_steam(T, I, ctx, 3000 * scale)
    agree_sat(T, I, ctx, 1500 * scale)
    potential(T, I, ctx, 600 * scale)
    tsat_inverse(T, I, ctx, 300 * scale)
    bounds(T, I, ctx, 1500 * scale)
    regions(T, I, ctx, 4000 * scale)
    steam_fraction(T, I, ctx, 120 * scale)


def replay_one(T, I, key, inp):
    """re-run the clause of `inp` at its input; True iff it still fails"""
    class C:
        def __init__(self): self.fails = []; self.hyp_met = {}
        def count(self, *a, **k): pass
        def oracle_cases(self, *a, **k): pass
        def failure(self, name, key, inp, obs, req): self.fails.append((key, obs))
    c = C()
    fn = inp.get('fn')
    t, p = inp.get('t'), inp.get('p')
    if fn == 'agree_liquid':
        a, b = call(T.cowat, t, p), call(I.cowat, t, p)
        return not (ispair(a) and ispair(b) and abs(a[0] - b[0]) / b[0] <= TOL_RHO_LIQ and abs(a[1] - b[1]) <= TOL_U_LIQ_ABS)
    if fn == 'agree_steam':
        a, b = call(T.supst, t, p), call(I.supst, t, p)
        return not (ispair(a) and ispair(b) and abs(a[0] - b[0]) / b[0] <= TOL_RHO_STM and abs(a[1] - b[1]) / abs(b[1]) <= TOL_U_STM)
    if fn == 'agree_sat':
        a, b = call(T.sat, t, inp.get('bounds', False)), call(I.sat, t)
        return not (isnum(a) and isnum(b) and abs(a - float(b)) / float(b) <= TOL_SAT)
    if fn == 'potential':
        try: return not identity_residual(getattr(T, inp['routine']), t, p) <= TOL_IDENTITY
        except Exception: return True
    if fn == 'tsat_inverse':
        b = inp.get('bounds', False)
        if 't' in inp:
            pp = call(T.sat, t, b)
            r = call(T.tsat, pp, b) if isnum(pp) else None
            return not (isnum(r) and abs(float(r) - t) <= TOL_TSAT_K)
        r = call(T.tsat, p, b)
        q = call(T.sat, min(max(float(r), 0.01), T.Tc1_C)) if isnum(r) else None
        return not (isnum(q) and abs(q - p) <= TOL_SAT_REL * p and 0.01 - TOL_TSAT_K <= float(r) <= T.Tc1_C + TOL_TSAT_K)
    if fn == 'bounds':
        rt = inp['routine']
        f = getattr(T, rt)
        args = [p] if rt == 'tsat' else ([t] if rt == 'sat' else [t, p])
        seq = inp.get('sequence') or ['on']
        ons = []
        off = None
        for step in seq:                      # the recorded call sequence, in this fresh process
            r = call(f, *(args + [step == 'on']))
            if step == 'on': ons.append(r)
            else: off = r
        on = ons[-1]
        if any(not ((novalue(a) and novalue(on)) or (raised(a) and raised(on)) or (not novalue(a) and not raised(a) and not novalue(on) and not raised(on) and tuple(a if isinstance(a, tuple) else (a,)) == tuple(on if isinstance(on, tuple) else (on,)))) for a in ons):
            return True
        if rt in ('cowat', 'supst'):
            exp = (_expect_cowat(T, t, p) if 0.01 <= t <= 500.0 else False) if rt == 'cowat' else _expect_supst(T, t, p)
            if off is None: off = call(f, t, p, False)
            return not ((ispair(on) and ispair(off) and on[0] == off[0] and on[1] == off[1]) if exp else novalue(on))
        if rt == 'sat':
            return not (isnum(on) if 0.01 <= t <= T.Tc1_C else on is None)
        return not (isnum(on) if float(T.sat(0.01)) <= p <= T.Pc1 else on is None)
    if fn == 'regions':
        return call(T.region, t, p) != call(I.region, t, p)
    if fn == 'steam_fraction':
        h, sp1, sp2 = inp['h'], inp['sp1'], inp.get('sp2')
        f = (lambda x: call(T.separated_steam_fraction, x, sp1, sp2)) if sp2 is not None else (lambda x: call(T.separated_steam_fraction, x, sp1))
        r = f(h)
        if not (isnum(r) and 0.0 <= float(r) <= 1.0): return True
        if 'h_prev' in inp:
            q = f(inp['h_prev'])
            return not (isnum(q) and float(q) <= float(r))
        return False
    print('replay: unknown clause %r' % fn)
    return True
