"""Shared machinery for the PyTOUGH Coq verification checks.

A check (tools/props/Cxx.py) drives one `Ctx`:

    stage -> translate (Gen/*.v from /repo) -> prove (make + Props.v with
    Print Assumptions) -> correspond (model vs implementation) -> oracle sweep
    (property statement on the implementation) -> finish (verdict + evidence)

See DESIGN.md sections 2-4.
"""
import os, sys, json, time, subprocess, shutil, random, re, hashlib, fcntl, glob, traceback
from concurrent.futures import ThreadPoolExecutor

VERIF = os.path.dirname(os.path.dirname(os.path.abspath(__file__)))
REPO = os.environ.get('VERIF_REPO', '/repo')
COQDIR = os.path.join(VERIF, 'coq')
NPROC = int(os.environ.get('VERIF_JOBS', '16'))
# VERIF_SCRATCH=<dir>: build output, evidence and replays of this run go under <dir> instead of /verif
# (used only to try the checks on seeded changes in scratch worktrees without disturbing the real run)
OUT = os.environ.get('VERIF_SCRATCH') or VERIF

# Axioms declared by Coq's standard library that developments here may rely on
# (DESIGN.md section 7).  Anything else in a Print Assumptions output fails the check.
ALLOWED_AXIOM_PREFIXES = (
    'ClassicalDedekindReals.', 'FunctionalExtensionality.', 'Classical_Prop.',
    'FloatAxioms.', 'Uint63.', 'PrimFloat.', 'PrimInt63.', 'Eqdep.Eq_rect_eq.',
    'ProofIrrelevance.', 'JMeq.', 'ClassicalEpsilon.', 'Reals.', 'Rdefinitions.',
    'Raxioms.', 'ClassicalFacts.', 'PropExtensionality.', 'Description.',
    'IndefiniteDescription.', 'ClassicalUniqueChoice.', 'Uint63Axioms.',
    'Coq.', 'Sint63.', 'PrimString.', 'SpecFloat.', 'FloatOps.', 'PArray.',
)
ALLOWED_AXIOM_NAMES = {
    'sig_forall_dec', 'sig_not_dec', 'functional_extensionality_dep', 'classic',
    'functional_extensionality', 'proof_irrelevance', 'JMeq_eq', 'eq_rect_eq',
    'constructive_indefinite_description', 'constructive_definite_description',
    'propositional_extensionality',
}

FORBIDDEN = re.compile(
    r'\b(Admitted|admit|Axiom|Axioms|Parameter|Parameters|Conjecture|Conjectures|'
    r'Unset\s+Guard|bypass_check|Admit\s+Obligations|Unset\s+Positivity|'
    r'Unset\s+Universe\s+Checking|type-in-type|impredicative-set|give_up)\b')


def sh(cmd, timeout=None, cwd=None, env=None, input=None):
    """Run a command, return (rc, stdout+stderr)."""
    try:
        p = subprocess.run(cmd, cwd=cwd, env=env, input=input, timeout=timeout,
                           stdout=subprocess.PIPE, stderr=subprocess.STDOUT, text=True,
                           shell=isinstance(cmd, str))
        return p.returncode, p.stdout
    except subprocess.TimeoutExpired as e:
        out = e.stdout or ''
        if isinstance(out, bytes): out = out.decode('utf-8', 'replace')
        return 124, out + '\n[timeout after %ss]' % timeout


def strip_coq_comments(text):
    out, depth, i, n = [], 0, 0, len(text)
    instr = False
    while i < n:
        if not instr and text.startswith('(*', i):
            depth += 1; i += 2; continue
        if not instr and depth and text.startswith('*)', i):
            depth -= 1; i += 2; continue
        c = text[i]
        if depth == 0:
            if c == '"': instr = not instr
            out.append(c)
        i += 1
    return ''.join(out)


def strip_coq_strings(text):
    return re.sub(r'"[^"]*"', '""', text)


def scan_forbidden(paths):
    """Gate: no Admitted/admit/Axiom/Parameter/... and no Variable/Hypothesis/Context
    outside a Section, anywhere in the given .v files."""
    bad = []
    for p in paths:
        try: src = open(p).read()
        except OSError: continue
        code = strip_coq_strings(strip_coq_comments(src))
        for m in FORBIDDEN.finditer(code):
            line = code.count('\n', 0, m.start()) + 1
            bad.append('%s:%d: forbidden `%s`' % (p, line, m.group(0)))
        stack = []
        for m in re.finditer(r'(?m)^\s*(Section|End|Variables?|Hypothes[ie]s|Context)\b\s*([A-Za-z0-9_\']*)', code):
            kw, name = m.group(1), m.group(2)
            if kw == 'Section': stack.append(name)
            elif kw == 'End':
                if stack and stack[-1] == name: stack.pop()
            elif not stack:
                line = code.count('\n', 0, m.start()) + 1
                bad.append('%s:%d: `%s` outside a Section' % (p, line, kw))
    return bad


def parse_print_assumptions(src, output):
    """Pair the `Print Assumptions X.` commands of a Props file (in order) with the
    blocks coqc printed for them. Returns list of (theorem, [axiom names]) ."""
    names = re.findall(r'Print\s+Assumptions\s+([A-Za-z0-9_\'.]+)\s*\.', strip_coq_comments(src))
    blocks = []
    cur = None
    for line in output.splitlines():
        if line.startswith('Closed under the global context'):
            if cur is not None: blocks.append(cur)
            blocks.append([]); cur = None
        elif line.startswith('Axioms:'):
            if cur is not None: blocks.append(cur)
            cur = []
        elif cur is not None:
            m = re.match(r'^([A-Za-z_][A-Za-z0-9_\'.]*)\s*(:|$)', line)
            if m and not line.startswith(' '): cur.append(m.group(1))
            elif not line.startswith(' ') and line.strip() and not m:
                blocks.append(cur); cur = None
    if cur is not None: blocks.append(cur)
    return names, blocks


def axiom_allowed(name):
    if name in ALLOWED_AXIOM_NAMES: return True
    if name.split('.')[-1] in ALLOWED_AXIOM_NAMES: return True
    return name.startswith(ALLOWED_AXIOM_PREFIXES)


def ensure_base(log=None):
    """Build coq/Base and coq/Model (independent of /repo) if anything is stale."""
    lock = open(os.path.join(VERIF, 'coq', '.buildlock'), 'w')
    fcntl.flock(lock, fcntl.LOCK_EX)
    try:
        rc, out = sh(['bash', os.path.join(VERIF, 'tools', 'setup.sh')], timeout=3000)
        if rc != 0:
            raise RuntimeError('setup build of coq/Base, coq/Model failed:\n' + out[-4000:])
    finally:
        fcntl.flock(lock, fcntl.LOCK_UN); lock.close()


def load_known_findings():
    """known_findings.txt: `finding: property=Cxx key=<key> ...` and `fixed: ...` lines."""
    res = {}
    p = os.path.join(VERIF, 'known_findings.txt')
    if not os.path.exists(p): return res
    for line in open(p):
        line = line.strip()
        m = re.match(r'finding:\s+property=(\S+)\s+key=(\S+)\s*(.*)', line)
        if m: res.setdefault(m.group(1), {})[m.group(2)] = m.group(3)
    return res


class Refusal(Exception):
    """Translator refusal (fail-closed)."""


class Ctx:
    def __init__(self, pid, tier='quick', seed=0):
        self.pid, self.tier, self.seed = pid, tier, seed
        self.t0 = time.time()
        self.rng = random.Random(seed * 1000003 + int(pid[1:]))
        self.build = os.path.join(OUT, 'build', pid)
        self.repo = REPO
        self.thorough = (tier == 'thorough')
        self.theorems = []          # (name, axioms or None if failed, file)
        self.proof_failures = []    # dicts: kind(proof|translator|finite|gate), name, detail
        self.corr = {}              # name -> dict(cases, disagreements[list], distribution)
        self.oracle = {}            # name -> dict(cases, failures[list])
        self.samples = []
        self.distinct = set()
        self.evaluations = 0
        self.assumptions = []
        self.trusted = []
        self.checker_cmds = []
        self.extra = {}
        self.known = load_known_findings().get(pid, {})
        self.findings_seen = {}     # key -> witness text
        self.new_failures = []      # oracle failures not covered by a known finding
        self.hyp_met = {}
        self.rule = ''
        self.lines = []

    # ---- logging -------------------------------------------------------
    def log(self, *a):
        msg = ' '.join(str(x) for x in a)
        print('[%s %6.1fs] %s' % (self.pid, time.time() - self.t0, msg), flush=True)

    # ---- staging -------------------------------------------------------
    def stage(self):
        shutil.rmtree(self.build, ignore_errors=True)
        os.makedirs(os.path.join(self.build, 'Gen'))
        os.makedirs(os.path.join(self.build, 'P'))
        ensure_base()

    def gen(self, name, text):
        p = os.path.join(self.build, 'Gen', name + '.v')
        with open(p, 'w') as f: f.write(text)
        return p

    def refusal(self, what, detail):
        self.log('TRANSLATOR REFUSAL', what, detail)
        self.proof_failures.append({'kind': 'translator', 'name': what, 'detail': str(detail)[:2000]})

    # ---- coq -----------------------------------------------------------
    def coq_flags(self):
        return ['-Q', os.path.join(COQDIR, 'Base'), 'PTBase', '-Q', os.path.join(COQDIR, 'Model'), 'PTModel',
                '-Q', os.path.join(self.build, 'Gen'), 'Gen', '-Q', os.path.join(self.build, 'P'), 'P']

    def coq_build(self, prop_dir=None, props=('Props.v',), timeout=900, extra_files=()):
        """Copy coq/<pid>/*.v to build/P, build Gen/*.v and P/*.v (except the Props files)
        with coq_makefile+make, then compile each Props file on its own, capturing
        Print Assumptions.  Records theorems and failures.  Returns True when all is well."""
        src_dir = os.path.join(COQDIR, prop_dir or self.pid)
        pfiles = []
        for f in sorted(glob.glob(os.path.join(src_dir, '*.v'))):
            shutil.copy(f, os.path.join(self.build, 'P', os.path.basename(f)))
        for f in extra_files:
            shutil.copy(f, os.path.join(self.build, 'P', os.path.basename(f)))
        allv = sorted(glob.glob(os.path.join(self.build, 'Gen', '*.v'))) + \
            sorted(glob.glob(os.path.join(self.build, 'P', '*.v')))
        props_paths = [os.path.join(self.build, 'P', p) for p in props]
        # gates
        bad = scan_forbidden(allv + glob.glob(os.path.join(COQDIR, 'Base', '*.v')) +
                             glob.glob(os.path.join(COQDIR, 'Model', '*.v')))
        if bad:
            for b in bad: self.log('GATE', b)
            self.proof_failures.append({'kind': 'gate', 'name': 'forbidden-construct', 'detail': '\n'.join(bad)})
            return False
        makev = [v for v in allv if v not in props_paths]
        ok = True
        if makev:
            with open(os.path.join(self.build, '_CoqProject'), 'w') as f:
                f.write('-Q %s PTBase\n-Q %s PTModel\n-Q Gen Gen\n-Q P P\n' % (
                    os.path.join(COQDIR, 'Base'), os.path.join(COQDIR, 'Model')))
                for v in makev: f.write(os.path.relpath(v, self.build) + '\n')
            rc, out = sh('coq_makefile -f _CoqProject -o Makefile 2>&1 && timeout %d make -j%d -k 2>&1' % (timeout, NPROC),
                         cwd=self.build, timeout=timeout + 30)
            self.checker_cmds.append('coq_makefile -f _CoqProject -o Makefile && make -j%d  (in build/%s: %d files)' % (NPROC, self.pid, len(makev)))
            if rc != 0:
                ok = False
                self._record_make_failure(out, makev)
        # Props files one by one (they only `exact` lemmas proved above)
        def one(p):
            return p, sh(['timeout', str(timeout), 'coqc'] + self.coq_flags() + [p], cwd=self.build, timeout=timeout + 30)
        with ThreadPoolExecutor(max_workers=max(1, min(NPROC, len(props_paths)))) as ex:
            results = list(ex.map(one, props_paths))
        for p, (rc, out) in results:
            src = open(p).read()
            names, blocks = parse_print_assumptions(src, out)
            base = os.path.basename(p)
            self.checker_cmds.append('coqc -Q ... %s  (Print Assumptions after every theorem)' % base)
            if rc != 0:
                ok = False
                thm = self._locate_failure(out, p)
                self.log('PROOF FAILURE in', base, 'at', thm)
                self.proof_failures.append({'kind': 'proof', 'name': thm, 'detail': out[-3000:]})
            for i, nm in enumerate(names):
                if i < len(blocks):
                    ax = blocks[i]
                    badax = [a for a in ax if not axiom_allowed(a)]
                    if badax:
                        ok = False
                        self.proof_failures.append({'kind': 'gate', 'name': nm, 'detail': 'axioms not on the allow-list: %s' % badax})
                    self.theorems.append((nm, ax, base))
                else:
                    self.theorems.append((nm, None, base))
        if ok and self.thorough and os.environ.get('VERIF_COQCHK', '1') != '0':
            self.run_coqchk(props_paths, timeout=int(os.environ.get('VERIF_COQCHK_TIMEOUT', '1500')))
        return ok

    def run_coqchk(self, props_paths, timeout=1500):
        """Thorough tier: re-check the compiled Props libraries and everything they depend on with the
        independent checker (coqchk -o prints the axioms of the whole closure).  Closures that import
        Interval/Coquelicot re-check those libraries too and do not finish in the budget: a timeout is
        recorded as such and is not a failure; a coqchk ERROR is a proof failure."""
        res = {}
        def one(p):
            lib = 'P.' + os.path.splitext(os.path.basename(p))[0]
            cmd = ['timeout', str(timeout), 'coqchk', '-silent', '-o', '-Q', os.path.join(COQDIR, 'Base'), 'PTBase',
                   '-Q', os.path.join(COQDIR, 'Model'), 'PTModel', '-Q', 'Gen', 'Gen', '-Q', 'P', 'P', lib]
            t0 = time.time()
            rc, out = sh(cmd, cwd=self.build, timeout=timeout + 60)
            return lib, rc, out, time.time() - t0
        with ThreadPoolExecutor(max_workers=max(1, min(4, len(props_paths)))) as ex:
            for lib, rc, out, dt in ex.map(one, props_paths):
                summ = out[out.find('CONTEXT SUMMARY'):] if 'CONTEXT SUMMARY' in out else out[-1500:]
                axioms = []
                m = re.search(r'\* Axioms:(.*?)\n\s*\n\* Constants', summ, re.S)
                if m: axioms = [a.strip() for a in m.group(1).split('\n') if a.strip() and a.strip() != '<none>']
                unsafe = [l.strip() for l in summ.splitlines() if l.startswith('* ') and ('type-in-type' in l or 'unsafe' in l or 'positivity' in l) and '<none>' not in l]
                if rc == 124:
                    res[lib] = {'status': 'not finished in %d s (closure too large)' % timeout}
                    self.log('coqchk', lib, 'did not finish in', timeout, 's')
                elif rc != 0:
                    res[lib] = {'status': 'ERROR', 'detail': out[-1500:]}
                    self.proof_failures.append({'kind': 'proof', 'name': 'coqchk(%s)' % lib, 'detail': out[-2500:]})
                    self.log('coqchk FAILED on', lib)
                else:
                    bad = [a for a in axioms if not axiom_allowed(a.split(' ')[0].split(':')[0])]
                    res[lib] = {'status': 'ok', 'wall_s': round(dt, 1), 'axioms_of_closure': axioms, 'summary': summ[:1500]}
                    if unsafe:
                        self.proof_failures.append({'kind': 'gate', 'name': 'coqchk(%s)' % lib, 'detail': 'closure relies on disabled kernel checks: %s' % unsafe})
                    if bad:
                        self.proof_failures.append({'kind': 'gate', 'name': 'coqchk(%s)' % lib, 'detail': 'axioms not on the allow-list in the closure: %s' % bad})
                    self.log('coqchk', lib, 'ok in %.0f s; axioms of the closure: %s' % (dt, ', '.join(axioms) or 'none'))
                self.checker_cmds.append('coqchk -silent -o ... %s' % lib)
        self.extra['coqchk'] = res

    def _locate_failure(self, out, path=None):
        m = re.search(r'File "([^"]+)", line (\d+), characters', out)
        if not m: return 'unknown (build error)'
        f, line = m.group(1), int(m.group(2))
        if not os.path.isabs(f): f = os.path.join(self.build, f)
        try: src = open(f).read().splitlines()
        except OSError: return '%s:%d' % (m.group(1), line)
        name = None
        for l in src[:line]:
            mm = re.match(r'\s*(Theorem|Lemma|Example|Corollary|Definition|Fixpoint|Fact|Remark|Proposition|Instance)\s+([A-Za-z0-9_\']+)', l)
            if mm: name = mm.group(2)
        return '%s (%s:%d)' % (name, os.path.basename(f), line)

    def _record_make_failure(self, out, makev):
        # several files may fail with -k; record each
        errs = list(re.finditer(r'File "([^"]+)", line (\d+), characters[^\n]*\n((?:.*\n){0,12})', out))
        if not errs:
            self.proof_failures.append({'kind': 'proof', 'name': 'build', 'detail': out[-3000:]})
            self.log('BUILD FAILURE\n' + out[-1500:])
            return
        seen = set()
        for m in errs:
            if 'Warning' in m.group(3).split('\n')[0]: continue
            where = self._locate_failure(m.group(0))
            if where in seen: continue
            seen.add(where)
            self.log('PROOF FAILURE at', where)
            self.proof_failures.append({'kind': 'proof', 'name': where, 'detail': m.group(0)[:2000]})
        if not seen:
            self.proof_failures.append({'kind': 'proof', 'name': 'build', 'detail': out[-3000:]})

    # ---- ocaml extraction build ----------------------------------------
    def ocaml_build(self, ml_files, exe, packages=(), timeout=600):
        """ocamlfind ocamlopt the extracted model + driver in the build dir."""
        cmd = ['ocamlfind', 'ocamlopt', '-O2' if False else '-unsafe', '-w', '-a', '-I', '.']
        if packages: cmd += ['-package', ','.join(packages), '-linkpkg']
        cmd += list(ml_files) + ['-o', exe]
        rc, out = sh(cmd, cwd=self.build, timeout=timeout)
        if rc != 0:
            self.proof_failures.append({'kind': 'proof', 'name': 'extraction-build', 'detail': out[-3000:]})
            self.log('OCAML BUILD FAILURE\n' + out[-2000:])
            return False
        return True

    # ---- bookkeeping ---------------------------------------------------
    def count(self, key, nontrivial=True):
        self.evaluations += 1
        if nontrivial:
            self.distinct.add(hashlib.blake2b(repr(key).encode(), digest_size=8).digest())

    def sample(self, s, limit=12):
        if len(self.samples) < limit: self.samples.append(s)

    def disagreement(self, corr_name, case, model, impl):
        d = self.corr.setdefault(corr_name, {'cases': 0, 'disagreements': []})
        if len(d['disagreements']) < 20:
            d['disagreements'].append({'case': case, 'model': model, 'impl': impl})
        d['n_disagreements'] = d.get('n_disagreements', 0) + 1

    def corr_cases(self, corr_name, n, **dist):
        d = self.corr.setdefault(corr_name, {'cases': 0, 'disagreements': []})
        d['cases'] += n
        if dist: d.setdefault('distribution', {}).update(dist)

    def oracle_cases(self, name, n, **dist):
        d = self.oracle.setdefault(name, {'cases': 0, 'failures': 0})
        d['cases'] += n
        if dist: d.setdefault('distribution', {}).update(dist)

    def failure(self, name, key, inp, observed, required):
        """An input on which the *implementation* breaks the property statement."""
        d = self.oracle.setdefault(name, {'cases': 0, 'failures': 0})
        d['failures'] += 1
        rec = {'oracle': name, 'key': key, 'input': inp, 'observed': observed, 'required': required}
        if key in self.known:
            if key not in self.findings_seen: self.findings_seen[key] = rec
        else:
            if len(self.new_failures) < 25: self.new_failures.append(rec)

    # ---- verdict -------------------------------------------------------
    def write_replay(self, rec):
        os.makedirs(os.path.join(OUT, 'replays'), exist_ok=True)
        n = 0
        while True:
            p = os.path.join(OUT, 'replays', '%s-%d-%d.json' % (self.pid, self.seed, n))
            if not os.path.exists(p): break
            n += 1
        rec = dict(rec)
        rec['property'] = self.pid
        rec.setdefault('seed', self.seed); rec.setdefault('tier', self.tier)
        rec['reproduce'] = './check %s --replay %s' % (self.pid, os.path.relpath(p, VERIF))
        with open(p, 'w') as f: json.dump(rec, f, indent=1, default=str)
        return p

    def finish(self, deep_search=None, level='proof'):
        """Verdict (DESIGN.md section 4) and evidence."""
        out_lines = []
        violations = 0
        for key, rec in sorted(self.findings_seen.items()):
            out_lines.append('KNOWN-FINDING: property=%s %s %s' % (self.pid, key, self.known[key]))
        broken = list(self.proof_failures)
        for cname, d in self.corr.items():
            if d.get('n_disagreements'):
                broken.append({'kind': 'correspondence', 'name': cname,
                               'detail': json.dumps(d['disagreements'][:3], default=str)[:3000]})
        if broken and not self.new_failures and deep_search is not None:
            self.log('proof/correspondence broken (%s): searching for a concrete failing input' %
                     ', '.join(b['name'] for b in broken[:4]))
            try: deep_search(broken)
            except Exception as e:
                self.log('deep search raised', repr(e)); traceback.print_exc()
        if self.new_failures:
            # one VIOLATION line per distinct key (first witness each)
            seen = set()
            for rec in self.new_failures:
                if rec['key'] in seen: continue
                seen.add(rec['key'])
                r = {'broke': broken[:5] or [{'kind': 'oracle', 'name': rec['oracle']}],
                     'finding_key': rec['key'], 'input': rec['input'], 'observed': rec['observed'],
                     'required': rec['required'], 'found_by': rec['oracle'], 'no_failing_input_found': False}
                p = self.write_replay(r)
                out_lines.append('VIOLATION property=%s replay=%s' % (self.pid, p))
                violations += 1
        elif broken:
            r = {'broke': broken[:10], 'input': None, 'no_failing_input_found': True,
                 'note': 'the named theorem / correspondence no longer checks against the current /repo; '
                         'the search over the implementation found no input on which the property statement fails'}
            p = self.write_replay(r)
            out_lines.append('VIOLATION property=%s replay=%s no-failing-input-found' % (self.pid, p))
            violations += 1
        self.write_evidence(level, violations, broken)
        for l in out_lines: print(l, flush=True)
        self.log('done: %d theorem(s) checked, %d evaluation(s), %d violation(s), %d known finding(s)' % (
            len([t for t in self.theorems if t[1] is not None]), self.evaluations, violations, len(self.findings_seen)))
        return 1 if violations else 0

    def write_evidence(self, level, violations, broken):
        obligations = len(self.theorems)
        discharged = len([t for t in self.theorems if t[1] is not None and all(axiom_allowed(a) for a in t[1])])
        axioms = sorted({a for t in self.theorems if t[1] for a in t[1]})
        cov = {
            'evaluations': self.evaluations,
            'distinct_nontrivial': len(self.distinct),
            'rule': self.rule,
            'samples': self.samples[:12] or ['(no sample recorded)'],
            'checker_cmd': ' ; '.join(self.checker_cmds) or 'none run',
            'trusted_base': self.trusted + ['axioms reported by Print Assumptions on this run: %s' % (', '.join(axioms) or 'none (all theorems closed under the global context)')],
            'theorems': [{'name': t[0], 'file': t[2], 'status': 'proved' if t[1] is not None else 'NOT CHECKED',
                          'axioms': t[1]} for t in self.theorems],
            'correspondence': {k: {kk: vv for kk, vv in v.items() if kk != 'disagreements'} | {'first_disagreements': v['disagreements'][:3]}
                               for k, v in self.corr.items()},
            'oracle': self.oracle,
            'known_findings_reproduced': sorted(self.findings_seen),
            'broken': [{'kind': b['kind'], 'name': b['name']} for b in broken],
            'hypotheses_met': self.hyp_met,
        }
        if obligations >= 1 and discharged >= 1:
            cov['obligations'] = obligations
            cov['discharged'] = discharged
        else:
            cov['obligations_attempted'] = obligations
            cov['obligations_discharged'] = discharged
        cov.update(self.extra)
        ev = {'property_id': self.pid, 'tier': self.tier, 'seed': self.seed, 'level': level,
              'coverage': cov, 'assumptions': self.assumptions, 'wall_s': round(time.time() - self.t0, 2),
              'violations': violations}
        os.makedirs(os.path.join(OUT, 'evidence'), exist_ok=True)
        tmp = os.path.join(OUT, 'evidence', '.%s.json.tmp' % self.pid)
        with open(tmp, 'w') as f: json.dump(ev, f, indent=1, default=str)
        os.replace(tmp, os.path.join(OUT, 'evidence', '%s.json' % self.pid))


def run_impl(script, payload, timeout=600, repo=None):
    """Run a Python snippet against the implementation in a subprocess (fresh interpreter,
    PYTHONPATH=repo first), passing `payload` as JSON on stdin; returns parsed JSON stdout."""
    env = dict(os.environ)
    env['PYTHONPATH'] = (repo or REPO) + ':' + os.path.join(VERIF, 'tools')
    env['PYTHONHASHSEED'] = '0'
    p = subprocess.run(['/venv/bin/python', '-c', script], input=json.dumps(payload), env=env, timeout=timeout,
                       stdout=subprocess.PIPE, stderr=subprocess.PIPE, text=True)
    if p.returncode != 0:
        raise RuntimeError('implementation runner failed: ' + p.stderr[-3000:])
    return json.loads(p.stdout)


# ---- extracted-driver helpers ------------------------------------------------
def build_driver(ctx, exe='drv'):
    """Compile the extracted Drv.ml (written by `Extraction "Drv.ml"` in build/<pid>) with
    the universal main."""
    b = ctx.build
    if not os.path.exists(os.path.join(b, 'Drv.ml')):
        ctx.proof_failures.append({'kind': 'proof', 'name': 'extraction', 'detail': 'Drv.ml was not produced'})
        return None
    shutil.copy(os.path.join(VERIF, 'ocaml', 'main.ml'), os.path.join(b, 'main.ml'))
    files = (['Drv.mli'] if os.path.exists(os.path.join(b, 'Drv.mli')) else []) + ['Drv.ml', 'main.ml']
    if not ctx.ocaml_build(files, exe): return None
    return os.path.join(b, exe)


def run_driver(exe, lines, timeout=1800, shards=None):
    """Feed case lines to the extracted model; returns the list of result lines."""
    n = len(lines)
    shards = shards or (NPROC if n > 20000 else 1)
    if shards == 1:
        p = subprocess.run([exe], input='\n'.join(lines) + '\n', stdout=subprocess.PIPE, stderr=subprocess.PIPE,
                           text=True, timeout=timeout, env=dict(os.environ, OCAMLRUNPARAM='l=8G'))
        if p.returncode != 0: raise RuntimeError('model driver failed: ' + p.stderr[-2000:])
        out = p.stdout.split('\n')
        if out and out[-1] == '': out.pop()
        if len(out) != n: raise RuntimeError('model driver returned %d lines for %d cases' % (len(out), n))
        return out
    size = (n + shards - 1) // shards
    chunks = [lines[i:i + size] for i in range(0, n, size)]
    with ThreadPoolExecutor(max_workers=shards) as ex:
        outs = list(ex.map(lambda c: run_driver(exe, c, timeout, 1), chunks))
    return [l for o in outs for l in o]


def hexs(s):
    return s.encode('latin-1').hex()
