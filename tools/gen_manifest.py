"""Regenerates MANIFEST.json from tools/manifest_entries.py (kept valid at all times)."""
import json, os, sys
sys.path.insert(0, os.path.dirname(os.path.abspath(__file__)))
from manifest_entries import CHECKS, NOT_APPLICABLE
ALL = ['C%02d' % i for i in range(1, 21)]
import glob
for f in sorted(glob.glob(os.path.join(os.path.dirname(os.path.abspath(__file__)), 'manifest_entries.d', 'C*.json'))):
    pid = os.path.basename(f)[:-5]
    d = json.load(open(f))
    if d.get('enabled', True) and all(k in d for k in ('text', 'note', 'technique')): CHECKS[pid] = d
# only checks the orchestrator has run itself on the unchanged tree are registered (tools/registered.txt)
REG = set(open(os.path.join(os.path.dirname(os.path.abspath(__file__)), 'registered.txt')).read().split())
for pid in list(CHECKS):
    if pid not in REG: del CHECKS[pid]
checks = []
for pid in ALL:
    if pid not in CHECKS: continue
    c = CHECKS[pid]
    checks.append({
        'property_id': pid,
        'quick_cmd': './check %s --tier quick' % pid,
        'thorough_cmd': './check %s --tier thorough' % pid,
        'evidence_file': '/verif/evidence/%s.json' % pid,
        'replay_cmd_template': './check %s --replay {path}' % pid,
        'engine': 'coq-proof+correspondence',
        'level_claimed': {'category': 'proof', 'text': c['text'], 'design_ref': c.get('design_ref', 'DESIGN.md section 6, ' + pid)},
        'level_note': c['note'],
        'technique': c['technique'],
    })
na = [{'property_id': pid, 'reason': NOT_APPLICABLE.get(pid, 'no check built yet in this session (planned in DESIGN.md section 6); not claimed')}
      for pid in ALL if pid not in CHECKS]
m = {
    'version': 1,
    'setup_cmd': 'bash tools/setup.sh',
    'hooks': {'guard': 'PYTOUGH_VERIF', 'enable': 'none needed: no instrumentation is compiled into /repo; the checks drive public entry points and set PYTOUGH_VERIF=1 only for uniformity',
              'baseline_off_cmd': 'cd /repo && /venv/bin/python -m pytest -ra -q -p no:cacheprovider --timeout=900 --continue-on-collection-errors',
              'source_commits': [], 'add_only': True},
    'engines': [{'name': 'coq-proof+correspondence', 'path': '/verif/check',
                 'serves_properties': [c['property_id'] for c in checks],
                 'kind_free_text': 'Coq 8.16.1 theorems over a model of the code; the model is regenerated from /repo by AST/table translators on every run and/or run (extracted to OCaml) against the implementation on generated inputs; an oracle sweep evaluates the property statement on the implementation to supply concrete replays'}],
    'checks': checks,
    'not_applicable': na,
    'notes': 'see DESIGN.md; ./check Cxx --tier quick|thorough; VERIF_SEED and VERIF_TIER honoured; VERIF_REPO overrides /repo (used only for testing seeded changes in scratch worktrees)',
}
json.dump(m, open(os.path.join(os.path.dirname(os.path.dirname(os.path.abspath(__file__))), 'MANIFEST.json'), 'w'), indent=1)
print('MANIFEST.json: %d checks, %d not_applicable' % (len(checks), len(na)))
