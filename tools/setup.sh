#!/bin/bash
# Builds everything that does not depend on /repo: coq/Base, coq/Model (full .vo build).
HERE="$(cd "$(dirname "$0")/.." && pwd)"
cd "$HERE/coq" || exit 2
{
  echo "-Q Base PTBase"
  echo "-Q Model PTModel"
  find Base Model -maxdepth 1 -name '*.v' | sort
} > _CoqProject.tmp
if ! cmp -s _CoqProject.tmp _CoqProject 2>/dev/null; then
  mv _CoqProject.tmp _CoqProject
  coq_makefile -f _CoqProject -o Makefile >/dev/null || exit 2
else
  rm -f _CoqProject.tmp
fi
[ -f Makefile ] || coq_makefile -f _CoqProject -o Makefile >/dev/null
timeout 2700 make -j16 > .make.log 2>&1
rc=$?
grep -v '^COQDEP\|^COQC\|^CLEAN\|^make\[' .make.log | tail -60
exit $rc
