"""Validate MANIFEST.json and evidence/*.json against the schemas (run with python3-vt)."""
import json, sys, glob, jsonschema
ok = True
m = json.load(open('/verif/MANIFEST.json'))
try: jsonschema.validate(m, json.load(open('/root/.vp/MANIFEST.schema.json'))); print('MANIFEST ok: %d checks, %d not_applicable' % (len(m['checks']), len(m.get('not_applicable', []))))
except Exception as e: print('MANIFEST INVALID', e); ok = False
es = json.load(open('/root/.vp/EVIDENCE.schema.json'))
for f in sorted(glob.glob('/verif/evidence/*.json')):
    try: jsonschema.validate(json.load(open(f)), es); print('ok', f)
    except Exception as e: print('INVALID', f, str(e)[:500]); ok = False
sys.exit(0 if ok else 1)
