"""AST translator: a small pure subset of Python -> Gallina over PTBase.PyVal.

Fail-closed: any construct outside the subset raises `Refusal` naming file and line.
The emitted definitions are a *shallow embedding*: every Python expression becomes a
term of type `res pyval`, statements are translated in continuation style (the rest of
a block is duplicated into both branches of an `if`, which is exactly Python's
fall-through semantics), `try/except` becomes `try_` with the handler list in order,
recursion becomes structural recursion on an explicit fuel argument that raises
`OutOfFuel` when exhausted (never caught by a handler).

See DESIGN.md section 3.1 (pyfun.py).
"""
import ast, string, re
from decimal import Decimal


class Refusal(Exception):
    pass


EXN = {'ValueError': 'ValueError', 'TypeError': 'TypeError', 'IndexError': 'IndexError', 'KeyError': 'KeyError',
       'ZeroDivisionError': 'ZeroDivisionError', 'NamingConventionError': 'NamingConventionError',
       'AttributeError': 'AttributeError', 'OverflowError': 'OverflowError', 'Exception': 'PlainException'}

STR_METHODS0 = {'strip': 'm_strip', 'lstrip': 'm_lstrip', 'rstrip': 'm_rstrip', 'lower': 'm_lower', 'upper': 'm_upper',
                'isdigit': 'm_isdigit'}

MODULE_CONSTS = {
    'ascii_lowercase': string.ascii_lowercase, 'ascii_uppercase': string.ascii_uppercase,
    'ascii_letters': string.ascii_letters, 'digits': string.digits, 'punctuation': string.punctuation,
}


def coq_str(s):
    for ch in s:
        if ord(ch) > 126 or (ord(ch) < 32):
            raise Refusal('non-printable character in string literal %r' % s)
    return '"' + s.replace('"', '""') + '"'


def coq_z(n):
    return '(%d)%%Z' % n if n < 0 else '%d%%Z' % n


class FnInfo:
    def __init__(self, pyname, coqname, params, defaults, self_attrs, recursive, is_method):
        self.pyname, self.coqname, self.params, self.defaults = pyname, coqname, params, defaults
        self.self_attrs, self.recursive, self.is_method = self_attrs, recursive, is_method


class Translator:
    def __init__(self, path, prefix='gen_'):
        self.path = path
        self.src = open(path).read()
        self.tree = ast.parse(self.src, path)
        self.prefix = prefix
        self.fns = {}          # python name -> FnInfo (translated so far)
        self.out = []
        self.tmp = 0
        self.consts = dict(MODULE_CONSTS)

    # ------------------------------------------------------------------
    def refuse(self, node, msg):
        raise Refusal('%s:%s: %s' % (self.path, getattr(node, 'lineno', '?'), msg))

    def find_def(self, name, cls=None):
        body = self.tree.body
        if cls:
            for n in body:
                if isinstance(n, ast.ClassDef) and n.name == cls:
                    body = n.body; break
            else:
                raise Refusal('%s: class %s not found' % (self.path, cls))
        for n in body:
            if isinstance(n, ast.FunctionDef) and n.name == name: return n
        raise Refusal('%s: function %s%s not found' % (self.path, (cls + '.') if cls else '', name))

    def fresh(self, base='t'):
        self.tmp += 1
        return '%s%d_' % (base, self.tmp)

    # ------------------------------------------------------------------
    def translate(self, name, cls=None):
        node = self.find_def(name, cls)
        is_method = cls is not None
        args = node.args
        if args.vararg or args.kwarg or args.kwonlyargs or args.posonlyargs:
            self.refuse(node, 'unsupported parameter kinds')
        params = [a.arg for a in args.args]
        if is_method:
            if not params or params[0] != 'self': self.refuse(node, 'method without self')
            params = params[1:]
        ndef = len(args.defaults)
        defaults = {}
        for p, d in zip(params[len(params) - ndef:], args.defaults):
            defaults[p] = d
        recursive = any(isinstance(n, ast.Call) and isinstance(n.func, ast.Name) and n.func.id == name
                        for n in ast.walk(node)) and not is_method
        # self attributes used (directly or through called methods)
        self_attrs = []
        if is_method:
            for n in ast.walk(node):
                if isinstance(n, ast.Attribute) and isinstance(n.value, ast.Name) and n.value.id == 'self':
                    if n.attr in self.fns and self.fns[n.attr].is_method:
                        for a in self.fns[n.attr].self_attrs:
                            if a not in self_attrs: self_attrs.append(a)
                    elif n.attr not in self_attrs:
                        self_attrs.append(n.attr)
        info = FnInfo(name, self.prefix + name, params, defaults, self_attrs, recursive, is_method)
        self.cur = info
        self.locals = set(params)
        self.local_fns = {}
        self.fns[name] = info
        body = self.block(node.body)
        ps = ''.join(' (self_%s : pyval)' % a for a in self_attrs) + ''.join(' (v_%s : pyval)' % p for p in params)
        if recursive:
            text = ('Fixpoint %s (fuel : nat)%s {struct fuel} : res pyval :=\n  match fuel with\n  | O => Raise OutOfFuel\n'
                    '  | S fuel =>\n%s\n  end.\n' % (info.coqname, ps, indent(body, 4)))
        else:
            text = 'Definition %s%s : res pyval :=\n%s.\n' % (info.coqname, ps, indent(body, 2))
        header = '(* %s:%d  %s%s *)\n' % (self.path.split('/')[-1], node.lineno, (cls + '.') if cls else '', name)
        self.out.append(header + text)
        return info

    # ------------------------------------------------------------------
    def always_returns(self, stmts):
        for s in stmts:
            if isinstance(s, (ast.Return, ast.Raise)): return True
            if isinstance(s, ast.If) and self.always_returns(s.body) and s.orelse and self.always_returns(s.orelse):
                return True
            if isinstance(s, ast.Try) and not s.finalbody and not s.orelse and self.always_returns(s.body) and \
               all(self.always_returns(h.body) for h in s.handlers):
                return True
        return False

    def block(self, stmts):
        if not stmts: return 'Ok VNone'
        s, rest = stmts[0], stmts[1:]
        if isinstance(s, ast.Expr):
            if isinstance(s.value, ast.Constant): return self.block(rest)      # docstring
            self.refuse(s, 'expression statement')
        if isinstance(s, ast.Pass): return self.block(rest)
        if isinstance(s, ast.Return):
            if s.value is None: return 'Ok VNone'
            return self.expr(s.value)
        if isinstance(s, ast.Assign):
            if len(s.targets) != 1 or not isinstance(s.targets[0], ast.Name): self.refuse(s, 'assignment target')
            nm = s.targets[0].id
            e = self.expr(s.value)
            self.locals.add(nm)
            return '(do v_%s <- %s;\n%s)' % (nm, e, self.block(rest))
        if isinstance(s, ast.AugAssign):
            if not isinstance(s.target, ast.Name): self.refuse(s, 'augmented assignment target')
            nm = s.target.id
            e = self.expr(ast.BinOp(left=ast.Name(id=nm, ctx=ast.Load()), op=s.op, right=s.value))
            return '(do v_%s <- %s;\n%s)' % (nm, e, self.block(rest))
        if isinstance(s, ast.If):
            c = self.expr(s.test)
            saved = set(self.locals)
            a = self.block(s.body + rest)
            self.locals = set(saved)
            b = self.block(s.orelse + rest)
            t = self.fresh('c')
            return '(do %s <- %s;\n if truthy %s then\n%s\n else\n%s)' % (t, c, t, indent(a, 2), indent(b, 2))
        if isinstance(s, ast.Try):
            if s.finalbody or s.orelse: self.refuse(s, 'try/finally or try/else')
            if rest and not (self.always_returns(s.body) and all(self.always_returns(h.body) for h in s.handlers)):
                self.refuse(s, 'try statement that can fall through into following statements')
            return self.try_block(s.body, s.handlers)
        if isinstance(s, ast.Raise):
            e = s.exc
            if isinstance(e, ast.Call): e = e.func
            if isinstance(e, ast.Name) and e.id in EXN: return 'Raise %s' % EXN[e.id]
            self.refuse(s, 'raise of unknown exception')
        if isinstance(s, ast.FunctionDef):
            if s.args.defaults or s.args.vararg or s.args.kwarg: self.refuse(s, 'nested def with defaults')
            ps = [a.arg for a in s.args.args]
            saved = set(self.locals)
            self.locals |= set(ps)
            body = self.block(s.body)
            self.locals = saved
            self.local_fns[s.name] = ps
            return '(let f_%s := fun %s =>\n%s in\n%s)' % (s.name, ' '.join('(v_%s : pyval)' % p for p in ps) or '(_ : unit)',
                                                         indent(body, 2), self.block(rest))
        if isinstance(s, ast.ImportFrom):
            if s.module == 'string' and all(a.name in MODULE_CONSTS and a.asname is None for a in s.names):
                return self.block(rest)
            self.refuse(s, 'import')
        self.refuse(s, 'statement %s' % type(s).__name__)

    def handlers(self, hnodes):
        hs = []
        for h in hnodes:
            if h.name: self.refuse(h, 'except ... as name')
            if h.type is None: pred = 'catch_all'
            elif isinstance(h.type, ast.Name) and h.type.id in EXN: pred = 'catch %s' % EXN[h.type.id]
            else: self.refuse(h, 'exception class')
            if pred == 'catch PlainException': pred = 'catch_all'   # `except Exception` catches every model exception
            saved = set(self.locals)
            hs.append('(%s,\n%s)' % (pred, indent(self.block(h.body), 3)))
            self.locals = saved
        return ';\n   '.join(hs)

    def try_block(self, stmts, hnodes):
        """Body of a try statement.  Assignments made by the body before the exception is
        raised are visible in the handlers (Python scoping), so a leading assignment
        `x = e` becomes `try_bind e (fun x => <rest, guarded by the handlers with the new x>)
        <handlers with the old x>`."""
        if stmts and isinstance(stmts[0], ast.Expr) and isinstance(stmts[0].value, ast.Constant):
            return self.try_block(stmts[1:], hnodes)
        if stmts and isinstance(stmts[0], (ast.Assign, ast.AugAssign)):
            s = stmts[0]
            if isinstance(s, ast.Assign):
                if len(s.targets) != 1 or not isinstance(s.targets[0], ast.Name): self.refuse(s, 'assignment target')
                nm, e = s.targets[0].id, self.expr(s.value)
            else:
                if not isinstance(s.target, ast.Name): self.refuse(s, 'augmented assignment target')
                nm = s.target.id
                e = self.expr(ast.BinOp(left=ast.Name(id=nm, ctx=ast.Load()), op=s.op, right=s.value))
            hs_old = self.handlers(hnodes)
            self.locals.add(nm)
            inner = self.try_block(stmts[1:], hnodes)
            return '(try_bind (%s)\n  (fun v_%s =>\n%s)\n  [%s])' % (e, nm, indent(inner, 3), hs_old)
        for st in stmts:
            for n in ast.walk(st):
                if isinstance(n, (ast.Assign, ast.AugAssign, ast.NamedExpr)):
                    self.refuse(n, 'assignment inside a try body after a non-assignment statement')
        body = self.block(stmts)
        return '(try_ (%s)\n  [%s])' % (indent(body, 2).lstrip(), self.handlers(hnodes))

    # ------------------------------------------------------------------
    def pure(self, node):
        """Coq term of type pyval for an atom, or None."""
        if isinstance(node, ast.Constant):
            v = node.value
            if v is None: return 'VNone'
            if v is True: return '(VBool true)'
            if v is False: return '(VBool false)'
            if isinstance(v, int): return '(VInt %s)' % coq_z(v)
            if isinstance(v, str): return '(vstr %s)' % coq_str(v)
            if isinstance(v, float):
                d = Decimal(repr(v))
                sign, digits, exp = d.as_tuple()
                mant = int(''.join(map(str, digits)))
                return '(VFloat (Fin %s %d%%N %s))' % ('true' if sign else 'false', mant, coq_z(exp))
            self.refuse(node, 'constant %r' % (v,))
        if isinstance(node, ast.Name):
            if node.id in self.locals: return 'v_' + node.id
            if node.id in self.consts: return '(vstr %s)' % coq_str(self.consts[node.id])
            if node.id == 'nan': return '(VFloat NaN)'
            self.refuse(node, 'unknown name %s' % node.id)
        if isinstance(node, ast.Attribute) and isinstance(node.value, ast.Name):
            if node.value.id == 'self':
                if node.attr in self.fns: self.refuse(node, 'method value')
                return 'self_' + node.attr
            if node.value.id == 'str' and node.attr in ('rjust', 'ljust'): return '(VFn F_%s)' % node.attr
        if isinstance(node, ast.UnaryOp) and isinstance(node.op, ast.USub) and isinstance(node.operand, ast.Constant) \
                and isinstance(node.operand.value, int):
            return '(VInt %s)' % coq_z(-node.operand.value)
        return None

    def bindall(self, nodes, k):
        """Evaluate nodes left to right, then build k(list of pure terms)."""
        names, binds = [], []
        for n in nodes:
            p = self.pure(n)
            if p is not None: names.append(p)
            else:
                t = self.fresh()
                binds.append((t, self.expr(n)))
                names.append(t)
        body = k(names)
        for t, e in reversed(binds):
            body = '(do %s <- %s; %s)' % (t, e, body)
        return body

    def expr(self, node):
        """Coq term of type res pyval."""
        p = self.pure(node)
        if p is not None: return 'Ok ' + p
        if isinstance(node, ast.BinOp):
            if isinstance(node.op, ast.Mod) and isinstance(node.left, ast.Constant) and isinstance(node.left.value, str):
                return self.format(node)
            ops = {ast.Add: 'py_add', ast.Sub: 'py_sub', ast.Mult: 'py_mul', ast.FloorDiv: 'py_floordiv', ast.Mod: 'py_mod'}
            for k, v in ops.items():
                if isinstance(node.op, k):
                    return self.bindall([node.left, node.right], lambda a: '%s %s %s' % (v, a[0], a[1]))
            self.refuse(node, 'binary operator %s' % type(node.op).__name__)
        if isinstance(node, ast.UnaryOp):
            if isinstance(node.op, ast.Not):
                return self.bindall([node.operand], lambda a: 'Ok (VBool (negb (truthy %s)))' % a[0])
            if isinstance(node.op, ast.USub):
                return self.bindall([node.operand], lambda a: 'py_neg %s' % a[0])
            self.refuse(node, 'unary operator')
        if isinstance(node, ast.BoolOp):
            vals = node.values
            def build(i):
                if i == len(vals) - 1: return self.expr(vals[i])
                t = self.fresh('b')
                if isinstance(node.op, ast.And):
                    return '(do %s <- %s; if truthy %s then %s else Ok %s)' % (t, self.expr(vals[i]), t, build(i + 1), t)
                return '(do %s <- %s; if truthy %s then Ok %s else %s)' % (t, self.expr(vals[i]), t, t, build(i + 1))
            return build(0)
        if isinstance(node, ast.Compare):
            if len(node.ops) != 1: self.refuse(node, 'comparison chain')
            op, l, r = node.ops[0], node.left, node.comparators[0]
            if isinstance(op, ast.Eq): return self.bindall([l, r], lambda a: 'Ok (VBool (py_eqb %s %s))' % (a[0], a[1]))
            if isinstance(op, ast.NotEq): return self.bindall([l, r], lambda a: 'Ok (VBool (negb (py_eqb %s %s)))' % (a[0], a[1]))
            cmpf = {ast.Lt: 'py_lt', ast.LtE: 'py_le', ast.Gt: 'py_gt', ast.GtE: 'py_ge'}
            for k, v in cmpf.items():
                if isinstance(op, k):
                    return self.bindall([l, r], lambda a: '(do r_ <- %s %s %s; Ok (VBool r_))' % (v, a[0], a[1]))
            if isinstance(op, ast.In): return self.bindall([l, r], lambda a: '(do r_ <- py_in %s %s; Ok (VBool r_))' % (a[0], a[1]))
            if isinstance(op, ast.NotIn): return self.bindall([l, r], lambda a: '(do r_ <- py_in %s %s; Ok (VBool (negb r_)))' % (a[0], a[1]))
            if isinstance(op, (ast.Is, ast.IsNot)) and isinstance(r, ast.Constant) and r.value is None:
                neg = isinstance(op, ast.IsNot)
                return self.bindall([l], lambda a: 'Ok (VBool (%s match %s with VNone => true | _ => false end))' % ('negb' if neg else '', a[0]))
            self.refuse(node, 'comparison operator')
        if isinstance(node, ast.IfExp):
            t = self.fresh('c')
            return '(do %s <- %s; if truthy %s then %s else %s)' % (t, self.expr(node.test), t, self.expr(node.body), self.expr(node.orelse))
        if isinstance(node, ast.Subscript):
            sl = node.slice
            if isinstance(sl, ast.Slice):
                if sl.step is not None: self.refuse(node, 'slice step')
                lo = sl.lower if sl.lower is not None else ast.Constant(value=None)
                hi = sl.upper if sl.upper is not None else ast.Constant(value=None)
                return self.bindall([node.value, lo, hi], lambda a: 'py_slice %s %s %s' % tuple(a))
            return self.bindall([node.value, sl], lambda a: 'py_getitem %s %s' % tuple(a))
        if isinstance(node, (ast.List, ast.Tuple)):
            ctor = 'VList' if isinstance(node, ast.List) else 'VTuple'
            return self.bindall(node.elts, lambda a: 'Ok (%s [%s])' % (ctor, '; '.join(a)))
        if isinstance(node, ast.ListComp):
            return self.listcomp(node)
        if isinstance(node, ast.Call):
            return self.call(node)
        self.refuse(node, 'expression %s' % type(node).__name__)

    def listcomp(self, node):
        if len(node.generators) != 1: self.refuse(node, 'nested comprehension')
        g = node.generators[0]
        if g.ifs or g.is_async or not isinstance(g.target, ast.Name): self.refuse(node, 'comprehension form')
        x = g.target.id
        saved = set(self.locals)
        it = self.expr(g.iter)
        self.locals.add(x)
        elt = self.expr(node.elt)
        self.locals = saved
        return '(do it_ <- %s; do l_ <- as_list it_; do xs_ <- mapM (fun v_%s => %s) l_; Ok (VList xs_))' % (it, x, elt)

    def format(self, node):
        tmpl = node.left.value
        items = re.findall(r'%(-?\d*)([sd])|([^%]+)|(%%)', tmpl)
        if ''.join(('%' + a + b) if b else (c or d) for a, b, c, d in items) != tmpl:
            self.refuse(node, 'format template %r' % tmpl)
        nspec = sum(1 for a, b, c, d in items if b)
        if isinstance(node.right, ast.Tuple): args = list(node.right.elts)
        else: args = [node.right]
        if len(args) != nspec: self.refuse(node, 'format argument count')
        def k(a):
            parts, i = [], 0
            for w, ty, lit, pc in items:
                if ty:
                    parts.append('fmt_%s %s %s' % (ty, coq_z(int(w) if w else 0), a[i])); i += 1
                elif lit: parts.append('fmt_lit (s2l %s)' % coq_str(lit))
                else: parts.append('fmt_lit (s2l "%")')
            return 'fmt_concat [%s]' % '; '.join(parts)
        return self.bindall(args, k)

    def call_known(self, info, node, extra_first=()):
        """Call of a translated function with Python's positional/keyword/default binding."""
        given = {}
        pos = list(node.args)
        if len(pos) > len(info.params): self.refuse(node, 'too many arguments')
        for p, a in zip(info.params, pos): given[p] = a
        for kw in node.keywords:
            if kw.arg is None or kw.arg not in info.params or kw.arg in given: self.refuse(node, 'keyword argument')
            given[kw.arg] = kw.value
        argnodes = []
        for p in info.params:
            if p in given: argnodes.append(given[p])
            elif p in info.defaults: argnodes.append(info.defaults[p])
            else: self.refuse(node, 'missing argument %s' % p)
        selfargs = ['self_' + a for a in info.self_attrs]
        if info.recursive and info is self.cur:
            return self.bindall(argnodes, lambda a: '%s %s' % (info.coqname, ' '.join(['fuel'] + selfargs + a)))
        if info.recursive:      # fuel from the first (decreasing, integer) argument
            return self.bindall(argnodes, lambda a: '%s %s' % (info.coqname, ' '.join(['(fuel_of %s)' % a[0]] + selfargs + a)))
        return self.bindall(argnodes, lambda a: '%s %s' % (info.coqname, ' '.join(selfargs + a)))

    def call(self, node):
        f = node.func
        if isinstance(f, ast.Name):
            nm = f.id
            if nm in self.local_fns:
                if node.keywords or len(node.args) != len(self.local_fns[nm]): self.refuse(node, 'local function call')
                return self.bindall(node.args, lambda a: 'f_%s %s' % (nm, ' '.join(a) or 'tt'))
            if nm in self.locals:          # a function value held in a variable: justfn(s, n)
                if node.keywords or len(node.args) != 2: self.refuse(node, 'call of function value')
                return self.bindall([f] + node.args, lambda a: 'call_fn %s %s %s' % tuple(a))
            if nm in ('float', 'int', 'str', 'len') and len(node.args) == 1 and not node.keywords:
                fn = {'float': 'b_float', 'int': 'b_int', 'str': 'b_str', 'len': 'py_len'}[nm]
                return self.bindall(node.args, lambda a: '%s %s' % (fn, a[0]))
            if nm in ('all', 'any') and len(node.args) == 1 and not node.keywords:
                return self.bindall(node.args, lambda a: '(do l_ <- as_list %s; Ok (VBool (py_%s l_)))' % (a[0], nm))
            if nm in self.fns and not self.fns[nm].is_method:
                return self.call_known(self.fns[nm], node)
            self.refuse(node, 'call of unknown function %s' % nm)
        if isinstance(f, ast.Attribute):
            m = f.attr
            if isinstance(f.value, ast.Name) and f.value.id == 'self':
                if m in self.fns and self.fns[m].is_method: return self.call_known(self.fns[m], node)
                self.refuse(node, 'call of untranslated method %s' % m)
            if isinstance(f.value, ast.Name) and f.value.id == 'str' and m in ('rjust', 'ljust'):
                if node.keywords or len(node.args) != 2: self.refuse(node, 'str.%s call' % m)
                return self.bindall(node.args, lambda a: 'm_just F_%s %s %s' % (m, a[0], a[1]))
            if node.keywords: self.refuse(node, 'keyword arguments in method call')
            if m in STR_METHODS0 and not node.args:
                return self.bindall([f.value], lambda a: '%s %s' % (STR_METHODS0[m], a[0]))
            if m in ('rjust', 'ljust') and len(node.args) == 1:
                return self.bindall([f.value, node.args[0]], lambda a: 'm_just F_%s %s %s' % (m, a[0], a[1]))
            if m == 'replace' and len(node.args) == 2:
                old = node.args[0]
                if not (isinstance(old, ast.Constant) and isinstance(old.value, str) and len(old.value) == 1):
                    self.refuse(node, 'replace() pattern must be a one-character literal')
                return self.bindall([f.value, node.args[1]],
                                    lambda a: 'm_replace %s %s%%char %s' % (a[0], coq_str(old.value), a[1]))
            if m == 'join' and len(node.args) == 1:
                arg = node.args[0]
                # idiom: ''.join(sorted(set(s), key = s.index))
                if isinstance(arg, ast.Call) and isinstance(arg.func, ast.Name) and arg.func.id == 'sorted':
                    ok = (isinstance(f.value, ast.Constant) and f.value.value == '' and len(arg.args) == 1 and
                          isinstance(arg.args[0], ast.Call) and isinstance(arg.args[0].func, ast.Name) and
                          arg.args[0].func.id == 'set' and len(arg.args[0].args) == 1 and
                          isinstance(arg.args[0].args[0], ast.Name) and len(arg.keywords) == 1 and
                          arg.keywords[0].arg == 'key' and isinstance(arg.keywords[0].value, ast.Attribute) and
                          arg.keywords[0].value.attr == 'index' and isinstance(arg.keywords[0].value.value, ast.Name) and
                          arg.keywords[0].value.value.id == arg.args[0].args[0].id)
                    if not ok: self.refuse(node, 'sorted(...) outside the first-occurrence de-duplication idiom')
                    return self.bindall([arg.args[0].args[0]], lambda a: 'b_uniqstring %s' % a[0])
                return self.bindall([f.value, arg], lambda a: 'm_join %s %s' % (a[0], a[1]))
            self.refuse(node, 'method %s' % m)
        self.refuse(node, 'call form')

    def text(self):
        return '\n'.join(self.out)


def indent(s, n):
    pad = ' ' * n
    return '\n'.join(pad + l for l in s.split('\n'))


HEADER = '''(* GENERATED by tools/translate/pyfun.py from the current /repo working tree -- do not edit *)
From Coq Require Import Ascii String List Bool ZArith NArith.
From PTBase Require Import Exn PyStr PyNum PyVal.
Import ListNotations.
Open Scope string_scope.

'''
