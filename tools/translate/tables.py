"""Literal-data translator: evaluates a closed literal sub-language of Python by walking
the module AST (the module is never imported) and emits Coq data.  Fail-closed."""
import ast


class Refusal(Exception):
    pass


class Module:
    def __init__(self, path):
        self.path = path
        self.tree = ast.parse(open(path).read(), path)
        self.env = {}

    def refuse(self, node, msg):
        raise Refusal('%s:%s: %s' % (self.path, getattr(node, 'lineno', '?'), msg))

    def find_assign(self, name, body=None):
        found = None
        for n in (body if body is not None else self.tree.body):
            if isinstance(n, ast.Assign) and len(n.targets) == 1 and isinstance(n.targets[0], ast.Name) and n.targets[0].id == name:
                found = n
        if found is None: raise Refusal('%s: no module-level assignment to %s' % (self.path, name))
        return found

    def literal(self, name):
        """Value of a module-level literal assignment."""
        if name in self.env: return self.env[name]
        v = self.ev(self.find_assign(name).value)
        self.env[name] = v
        return v

    def ev(self, n):
        if isinstance(n, ast.Constant):
            if isinstance(n.value, (str, int, float, bool)) or n.value is None: return n.value
            self.refuse(n, 'constant %r' % (n.value,))
        if isinstance(n, ast.List): return [self.ev(e) for e in n.elts]
        if isinstance(n, ast.Tuple): return tuple(self.ev(e) for e in n.elts)
        if isinstance(n, ast.Dict):
            d = {}
            for k, v in zip(n.keys, n.values):
                if k is None: self.refuse(n, 'dict unpacking')
                kk = self.ev(k)
                if kk in d: self.refuse(k, 'duplicate dict key %r' % (kk,))
                d[kk] = self.ev(v)
            return d
        if isinstance(n, ast.UnaryOp) and isinstance(n.op, ast.USub):
            v = self.ev(n.operand)
            if isinstance(v, (int, float)) and not isinstance(v, bool): return -v
            self.refuse(n, 'unary minus on non-number')
        if isinstance(n, ast.BinOp):
            a, b = self.ev(n.left), self.ev(n.right)
            if isinstance(n.op, ast.Add) and isinstance(a, list) and isinstance(b, list): return a + b
            if isinstance(n.op, ast.Add) and isinstance(a, str) and isinstance(b, str): return a + b
            if isinstance(n.op, ast.Mult) and isinstance(a, list) and isinstance(b, int) and not isinstance(b, bool): return a * b
            if isinstance(n.op, ast.Mult) and isinstance(b, list) and isinstance(a, int) and not isinstance(a, bool): return b * a
            if isinstance(n.op, (ast.Add, ast.Sub, ast.Mult)) and all(isinstance(x, int) and not isinstance(x, bool) for x in (a, b)):
                return {ast.Add: a + b, ast.Sub: a - b, ast.Mult: a * b}[type(n.op)]
            self.refuse(n, 'binary operation outside the literal sub-language')
        if isinstance(n, ast.Name):
            return self.literal(n.id)
        self.refuse(n, 'expression %s outside the literal sub-language' % type(n).__name__)


def coq_string(s):
    for ch in s:
        if ord(ch) > 126 or ord(ch) < 32: raise Refusal('non-printable character in %r' % s)
    return '"' + s.replace('"', '""') + '"'


def coq_z(n):
    return '(%d)' % n if n < 0 else '%d' % n


def parse_fspec(spec):
    """Exactly as fixed_format_file.preprocess_specification / Python's % see it."""
    if not isinstance(spec, str) or len(spec) < 2: raise Refusal('format specification %r' % (spec,))
    fmt, typ = spec[:-1], spec[-1]
    if typ not in 'sdefgx': raise Refusal('format type in %r' % spec)
    head, dot, tail = fmt.partition('.')
    try:
        w = int(head)            # the code: int(fmt.partition('.')[0]) (sign kept; abs() taken later)
        p = (int(tail) if tail else 0) if dot else None
    except ValueError:
        raise Refusal('format specification %r' % spec)
    if head.startswith(('+', ' ', '0', '#')) or (head.startswith('-') and typ != 's'):
        raise Refusal('format flags in %r are outside the model' % spec)
    return w, p, typ


def emit_format_table(name, table):
    """dict record -> [names, specs]  ==>  Definition name : list (string * (list string * list fspec))."""
    out = ['Definition %s : list (string * (list string * list fspec)) := [' % name]
    items = []
    for rec, val in table.items():
        if not (isinstance(rec, str) and isinstance(val, list) and len(val) == 2 and all(isinstance(x, list) for x in val)):
            raise Refusal('format table %s entry %r is not [names, specs]' % (name, rec))
        names, specs = val
        ns = '; '.join(coq_string(n) for n in names)
        ss = []
        for s in specs:
            w, p, t = parse_fspec(s)
            ss.append('{| fw := %s; fp := %s; ft := T%s |}' % (coq_z(w), 'None' if p is None else 'Some %s' % coq_z(p), t))
        items.append('  (%s, ([%s],\n     [%s]))' % (coq_string(rec), ns, ';\n      '.join(ss)))
    out.append(';\n'.join(items))
    out.append('].')
    return '\n'.join(out) + '\n'


TABLES_HEADER = '''(* GENERATED by tools/translate/tables.py from the current /repo working tree -- do not edit *)
From Coq Require Import Ascii String List Bool ZArith.
From PTBase Require Import Fmt.
Import ListNotations.
Open Scope string_scope.
Open Scope Z_scope.

'''


def format_tables(repo):
    """The four format tables of the library, as (coq name, python dict)."""
    import os
    t2d = Module(os.path.join(repo, 't2data.py'))
    t2i = Module(os.path.join(repo, 't2incons.py'))
    mg = Module(os.path.join(repo, 'mulgrids.py'))
    return [('t2data_format', t2d.literal('t2data_format_specification')),
            ('t2data_extra_format', t2d.literal('t2data_extra_precision_format_specification')),
            ('t2incon_format', t2i.literal('t2incon_format_specification')),
            ('mulgrid_format', mg.literal('mulgrid_format_specification'))]


def gen_format_tables(repo):
    tabs = format_tables(repo)
    text = TABLES_HEADER + '\n'.join(emit_format_table(n, t) for n, t in tabs)
    text += '\nDefinition all_tables := [("t2data", t2data_format); ("t2data_extra_precision", t2data_extra_format); ("t2incon", t2incon_format); ("mulgrid", mulgrid_format)].\n'
    return text, tabs
