"""./check Cxx [--tier quick|thorough] [--replay FILE]"""
import sys, os, json, importlib, argparse, traceback
sys.path.insert(0, os.path.dirname(os.path.abspath(__file__)))
import vf


def main():
    ap = argparse.ArgumentParser()
    ap.add_argument('pid')
    ap.add_argument('--tier', default=os.environ.get('VERIF_TIER', 'quick'))
    ap.add_argument('--replay')
    a = ap.parse_args()
    tier = a.tier if a.tier in ('quick', 'thorough') else 'quick'
    try: seed = int(os.environ.get('VERIF_SEED', '0'))
    except ValueError: seed = 0
    mod = importlib.import_module('props.' + a.pid)
    ctx = vf.Ctx(a.pid, tier, seed)
    if a.replay:
        data = json.load(open(a.replay))
        still = mod.replay(ctx, data)
        if still:
            print('VIOLATION property=%s replay=%s' % (a.pid, os.path.abspath(a.replay)))
            return 1
        print('replay no longer fails')
        return 0
    try:
        return mod.run(ctx)
    except Exception:
        # the machinery itself crashed: fail closed, never silently pass
        traceback.print_exc()
        ctx.proof_failures.append({'kind': 'harness', 'name': 'check-crashed', 'detail': traceback.format_exc()[-3000:]})
        return ctx.finish()


if __name__ == '__main__':
    sys.exit(main())
