(* universal driver: one case per input line -> one canonical result line *)
let explode s = List.init (String.length s) (String.get s)
let implode l = let b = Buffer.create 64 in List.iter (Buffer.add_char b) l; Buffer.contents b
let () =
  try
    while true do
      let l = input_line stdin in
      print_string (implode (Drv.run_case (explode l))); print_char '\n'
    done
  with End_of_file -> ()
