(** C20 -- executable model of the pieces of t2data.json() the property names:
    eos_json (EOS recognition), rocks_json (rock cell lists), generators_json (sources
    with their cell indices), at the level of the structure, not the full JSON. *)
From Coq Require Import Ascii String List Bool Arith ZArith NArith Lia.
From PTBase Require Import Exn PyStr PyNum PyVal.
From P Require Import Lang Convert.
From Gen Require Import GenConvert.
Import ListNotations.

Inductive eosarg := EANone | EAInt (z : Z) | EAStr (s : str).
(** what json() is called with / reads besides the data object: the geometry's
    block_name_list and num_atmosphere_blocks, atmos_volume (exact fraction), the [eos]
    argument, len(parameter['default_incons']), and whether self.diffusion is a uniform
    negative array (only looked at for the diffusion EOS) *)
Record xin := {
  x_d : data;
  x_geo : list str;
  x_natm : Z;
  x_atmos : Z * Z;
  x_eos : eosarg;
  x_ninc : nat;
  x_diff_ok : bool;
  (* initial conditions, each value standing for a vector of primary variables: PARAM default, INDOM by rock type
     name, INCON by block name (what effective_incons combines) *)
  x_default : Z;
  x_indom : list (str * Z);
  x_incon : list (str * Z) }.

(** * eos_json *)
Fixpoint assoc_z {A} (k : Z) (l : list (Z * A)) : option A :=
  match l with [] => None | (k', v) :: r => if Z.eqb k k' then Some v else assoc_z k r end.
(** [for eosname in supported_eos.keys(): if sim.endswith(eosname): aut2eosname = eosname] *)
Fixpoint last_suffix_match (s : str) (keys : list string) (acc : str) : str :=
  match keys with
  | [] => acc
  | k :: r => last_suffix_match s r (if suffix (s2l k) s then s2l k else acc)
  end.
Definition eos_from_multi (m : pydict) : res str :=
  if dtruthy m then
    match dget (s2l eos_multi_key) m with
    | None | Some MNone => Ok []
    | Some (MStr s) => Ok (match s with [] => [] | _ => strip s end)
    | Some (MInt z) => if Z.eqb z 0 then Ok [] else Raise AttributeError
    | Some MOther => Raise AttributeError
    end
  else Ok [].
Definition aut2eosname (x : xin) : res str :=
  match x_eos x with
  | EANone =>
      do a <- eos_from_multi (multi (x_d x));
      Ok (if negb (nonempty a) && nonempty (simulator (x_d x))
          then last_suffix_match (strip (simulator (x_d x))) (map fst supported_eos) a else a)
  | EAInt z => Ok (match assoc_z z eos_from_index with Some n => s2l n | None => [] end)
  | EAStr s => Ok s
  end.
(** result: the Waiwera EOS name and whether tracer data is produced *)
Definition eos_json (x : xin) : res (str * bool) :=
  do a <- aut2eosname x;
  match a with
  | [] => Raise PlainException                       (* EOS not detected *)
  | _ =>
      match assoc_str a supported_eos with
      | None => Raise PlainException                 (* EOS not supported *)
      | Some w =>
          if str_eqb (s2l w) (s2l temperature_eos) && (x_ninc x <? 2)%nat then Raise IndexError
          else if existsb (fun t => str_eqb a (s2l t)) tracer_eos then
            if str_eqb a (s2l diffusion_eos) && negb (x_diff_ok x) then Raise PlainException
            else Ok (s2l w, true)
          else Ok (s2l w, false)
      end
  end.

(** * rocks_json *)
Definition nonbdy (x : xin) (b : blockrec) : bool :=
  let '(n, d) := b_vol b in let '(an, ad) := x_atmos x in
  ((0 <? n) && (n * ad <? an * d))%Z.
Definition grid_lookup (x : xin) (n : str) : option blockrec :=
  find (fun b => str_eqb n (b_name b)) (grid_blocks (x_d x)).
(** dict built by enumeration: the last position wins *)
Fixpoint last_index_from (i : nat) (n : str) (l : list str) : option nat :=
  match l with
  | [] => None
  | y :: r => match last_index_from (S i) n r with Some j => Some j | None => if str_eqb n y then Some i else None end
  end.
Definition last_index (n : str) (l : list str) : option nat := last_index_from 0 n l.
Definition rock_index (x : xin) (n : str) : option nat := last_index n (map r_name (rocks (x_d x))).
Definition geo_index (x : xin) (n : str) : option Z := option_map Z.of_nat (last_index n (x_geo x)).
Definition cell_index (x : xin) (n : str) : option Z := option_map (fun i => (i - x_natm x)%Z) (geo_index x n).
Definition opt_nat_eqb (a : option nat) (b : nat) : bool := match a with Some n => Nat.eqb n b | None => false end.
(** does the block named [n] go into the cell list of rock number [r]? *)
Definition in_rock (x : xin) (r : nat) (n : str) : bool :=
  match grid_lookup x n with
  | Some b => nonbdy x b && opt_nat_eqb (rock_index x (b_rock b)) r
  | None => false
  end.
Definition cells_of_rock (x : xin) (r : nat) : list Z :=
  flat_map (fun n => if in_rock x r n then match cell_index x n with Some c => [c] | None => [] end else []) (x_geo x).
Definition block_ok (x : xin) (n : str) : bool :=
  match grid_lookup x n with
  | Some b => if nonbdy x b then match rock_index x (b_rock b) with Some _ => true | None => false end else true
  | None => false
  end.
Definition rocks_cells (x : xin) : res (list (list Z)) :=
  if forallb (block_ok x) (x_geo x) then Ok (map (cells_of_rock x) (seq 0 (length (rocks (x_d x)))))
  else Raise KeyError.

(** * generators_json: the source list *)
Definition use_block_names (d : data) : bool := (length (gendict d) <? length (genlist d))%nat.
Fixpoint used_get (k : str) (u : list (str * nat)) : option nat :=
  match u with [] => None | (k', v) :: r => if str_eqb k k' then Some v else used_get k r end.
Fixpoint used_set (k : str) (v : nat) (u : list (str * nat)) : list (str * nat) :=
  match u with [] => [(k, v)] | (k', v') :: r => if str_eqb k k' then (k', v) :: r else (k', v') :: used_set k v r end.
Definition show_nat (n : nat) : str := z_to_str (Z.of_nat n).
Definition unique_name (ubn : bool) (g : genrec) (used : list (str * nat)) : str * list (str * nat) :=
  match g_name g with
  | [] => ([], used)
  | _ =>
      let name := if ubn then rjust 5 (g_block g) ++ rjust 5 (g_name g) else g_name g in
      match used_get name used with
      | Some k => (name ++ s2l "_" ++ show_nat k, used_set name (S k) used)
      | None => (name, used_set name 1 used)
      end
  end.
Definition source_cell (x : xin) (g : genrec) : option Z :=
  match cell_index x (g_block g) with
  | Some c => if (c <? 0)%Z then None else Some c
  | None => None
  end.
Definition is_group (g : genrec) : bool := str_eqb (g_type g) (s2l group_type).
Definition in_types (t : str) (l : list string) : bool := existsb (fun a => str_eqb t (s2l a)) l.
(** the generator_json dispatch chain: is [t] handled by delv_generator_json? *)
Fixpoint dispatched_to (fn : str) (t : str) (l : list (string * list string)) : bool :=
  match l with
  | [] => false
  | (f, ts) :: r => if in_types t ts then str_eqb (s2l f) fn else dispatched_to fn t r
  end.
Definition delv_dispatched (t : str) : bool := dispatched_to (s2l "delv_generator_json") t generator_dispatch.
(** exceptions the source part can raise on numeric generator data *)
Definition gen_raises (g : genrec) : bool :=
  in_types (g_type g) unsupported_types
  || (delv_dispatched (g_type g) && match g_ltab g with Some l => (1 <? l)%Z | None => false end)
  || (is_group g && negb (in_types (g_type g) reinjection_contributors)
      && match g_hg g with None => true | Some s => (0 <=? s)%Z end).
Fixpoint sources_loop (x : xin) (ubn : bool) (ids : list nat) (used : list (str * nat)) : res (list (str * option Z)) :=
  match ids with
  | [] => Ok []
  | id :: r =>
      let g := hget id (heap (x_d x)) in
      if gen_raises g then Raise PlainException
      else let '(nm, used') := unique_name ubn g used in
           do rest <- sources_loop x ubn r used';
           Ok (if is_group g then rest else (nm, source_cell x g) :: rest)
  end.
Definition sources (x : xin) : res (list (str * option Z)) :=
  sources_loop x (use_block_names (x_d x)) (genlist (x_d x)) [].

(** * the geometry's block order (mulgrid.setup_block_name_index): atmosphere blocks first, then the underground
      blocks by layer and column, or (dmplex) the 8-node blocks followed by the 6-node blocks *)
Inductive border := BONone | BOLayerColumn | BODmplex.
Record geom := { gm_atm : list str; gm_under : list (str * nat); gm_order : border }.
Definition nodes_are (k : nat) (p : str * nat) : bool := Nat.eqb (snd p) k.
Definition dmplex_list (u : list (str * nat)) : res (list str) :=
  if forallb (fun p => nodes_are 6 p || nodes_are 8 p) u
  then Ok (map fst (filter (nodes_are 8) u) ++ map fst (filter (nodes_are 6) u))
  else Raise PlainException.
Definition block_name_list (g : geom) : res (list str) :=
  match gm_order g with
  | BONone | BOLayerColumn => Ok (gm_atm g ++ map fst (gm_under g))
  | BODmplex => do l <- dmplex_list (gm_under g); Ok (gm_atm g ++ l)
  end.

(** * effective_incons + initial_json: one value per cell, in geometry order *)
Fixpoint zget (k : str) (l : list (str * Z)) : option Z :=
  match l with [] => None | (k', v) :: r => if str_eqb k k' then Some v else zget k r end.
(** the value effective_incons files under block name [n] *)
Definition eff_incon (x : xin) (n : str) : option Z :=
  match zget n (x_incon x) with
  | Some v => Some v
  | None => match grid_lookup x n with
            | Some b => Some (match zget (b_rock b) (x_indom x) with Some v => v | None => x_default x end)
            | None => None
            end
  end.
Definition nat_of_z (z : Z) : nat := Z.to_nat z.
Definition uniform_incons (x : xin) : bool := match x_indom x, x_incon x with [], [] => true | _, _ => false end.
Definition underground (x : xin) : list str := skipn (nat_of_z (x_natm x)) (x_geo x).
Fixpoint lookup_all (x : xin) (l : list str) : res (list Z) :=
  match l with
  | [] => Ok []
  | n :: r => match eff_incon x n with None => Raise KeyError | Some v => do rest <- lookup_all x r; Ok (v :: rest) end
  end.
Definition initial_cells (x : xin) : res (list Z) :=
  if uniform_incons x then Ok (map (fun _ => x_default x) (underground x)) else lookup_all x (underground x).

(** * boundaries_json: the faces of the boundary blocks *)
Definition other_end (bn : str) (c : str * str) : option str :=
  if str_eqb (fst c) bn then Some (snd c) else if str_eqb (snd c) bn then Some (fst c) else None.
Definition is_interior (x : xin) (n : str) : option bool := option_map (nonbdy x) (grid_lookup x n).
(** cells of the faces of boundary block [bn]: one per connection to an interior block *)
Fixpoint face_cells (x : xin) (bn : str) (cs : list (str * str)) : res (list Z) :=
  match cs with
  | [] => Ok []
  | c :: r =>
      match other_end bn c with
      | None => face_cells x bn r
      | Some o =>
          match is_interior x o with
          | None => Raise KeyError
          | Some false => face_cells x bn r
          | Some true => match cell_index x o with
                         | None => Raise KeyError
                         | Some ci => do rest <- face_cells x bn r; Ok (ci :: rest)
                         end
          end
      end
  end.
(** boundary value of a block: what effective_incons holds for it (the list of defaults when uniform) *)
Definition bdy_value (x : xin) (n : str) : res Z :=
  if uniform_incons x then Ok (x_default x) else match eff_incon x n with Some v => Ok v | None => Raise KeyError end.
Fixpoint boundary_loop (x : xin) (bl : list blockrec) : res (list (str * (Z * list Z))) :=
  match bl with
  | [] => Ok []
  | b :: r =>
      if nonbdy x b then boundary_loop x r
      else do v <- bdy_value x (b_name b);
           do cells <- face_cells x (b_name b) (grid_conns (x_d x));
           do rest <- boundary_loop x r;
           Ok (match cells with [] => rest | _ => (b_name b, (v, cells)) :: rest end)
  end.
Definition boundary_faces (x : xin) : res (list (str * (Z * list Z))) := boundary_loop x (grid_blocks (x_d x)).
