(** C20 -- the Waiwera export statements over WaiweraJson.v: rock cell lists partition the
    non-boundary blocks, sources carry the cell index of their block, one source per non-group
    generator, EOS recognition from the EOS entry or the simulator string. *)
From Coq Require Import Ascii String List Bool Arith ZArith Lia.
From PTBase Require Import Exn PyStr.
From P Require Import Lang Convert SectionLemmas ConvertLemmas WaiweraJson.
From Gen Require Import GenConvert.
Import ListNotations.

(** * dict-by-enumeration: the index found is a position holding the name *)
Lemma last_index_from_spec n l : forall i j, last_index_from i n l = Some j -> i <= j /\ nth_error l (j - i) = Some n.
Proof.
  induction l as [|y r IH]; intros i j H; cbn [last_index_from] in H; [discriminate|].
  destruct (last_index_from (S i) n r) as [j'|] eqn:E.
  - inversion H. subst j'. destruct (IH _ _ E) as [L N]. split; [lia|]. replace (j - i) with (S (j - S i)) by lia. exact N.
  - destruct (str_eqb n y) eqn:Q; [|discriminate]. inversion H. subst j. apply str_eqb_eq in Q. subst y.
    split; [lia|]. rewrite Nat.sub_diag. reflexivity.
Qed.
Lemma last_index_spec n l j : last_index n l = Some j -> nth_error l j = Some n.
Proof. intro H. destruct (last_index_from_spec _ _ _ _ H) as [_ N]. rewrite Nat.sub_0_r in N. exact N. Qed.
Lemma last_index_from_In n l : In n l -> forall i, exists j, last_index_from i n l = Some j.
Proof.
  induction l as [|y r IH]; intros I i; [destruct I|]. cbn [last_index_from].
  destruct (last_index_from (S i) n r) as [j'|] eqn:E; [exists j'; reflexivity|].
  destruct I as [I|I].
  - subst y. rewrite str_eqb_refl. exists i. reflexivity.
  - destruct (IH I (S i)) as [j Hj]. rewrite Hj in E. discriminate.
Qed.
Lemma last_index_In n l : In n l -> exists j, last_index n l = Some j.
Proof. intro I. apply last_index_from_In. exact I. Qed.
Lemma last_index_inj n m l j : last_index n l = Some j -> last_index m l = Some j -> n = m.
Proof. intros A B. apply last_index_spec in A. apply last_index_spec in B. rewrite A in B. inversion B. reflexivity. Qed.
Lemma last_index_lt n l j : last_index n l = Some j -> j < length l.
Proof. intro A. apply last_index_spec in A. apply nth_error_Some. rewrite A. discriminate. Qed.

(** the cell index of a block is its position in the geometry's block list minus the atmosphere blocks *)
Lemma cell_index_spec x n c : cell_index x n = Some c ->
  exists i, nth_error (x_geo x) i = Some n /\ c = (Z.of_nat i - x_natm x)%Z.
Proof.
  unfold cell_index, geo_index. destruct (last_index n (x_geo x)) as [i|] eqn:E; [|discriminate]. cbn [option_map].
  intro H. inversion H. exists i. split; [apply last_index_spec; exact E|reflexivity].
Qed.
Lemma cell_index_In x n : In n (x_geo x) -> exists c, cell_index x n = Some c.
Proof. intro I. destruct (last_index_In _ _ I) as [j E]. unfold cell_index, geo_index. rewrite E. eexists. reflexivity. Qed.
Lemma cell_index_inj x n m c : cell_index x n = Some c -> cell_index x m = Some c -> n = m.
Proof.
  unfold cell_index, geo_index. destruct (last_index n (x_geo x)) as [i|] eqn:A; [|discriminate].
  destruct (last_index m (x_geo x)) as [j|] eqn:B; [|discriminate]. cbn [option_map]. intros H1 H2.
  inversion H1. inversion H2. assert (i = j) by lia. subst j. eapply last_index_inj; eassumption.
Qed.

(** * rocks_json: the cell lists *)
Lemma nth_map_seq {A} (f : nat -> list A) N r c : In c (nth r (map f (seq 0 N)) []) <-> r < N /\ In c (f r).
Proof.
  destruct (Nat.lt_ge_cases r N) as [L|L].
  - rewrite (nth_indep _ [] (f 0)) by (rewrite map_length, seq_length; exact L).
    rewrite map_nth. rewrite seq_nth by exact L. cbn [plus]. tauto.
  - rewrite nth_overflow by (rewrite map_length, seq_length; exact L). split; [intros []|lia].
Qed.
Lemma In_cells_of_rock x r c : In c (cells_of_rock x r) <->
  exists n, In n (x_geo x) /\ in_rock x r n = true /\ cell_index x n = Some c.
Proof.
  unfold cells_of_rock. rewrite in_flat_map. split.
  - intros [n [I H]]. exists n. split; [exact I|]. destruct (in_rock x r n); [|destruct H].
    destruct (cell_index x n) as [c'|]; [|destruct H]. destruct H as [H|[]]. subst c'. split; reflexivity.
  - intros [n [I [R C]]]. exists n. split; [exact I|]. rewrite R, C. left. reflexivity.
Qed.
Lemma opt_nat_eqb_eq a b : opt_nat_eqb a b = true <-> a = Some b.
Proof. destruct a as [n|]; cbn [opt_nat_eqb]; [rewrite Nat.eqb_eq|]; split; intro H; try discriminate; [subst; reflexivity|inversion H; reflexivity]. Qed.

Definition rock_cells_spec (x : xin) (cl : list (list Z)) : Prop :=
  length cl = length (rocks (x_d x)) /\
  (forall r c, In c (nth r cl []) <->
     exists n b, In n (x_geo x) /\ grid_lookup x n = Some b /\ nonbdy x b = true /\
                 rock_index x (b_rock b) = Some r /\ cell_index x n = Some c) /\
  (forall n, In n (x_geo x) -> exists b c, grid_lookup x n = Some b /\ cell_index x n = Some c /\
     (nonbdy x b = true -> exists r, r < length cl /\ In c (nth r cl []) /\ forall r', In c (nth r' cl []) -> r' = r) /\
     (nonbdy x b = false -> forall r', ~ In c (nth r' cl []))).

Theorem rock_cells_partition_lemma x cl : rocks_cells x = Ok cl -> rock_cells_spec x cl.
Proof.
  unfold rocks_cells. destruct (forallb (block_ok x) (x_geo x)) eqn:F; [|discriminate]. intro H. apply Ok_inj in H.
  rewrite forallb_forall in F.
  assert (M : forall r c, In c (nth r cl []) <->
     exists n b, In n (x_geo x) /\ grid_lookup x n = Some b /\ nonbdy x b = true /\
                 rock_index x (b_rock b) = Some r /\ cell_index x n = Some c).
  { intros r c. subst cl. rewrite nth_map_seq. rewrite In_cells_of_rock. split.
    - intros [L [n [I [R C]]]]. unfold in_rock in R. destruct (grid_lookup x n) as [b|] eqn:G; [|discriminate].
      apply andb_true_iff in R as [R1 R2]. apply opt_nat_eqb_eq in R2. exists n, b. repeat split; assumption.
    - intros [n [b [I [G [N [R C]]]]]]. split.
      + unfold rock_index in R. apply last_index_lt in R. rewrite map_length in R. exact R.
      + exists n. split; [exact I|]. split; [|exact C]. unfold in_rock. rewrite G, N. cbn [andb]. apply opt_nat_eqb_eq. exact R. }
  split; [|split].
  - subst cl. rewrite map_length, seq_length. reflexivity.
  - exact M.
  - intros n I. pose proof (F n I) as B. unfold block_ok in B. destruct (grid_lookup x n) as [b|] eqn:G; [|discriminate].
    destruct (cell_index_In x n I) as [c C]. exists b, c. split; [reflexivity|]. split; [exact C|]. split.
    + intro N. rewrite N in B. destruct (rock_index x (b_rock b)) as [r|] eqn:R; [|discriminate]. exists r. split; [|split].
      * subst cl. rewrite map_length, seq_length. unfold rock_index in R. apply last_index_lt in R. rewrite map_length in R. exact R.
      * apply M. exists n, b. repeat split; assumption.
      * intros r' I'. apply M in I'. destruct I' as [n' [b' [_ [G' [_ [R' C']]]]]].
        assert (n' = n) by (eapply cell_index_inj; eassumption). subst n'. rewrite G in G'. inversion G'. subst b'.
        rewrite R in R'. inversion R'. reflexivity.
    + intros N r' I'. apply M in I'. destruct I' as [n' [b' [_ [G' [N' [_ C']]]]]].
      assert (n' = n) by (eapply cell_index_inj; eassumption). subst n'. rewrite G in G'. inversion G'. subst b'. rewrite N in N'. discriminate.
Qed.

(** each cell list is duplicate-free when the geometry's block names are *)
Lemma NoDup_flat_map_opt {A B} (g : A -> list B) l :
  NoDup l -> (forall a, In a l -> length (g a) <= 1) ->
  (forall a b c, In a l -> In b l -> In c (g a) -> In c (g b) -> a = b) -> NoDup (flat_map g l).
Proof.
  induction 1 as [|a l NI ND IH]; intros L J; cbn [flat_map]; [constructor|].
  assert (IHl : NoDup (flat_map g l)).
  { apply IH; [intros b Ib; apply L; right; exact Ib|]. intros b b' c Ib Ib'. apply J; right; assumption. }
  assert (D : forall c, In c (g a) -> ~ In c (flat_map g l)).
  { intros c Ic Ic'. apply in_flat_map in Ic'. destruct Ic' as [b [Ib Icb]]. apply NI.
    rewrite (J a b c (or_introl eq_refl) (or_intror Ib) Ic Icb). exact Ib. }
  pose proof (L a (or_introl eq_refl)) as La. destruct (g a) as [|c [|c' r]] eqn:E; cbn [length] in La; try lia.
  - exact IHl.
  - cbn [app]. constructor; [apply D; left; reflexivity|exact IHl].
Qed.
Theorem rock_cells_nodup_lemma x r : NoDup (x_geo x) -> NoDup (cells_of_rock x r).
Proof.
  intro ND. unfold cells_of_rock. apply NoDup_flat_map_opt; [exact ND| |].
  - intros n _. destruct (in_rock x r n); [|cbn; lia]. destruct (cell_index x n); cbn; lia.
  - intros a b c _ _ Ia Ib. destruct (in_rock x r a); [|destruct Ia]. destruct (in_rock x r b); [|destruct Ib].
    destruct (cell_index x a) as [ca|] eqn:Ca; [|destruct Ia]. destruct (cell_index x b) as [cb|] eqn:Cb; [|destruct Ib].
    destruct Ia as [Ia|[]]. destruct Ib as [Ib|[]]. subst ca cb. eapply cell_index_inj; eassumption.
Qed.

(** * generators_json: the source list *)
Definition nongroup (x : xin) (id : nat) : bool := negb (is_group (hget id (heap (x_d x)))).
Lemma sources_loop_spec x ubn ids : forall used l, sources_loop x ubn ids used = Ok l ->
  map snd l = map (fun id => source_cell x (hget id (heap (x_d x)))) (filter (nongroup x) ids).
Proof.
  induction ids as [|id r IH]; intros used l H; cbn [sources_loop] in H.
  - apply Ok_inj in H. subst l. reflexivity.
  - destruct (gen_raises (hget id (heap (x_d x)))); [discriminate|].
    destruct (unique_name ubn (hget id (heap (x_d x))) used) as [nm used'].
    destruct (sources_loop x ubn r used') as [rest|] eqn:E; [|discriminate]. cbn [bind] in H. apply Ok_inj in H.
    specialize (IH _ _ E). cbn [filter]. unfold nongroup at 1. destruct (is_group (hget id (heap (x_d x)))); cbn [negb]; subst l.
    + exact IH.
    + cbn [map snd]. f_equal. exact IH.
Qed.
Theorem sources_lemma x l : sources x = Ok l ->
  map snd l = map (fun id => source_cell x (hget id (heap (x_d x)))) (filter (nongroup x) (genlist (x_d x))) /\
  length l = length (filter (nongroup x) (genlist (x_d x))).
Proof.
  intro H. pose proof (sources_loop_spec _ _ _ _ _ H) as S. split; [exact S|].
  rewrite <- (map_length snd l), S, map_length. reflexivity.
Qed.
Lemma source_cell_spec x g c : source_cell x g = Some c <-> cell_index x (g_block g) = Some c /\ (0 <= c)%Z.
Proof.
  unfold source_cell. destruct (cell_index x (g_block g)) as [c'|]; [|split; [discriminate|intros [H _]; discriminate]].
  destruct (c' <? 0)%Z eqn:E.
  - apply Z.ltb_lt in E. split; [discriminate|]. intros [H L]. inversion H. lia.
  - apply Z.ltb_ge in E. split; intro H; [inversion H; subst; split; [reflexivity|exact E]|destruct H as [H _]; exact H].
Qed.

(** * eos_json *)
Lemma prefix_shorter a : forall b s, prefix a s = true -> prefix b s = true -> length a <= length b -> prefix a b = true.
Proof.
  induction a as [|x a IH]; intros b s A B L; [reflexivity|].
  destruct b as [|y b]; cbn [length] in L; [lia|]. destruct s as [|z s]; cbn [prefix] in A, B; [discriminate|].
  apply andb_true_iff in A as [A1 A2]. apply andb_true_iff in B as [B1 B2]. cbn [prefix].
  unfold ceqb in *. apply Ascii.eqb_eq in A1. apply Ascii.eqb_eq in B1. subst. rewrite Ascii.eqb_refl. cbn [andb].
  apply (IH b s A2 B2). lia.
Qed.
Lemma suffix_shorter a b s : suffix a s = true -> suffix b s = true -> length a <= length b -> suffix a b = true.
Proof. unfold suffix. intros A B L. apply (prefix_shorter _ _ _ A B). rewrite !rev_length. exact L. Qed.

(** the scan over supported_eos.keys(): the last key that is a suffix wins *)
Lemma last_suffix_match_spec s keys : forall acc,
  (last_suffix_match s keys acc = acc /\ forall k, In k keys -> suffix (s2l k) s = false) \/
  (exists pre k post, keys = pre ++ k :: post /\ suffix (s2l k) s = true /\
     (forall k', In k' post -> suffix (s2l k') s = false) /\ last_suffix_match s keys acc = s2l k).
Proof.
  induction keys as [|k0 r IH]; intro acc; cbn [last_suffix_match]; [left; split; [reflexivity|intros k []]|].
  destruct (IH (if suffix (s2l k0) s then s2l k0 else acc)) as [[E N]|[pre [k [post [E [S [N R]]]]]]].
  - destruct (suffix (s2l k0) s) eqn:S0.
    + right. exists [], k0, r. repeat split; assumption.
    + left. split; [exact E|]. intros k [I|I]; [subst; exact S0|apply N; exact I].
  - right. exists (k0 :: pre), k, post. subst r. repeat split; assumption.
Qed.
(** a later key is never a proper suffix of an earlier one: then "last match" is "longest match" *)
Fixpoint suffix_order_ok (l : list string) : bool :=
  match l with
  | [] => true
  | k' :: r => forallb (fun k => negb (suffix (s2l k) (s2l k')) || str_eqb (s2l k) (s2l k')) r && suffix_order_ok r
  end.
Lemma suffix_order_spec pre : forall k post, suffix_order_ok (pre ++ k :: post) = true ->
  forall k', In k' pre -> suffix (s2l k) (s2l k') = true -> s2l k = s2l k'.
Proof.
  induction pre as [|p pre IH]; intros k post H k' I S; [destruct I|]. cbn [app suffix_order_ok] in H.
  apply andb_true_iff in H as [H1 H2]. destruct I as [I|I].
  - subst p. rewrite forallb_forall in H1. assert (Ik : In k (pre ++ k :: post)) by (apply in_or_app; right; left; reflexivity). specialize (H1 k Ik).
    rewrite S in H1. cbn [negb orb] in H1. apply str_eqb_eq. exact H1.
  - apply (IH _ _ H2 _ I S).
Qed.
Lemma supported_eos_order : suffix_order_ok (map fst supported_eos) = true.
Proof. vm_compute. reflexivity. Qed.
Theorem eos_longest_suffix_lemma s k :
  In k (map fst supported_eos) -> suffix (s2l k) s = true ->
  (forall k', In k' (map fst supported_eos) -> suffix (s2l k') s = true -> length (s2l k') <= length (s2l k)) ->
  last_suffix_match s (map fst supported_eos) [] = s2l k.
Proof.
  intros I S L. destruct (last_suffix_match_spec s (map fst supported_eos) []) as [[_ N]|[pre [kr [post [E [Sr [N R]]]]]]].
  - rewrite (N k I) in S. discriminate.
  - rewrite R. rewrite E in I. apply in_app_or in I as [I|[I|I]].
    + pose proof supported_eos_order as O. rewrite E in O.
      apply (suffix_order_spec _ _ _ O _ I). apply (suffix_shorter _ _ s Sr S). apply L; [|exact Sr].
      rewrite E. apply in_or_app. right. left. reflexivity.
    + subst kr. reflexivity.
    + rewrite (N k I) in S. discriminate.
Qed.
Theorem eos_no_suffix_lemma s : (forall k, In k (map fst supported_eos) -> suffix (s2l k) s = false) ->
  last_suffix_match s (map fst supported_eos) [] = [].
Proof.
  intro N. destruct (last_suffix_match_spec s (map fst supported_eos) []) as [[E _]|[pre [kr [post [E [Sr _]]]]]]; [exact E|].
  rewrite N in Sr; [discriminate|]. rewrite E. apply in_or_app. right. left. reflexivity.
Qed.

(** which name the export settles on *)
Definition multi_eos_entry (d : data) : str :=
  match dget (s2l eos_multi_key) (multi d) with Some (MStr s) => strip s | _ => [] end.
Definition multi_entry_ok (d : data) : Prop :=
  match dget (s2l eos_multi_key) (multi d) with Some (MStr _) | Some MNone | None => True | Some (MInt z) => z = 0%Z | Some MOther => False end.
Lemma strip_nil : strip [] = [].
Proof. reflexivity. Qed.
Lemma eos_from_multi_spec d : multi_entry_ok d -> eos_from_multi (multi d) = Ok (multi_eos_entry d).
Proof.
  unfold multi_entry_ok, eos_from_multi, multi_eos_entry. destruct (dtruthy (multi d)) eqn:T.
  - destruct (dget (s2l eos_multi_key) (multi d)) as [[|z|s|]|]; intro H; try reflexivity; try contradiction.
    + subst z. reflexivity.
    + destruct s; reflexivity.
  - destruct (multi d); [|discriminate]. reflexivity.
Qed.
(** from the EOS entry *)
Theorem eos_name_from_entry_lemma x : x_eos x = EANone -> multi_entry_ok (x_d x) -> multi_eos_entry (x_d x) <> [] ->
  aut2eosname x = Ok (multi_eos_entry (x_d x)).
Proof.
  intros E M N. unfold aut2eosname. rewrite E, (eos_from_multi_spec _ M). cbn [bind].
  destruct (multi_eos_entry (x_d x)); [contradiction|reflexivity].
Qed.
(** from the simulator string, when there is no usable EOS entry *)
Theorem eos_name_from_simulator_lemma x : x_eos x = EANone -> multi_entry_ok (x_d x) -> multi_eos_entry (x_d x) = [] ->
  simulator (x_d x) <> [] ->
  aut2eosname x = Ok (last_suffix_match (strip (simulator (x_d x))) (map fst supported_eos) []).
Proof.
  intros E M N S. unfold aut2eosname. rewrite E, (eos_from_multi_spec _ M), N. cbn [bind nonempty negb andb].
  destruct (simulator (x_d x)); [contradiction|reflexivity].
Qed.
(** a recognised, supported name is exported (the two guards are those of eos_json itself) *)
Definition eos_guards (x : xin) (a : str) (w : string) : Prop :=
  (str_eqb (s2l w) (s2l temperature_eos) = true -> 2 <= x_ninc x) /\
  (str_eqb a (s2l diffusion_eos) = true -> x_diff_ok x = true).
Theorem eos_json_detects_lemma x a w : aut2eosname x = Ok a -> a <> [] -> assoc_str a supported_eos = Some w -> eos_guards x a w ->
  eos_json x = Ok (s2l w, existsb (fun t => str_eqb a (s2l t)) tracer_eos).
Proof.
  intros A N W [G1 G2]. unfold eos_json. rewrite A. cbn [bind]. destruct a as [|c r]; [contradiction|]. rewrite W.
  destruct (str_eqb (s2l w) (s2l temperature_eos)) eqn:T; cbn [andb].
  - specialize (G1 eq_refl). destruct (Nat.ltb (x_ninc x) 2) eqn:L; [apply Nat.ltb_lt in L; lia|].
    destruct (existsb _ tracer_eos); [|reflexivity].
    destruct (str_eqb (c :: r) (s2l diffusion_eos)) eqn:D; cbn [andb]; [rewrite (G2 eq_refl)|]; reflexivity.
  - destruct (existsb _ tracer_eos); [|reflexivity].
    destruct (str_eqb (c :: r) (s2l diffusion_eos)) eqn:D; cbn [andb]; [rewrite (G2 eq_refl)|]; reflexivity.
Qed.
(** and nothing else is: a successful export names a supported EOS that was recognised *)
Theorem eos_json_sound_lemma x wn tr : eos_json x = Ok (wn, tr) ->
  exists a w, aut2eosname x = Ok a /\ a <> [] /\ assoc_str a supported_eos = Some w /\ wn = s2l w /\
              tr = existsb (fun t => str_eqb a (s2l t)) tracer_eos.
Proof.
  unfold eos_json. destruct (aut2eosname x) as [a|]; [|discriminate]. cbn [bind]. destruct a as [|c r]; [discriminate|].
  destruct (assoc_str (c :: r) supported_eos) as [w|] eqn:W; [|discriminate].
  destruct (str_eqb (s2l w) (s2l temperature_eos) && Nat.ltb (x_ninc x) 2); [discriminate|].
  destruct (existsb (fun t => str_eqb (c :: r) (s2l t)) tracer_eos) eqn:T.
  - destruct (str_eqb (c :: r) (s2l diffusion_eos) && negb (x_diff_ok x)); [discriminate|]. intro H. apply Ok_inj in H.
    inversion H. subst. exists (c :: r), w. split; [reflexivity|]. split; [discriminate|]. split; [exact W|]. split; [reflexivity|].
    symmetry. exact T.
  - intro H. apply Ok_inj in H. inversion H. subst. exists (c :: r), w. split; [reflexivity|]. split; [discriminate|].
    split; [exact W|]. split; [reflexivity|]. symmetry. exact T.
Qed.
(** every supported name, given exactly, is its own longest suffix (the table is consistent with itself) *)
Lemma every_supported_eos_detected :
  forallb (fun k => str_eqb (last_suffix_match (s2l k) (map fst supported_eos) []) (s2l k)) (map fst supported_eos) = true.
Proof. vm_compute. reflexivity. Qed.
