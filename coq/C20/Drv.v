(** extraction of the executable C20 models for the correspondence runs.
    One case per line (TAB separated, strings hex-encoded behind a one-letter tag);
    see tools/props/C20.py for the serialiser on the Python side. *)
From Coq Require Import Ascii String List Bool Arith ZArith NArith.
From PTBase Require Import Exn PyStr PyNum PyVal Wire.
From P Require Import Lang Convert WaiweraJson SourceJson.
From Gen Require Import GenConvert.
Import ListNotations.
Open Scope char_scope.

Definition lst (s : str) : list str := match s with [] => [] | _ => split_c "," s end.
Definition xs (s : str) : str := match s with _ :: r => unhex r | [] => [] end.
Definition pval (s : str) : mval :=
  match s with "N" :: _ => MNone | "I" :: r => MInt (z_of_str r) | "S" :: r => MStr (unhex r) | _ => MOther end.
Definition pdict (s : str) : pydict :=
  map (fun e => match split_c ":" e with [k; v] => (xs k, pval v) | _ => ([], MOther) end) (lst s).
Definition poptz (s : str) : option Z := match s with "N" :: _ => None | _ => Some (z_of_str s) end.
Definition pgen (e : str) : genrec :=
  match split_c ":" e with
  | [b; n; t; l; h; dt] => {| g_block := xs b; g_name := xs n; g_type := xs t; g_ltab := poptz l; g_hg := poptz h; g_data := z_of_str dt |}
  | _ => gen0
  end.
Definition ppair (r : str) : str * str := match split_c "." r with [a; b] => (unhex a, unhex b) | _ => ([], []) end.
Definition pitem (s : str) : item :=
  match s with
  | "B" :: r => IBlock (unhex r)
  | "N" :: r => IName (unhex r)
  | "C" :: r => let p := ppair r in IConn (fst p) (snd p)
  | "T" :: r => let p := ppair r in ITuple (fst p) (snd p)
  | "G" :: r => IGen (nat_of_str r)
  | _ => IName []
  end.
Definition pitems (s : str) : list item := map pitem (lst s).
Definition popt_items (s : str) : option (list item) := match s with ["-"] => None | _ => Some (pitems s) end.
Definition pshort (s : str) : short :=
  match split_c ";" s with
  | [f; b; c; g] => {| so_freq := match f with ["-"] => None | _ => Some (pval f) end;
                       so_block := popt_items b; so_conn := popt_items c; so_gen := popt_items g |}
  | _ => short_empty
  end.
Definition prock (e : str) : rock :=
  match split_c ":" e with [n; k; dt] => {| r_name := xs n; r_scaled := nat_of_str k; r_data := z_of_str dt |} | _ => {| r_name := []; r_scaled := 0; r_data := 0 |} end.
Definition pblock (e : str) : blockrec :=
  match split_c ":" e with
  | [n; r; a; b] => {| b_name := xs n; b_rock := xs r; b_vol := (z_of_str a, z_of_str b) |}
  | _ => {| b_name := []; b_rock := []; b_vol := (0%Z, 1%Z) |}
  end.
Definition pconn (e : str) : str * str := match split_c ":" e with [a; b] => (xs a, xs b) | _ => ([], []) end.
Definition pkey (e : str) : (str * str) * nat := match split_c ":" e with [b; n; i] => ((xs b, xs n), nat_of_str i) | _ => (([], []), 0) end.

Definition pdata (f : list str) : option data :=
  match f with
  | sim :: fn :: secs :: oth :: mu :: lq :: sv :: opts :: hp :: gl :: gd :: sh :: hb :: hc :: hg :: rk :: gb :: gc :: _ =>
      Some {| simulator := xs sim; filename := xs fn; sections := map xs (lst secs); other_present := map xs (lst oth);
              multi := pdict mu; lineq := pdict lq; solver := pdict sv; options := map z_of_str (lst opts);
              heap := map pgen (lst hp); genlist := map nat_of_str (lst gl); gendict := map pkey (lst gd);
              short_output := pshort sh; hist_block := pitems hb; hist_conn := pitems hc; hist_gen := pitems hg;
              rocks := map prock (lst rk); grid_blocks := map pblock (lst gb); grid_conns := map pconn (lst gc) |}
  | _ => None
  end.

(** printers (the same format) *)
Fixpoint joinc (sep : ascii) (l : list str) : str :=
  match l with [] => [] | [a] => a | a :: r => a ++ sep :: joinc sep r end.
Definition sx (s : str) : str := "x" :: hex s.
Definition sval (v : mval) : str :=
  match v with MNone => ["N"] | MInt z => "I" :: show_z z | MStr s => "S" :: hex s | MOther => ["O"] end.
Definition sdict (d : pydict) : str := joinc "," (map (fun kv => sx (fst kv) ++ ":" :: sval (snd kv)) d).
Definition soptz (o : option Z) : str := match o with None => ["N"] | Some z => show_z z end.
Definition sgen (g : genrec) : str :=
  joinc ":" [sx (g_block g); sx (g_name g); sx (g_type g); soptz (g_ltab g); soptz (g_hg g); show_z (g_data g)].
Definition sitem (i : item) : str :=
  match i with
  | IBlock n => "B" :: hex n
  | IName n => "N" :: hex n
  | IConn a b => "C" :: hex a ++ "." :: hex b
  | ITuple a b => "T" :: hex a ++ "." :: hex b
  | IGen id => "G" :: show_nat id
  end.
Definition sitems (l : list item) : str := joinc "," (map sitem l).
Definition sopt_items (o : option (list item)) : str := match o with None => ["-"] | Some l => sitems l end.
Definition sshort (s : short) : str :=
  joinc ";" [match so_freq s with None => ["-"] | Some v => sval v end; sopt_items (so_block s); sopt_items (so_conn s); sopt_items (so_gen s)].
Definition srock (r : rock) : str := joinc ":" [sx (r_name r); show_nat (r_scaled r); show_z (r_data r)].
Definition sblock (b : blockrec) : str := joinc ":" [sx (b_name b); sx (b_rock b); show_z (fst (b_vol b)); show_z (snd (b_vol b))].
Definition sdata (d : data) : str :=
  joinc tab [sx (simulator d); sx (filename d); joinc "," (map sx (sections d)); joinc "," (map sx (other_present d));
             sdict (multi d); sdict (lineq d); sdict (solver d); joinc "," (map show_z (options d));
             joinc "," (map sgen (heap d)); joinc "," (map show_nat (genlist d));
             joinc "," (map (fun kv => joinc ":" [sx (fst (fst kv)); sx (snd (fst kv)); show_nat (snd kv)]) (gendict d));
             sshort (short_output d); sitems (hist_block d); sitems (hist_conn d); sitems (hist_gen d);
             joinc "," (map srock (rocks d)); joinc "," (map sblock (grid_blocks d));
             joinc "," (map (fun c => sx (fst c) ++ ":" :: sx (snd c)) (grid_conns d))].
Definition sres {A} (f : A -> str) (r : res A) : str :=
  match r with Ok a => s2l "OK" ++ tab :: f a | Raise e => s2l "RAISE " ++ show_exn e end.

Definition peos (s : str) : eosarg := match s with "I" :: r => EAInt (z_of_str r) | "S" :: r => EAStr (unhex r) | _ => EANone end.
Definition pzmap (s : str) : list (str * Z) :=
  map (fun e => match split_c ":" e with [k; v] => (xs k, z_of_str v) | _ => ([], 0%Z) end) (lst s).
Definition pxin (d : data) (f : list str) : option xin :=
  match f with
  | geo :: natm :: atm :: eos :: ninc :: dok :: dflt :: indom :: incon :: _ =>
      Some {| x_d := d; x_geo := map xs (lst geo); x_natm := z_of_str natm;
              x_atmos := match split_c ":" atm with [a; b] => (z_of_str a, z_of_str b) | _ => (0%Z, 1%Z) end;
              x_eos := peos eos; x_ninc := nat_of_str ninc; x_diff_ok := str_eqb dok (s2l "1");
              x_default := z_of_str dflt; x_indom := pzmap indom; x_incon := pzmap incon |}
  | _ => None
  end.
(** the geometry op: order tag, atmosphere names, underground (name:nodes) pairs *)
Definition pgeom (f : list str) : option geom :=
  match f with
  | ord :: atm :: und :: _ =>
      Some {| gm_order := if str_eqb ord (s2l "dmplex") then BODmplex else if str_eqb ord (s2l "layer_column") then BOLayerColumn else BONone;
              gm_atm := map xs (lst atm);
              gm_under := map (fun e => match split_c ":" e with [k; v] => (xs k, nat_of_str v) | _ => ([], 0) end) (lst und) |}
  | _ => None
  end.
Definition scell (o : option Z) : str := match o with None => ["N"] | Some z => show_z z end.

(** full sources: numbers as fractions n/d *)
Definition pq (s : str) : Z * Z := match split_c "/" s with [a; b] => (z_of_str a, z_of_str b) | _ => (0%Z, 1%Z) end.
Definition pqlist (s : str) : list (Z * Z) := match s with [] => [] | _ => map pq (split_c "|" s) end.
Definition pgval (e : str) : gval :=
  match split_c "~" e with
  | [gx; ex; fg; hg; tm; rt; en] =>
      {| v_gx := pq gx; v_ex := pq ex; v_fg := pq fg; v_hg := match hg with "N" :: _ => None | _ => Some (pq hg) end;
         v_time := pqlist tm; v_rate := pqlist rt; v_enth := pqlist en |}
  | _ => gval0
  end.
Definition psin (x : xin) (f : list str) : option sin :=
  match f with
  | vals :: tr :: neq :: m12 :: _ =>
      Some {| s_x := x; s_vals := map pgval (lst vals); s_tracer := str_eqb tr (s2l "1"); s_numeq := z_of_str neq; s_mop12 := z_of_str m12 |}
  | _ => None
  end.
Definition show_q (q : Z * Z) : str := "q" :: show_z (fst q) ++ "/" :: show_z (snd q).
Fixpoint show_jv (v : jv) : str :=
  match v with
  | JNum q => show_q q
  | JInt z => "i" :: show_z z
  | JStr t => "s" :: hex (s2l t)
  | JName t => "s" :: hex t
  | JNull => ["N"]
  | JTable rows => "[" :: joinc "," (map (fun r => "[" :: show_q (fst r) ++ "," :: show_q (snd r) ++ ["]"]) rows) ++ ["]"]
  | JList l => "[" :: joinc "," ((fix go (l : list jv) : list str := match l with [] => [] | x :: r => show_jv x :: go r end) l) ++ ["]"]
  | JObj o => "{" :: joinc "," ((fix go (l : list (string * jv)) : list str :=
                                   match l with [] => [] | (k, x) :: r => (hex (s2l k) ++ "=" :: show_jv x) :: go r end) o) ++ ["}"]
  end.
Definition show_obj (o : obj) : str := show_jv (JObj o).
Definition run_geom (f : list str) : str :=
  match pgeom f with
  | Some g => sres (fun l => joinc "," (map sx l)) (block_name_list g)
  | None => s2l "BADCASE"
  end.
Definition run_case (line : str) : str :=
  match fields line with
  | op :: rest0 =>
  if str_eqb op (s2l "bnl") then run_geom rest0 else
  match rest0 with
  | mp :: a1 :: a2 :: rest =>
      match pdata rest with
      | None => s2l "BADCASE"
      | Some d =>
          let mpb := str_eqb mp (s2l "1") in
          if str_eqb op (s2l "t2") then sres sdata (convert_to_TOUGH2 mpb d)
          else if str_eqb op (s2l "au") then sres sdata (convert_to_AUTOUGH2 mpb (xs a1) (xs a2) d)
          else if str_eqb op (s2l "st") then sres sdata (set_type (xs a1) d)
          else if str_eqb op (s2l "ws") then joinc "," (map sx (written_sections d))
          else match pxin d (skipn 18 rest) with
               | None => s2l "BADCASE"
               | Some x =>
                   let l_eos := sres (fun r => sx (fst r) ++ tab :: show_bool (snd r)) (eos_json x) in
                   let l_rocks := sres (fun l => joinc ";" (map (fun c => joinc "," (map show_z c)) l)) (rocks_cells x) in
                   let l_srcs := sres (fun l => joinc "," (map (fun s => sx (fst s) ++ ":" :: scell (snd s)) l)) (sources x) in
                   if str_eqb op (s2l "eos") then l_eos
                   else if str_eqb op (s2l "rocks") then l_rocks
                   else if str_eqb op (s2l "srcs") then l_srcs
                   else if str_eqb op (s2l "src") then
                     match psin x (skipn 27 rest) with
                     | Some sn => sres (fun l => joinc ";" (map show_obj l)) (sources_full sn)
                     | None => s2l "BADCASE"
                     end
                   else if str_eqb op (s2l "exp") then
                     let l_init := sres (fun l => joinc "," (map show_z l)) (initial_cells x) in
                     let l_bdy := sres (fun l => joinc ";" (map (fun e => sx (fst e) ++ ":" :: show_z (fst (snd e)) ++ ":" :: joinc "," (map show_z (snd (snd e)))) l))
                                       (boundary_faces x) in
                     l_eos ++ s2l " | " ++ l_rocks ++ s2l " | " ++ l_srcs ++ s2l " | " ++ l_init ++ s2l " | " ++ l_bdy
                   else s2l "BADCASE"
               end
      end
  | _ => s2l "BADCASE"
  end
  | _ => s2l "BADCASE"
  end.

Require Extraction.
Require Import ExtrOcamlBasic ExtrOcamlString.
Extraction "Drv.ml" run_case.
