(** C20 -- concrete models meeting the hypotheses of the implication theorems (so none of them is
    vacuous), and the finite sweep: every MOP digit 0..9 in every one of the 24 positions (and the
    unused slot 0), with and without MP, through both conversions. *)
From Coq Require Import Ascii String List Bool Arith ZArith Lia.
From PTBase Require Import Exn PyStr.
From P Require Import Lang Convert SectionLemmas SectionOrder MopLemmas ConvertLemmas ConvertLemmas2 WaiweraJson JsonLemmas JsonLemmas2 SourceJson.
From Gen Require Import GenConvert.
Import ListNotations.

Definition mkgen (b n t : string) : genrec :=
  {| g_block := s2l b; g_name := s2l n; g_type := s2l t; g_ltab := Some 1%Z; g_hg := Some (-1)%Z; g_data := 7%Z |}.
Definition ex_blocks : list blockrec :=
  [ {| b_name := s2l "atm 0"; b_rock := s2l "dfalt"; b_vol := (1000000, 1)%Z |};  (* volume as a fraction num/den *)
    {| b_name := s2l "  a 1"; b_rock := s2l "dfalt"; b_vol := (600, 1)%Z |};
    {| b_name := s2l "  b 1"; b_rock := s2l "rock1"; b_vol := (600, 1)%Z |};
    {| b_name := s2l "  c 1"; b_rock := s2l "rock1"; b_vol := (0, 1)%Z |} ].
Definition ex_rocks : list rock := [ {| r_name := s2l "dfalt"; r_scaled := 0; r_data := 1%Z |}; {| r_name := s2l "rock1"; r_scaled := 0; r_data := 2%Z |} ].
Definition ex_heap : list genrec :=
  [ mkgen "  a 1" "gen 1" "MASS"; mkgen "  b 1" "gen 2" "FEED"; mkgen "  b 1" "gen 3" "CO2 "; mkgen "  a 1" "gen 4" "TMAK" ].
Definition ex_conns : list (str * str) := [(s2l "  a 1", s2l "atm 0"); (s2l "  a 1", s2l "  b 1"); (s2l "  c 1", s2l "  b 1")].
Definition ex_options : list Z := [0; 1; 2; 3; 4; 5; 6; 7; 8; 9; 2; 0; 2; 0; 3; 0; 4; 1; 0; 0; 1; 9; 1; 1; 2]%Z.

(** an AUTOUGH2 model: simulator, LINEQ, MULTI with an EOS name, SHORT output, a generator of a type
    TOUGH2 has (MASS), one it lacks (FEED), a convertible one (CO2) listed twice, a makeup group *)
Definition ex_au : data :=
  {| simulator := s2l "AUTOUGH2.2EW"; filename := s2l "model.dat";
     sections := map s2l ["SIMUL"; "ROCKS"; "PARAM"; "LINEQ"; "MULTI"; "ELEME"; "CONNE"; "GENER"; "SHORT"]%string;
     other_present := map s2l ["PARAM"; "ELEME"; "CONNE"]%string;
     multi := [(s2l "num_components", MInt 1); (s2l "eos", MStr (s2l "EW"))];
     lineq := [(s2l "type", MInt 2); (s2l "epsilon", MNone)]; solver := [];
     options := ex_options; heap := ex_heap; genlist := [0; 1; 2; 2; 3];
     gendict := [((s2l "  a 1", s2l "gen 1"), 0); ((s2l "  b 1", s2l "gen 2"), 1); ((s2l "  b 1", s2l "gen 3"), 2); ((s2l "  a 1", s2l "gen 4"), 3)];
     short_output := {| so_freq := Some (MInt 2); so_block := Some [IBlock (s2l "  a 1")]; so_conn := None;
                        so_gen := Some [IGen 1; IGen 2; IGen 0; IGen 2] |};
     hist_block := []; hist_conn := []; hist_gen := [];
     rocks := ex_rocks; grid_blocks := ex_blocks; grid_conns := ex_conns |}.
(** a TOUGH2 model: SOLVR, history requests given as objects, bare names and names outside the grid *)
Definition ex_t2 : data :=
  {| simulator := []; filename := s2l "MODEL";
     sections := map s2l ["ROCKS"; "PARAM"; "SOLVR"; "MULTI"; "ELEME"; "CONNE"; "GENER"; "FOFT"; "COFT"; "GOFT"]%string;
     other_present := map s2l ["PARAM"; "ELEME"; "CONNE"]%string;
     multi := [(s2l "num_components", MInt 1)]; lineq := [];
     solver := [(s2l "type", MInt 5); (s2l "z_precond", MStr (s2l "Z1"))];
     options := ex_options; heap := ex_heap; genlist := [0; 2];
     gendict := [((s2l "  a 1", s2l "gen 1"), 0); ((s2l "  b 1", s2l "gen 3"), 2)];
     short_output := short_empty;
     hist_block := [IBlock (s2l "  a 1"); IName (s2l "  b 1"); IName (s2l "zz  9")];
     hist_conn := [ITuple (s2l "  a 1") (s2l "  b 1"); ITuple (s2l "  b 1") (s2l "  a 1")];
     hist_gen := [IName (s2l "  b 1")];
     rocks := ex_rocks; grid_blocks := ex_blocks; grid_conns := ex_conns |}.

Definition res_ok {A} (r : res A) : bool := match r with Ok _ => true | Raise _ => false end.
Definition on_ok {A} (r : res A) (p : A -> bool) : bool := match r with Ok a => p a | Raise _ => false end.

Lemma ex_au_converts : exists d', convert_to_TOUGH2 false ex_au = Ok d' /\ lineq_ok ex_au /\ NoDup (sections ex_au).
Proof.
  destruct (convert_to_TOUGH2 false ex_au) as [d'|] eqn:E; [|vm_compute in E; discriminate].
  exists d'. split; [reflexivity|]. split.
  - right. exists 2%Z. vm_compute. reflexivity.
  - vm_compute. repeat constructor; cbn; intuition discriminate.
Qed.
Definition nat_list_eqb (a b : list nat) : bool := Nat.eqb (length a) (length b) && forallb (fun p => Nat.eqb (fst p) (snd p)) (combine a b).
(** what the example becomes: FEED and TMAK are gone from list and lookup, CO2 became COM2, GOFT lists each block once *)
Lemma ex_au_outcome :
  on_ok (convert_to_TOUGH2 false ex_au) (fun d' =>
    nat_list_eqb (genlist d') [0; 2; 2] && str_eqb (g_type (hget 2 (heap d'))) (s2l "COM2") &&
    Nat.eqb (length (gendict d')) 2 && Nat.eqb (length (hist_gen d')) 2 && negb (nonempty (simulator d')) &&
    Z.eqb (opt_get 21 (options d')) 5 && Z.eqb (opt_get 10 (options d')) 0 &&
    forallb (fun r => Nat.eqb (r_scaled r) 1) (rocks d')) = true.
Proof. vm_compute. reflexivity. Qed.

Lemma ex_t2_converts : exists d', convert_to_AUTOUGH2 false (s2l default_simulator) (s2l default_eos) ex_t2 = Ok d' /\ solver_ok ex_t2.
Proof.
  destruct (convert_to_AUTOUGH2 false (s2l default_simulator) (s2l default_eos) ex_t2) as [d'|] eqn:E; [|vm_compute in E; discriminate].
  exists d'. split; [reflexivity|]. vm_compute. exact I.
Qed.
(** SOLVR type 5 became LINEQ type 2; the two resolvable FOFT items, the connection given in grid order and the
    generator in the GOFT block are in the short output; the unknown name and the reversed pair are dropped *)
Lemma ex_t2_outcome :
  on_ok (convert_to_AUTOUGH2 false (s2l default_simulator) (s2l default_eos) ex_t2) (fun d' =>
    match dget (s2l "type") (lineq d') with Some (MInt 2) => true | _ => false end &&
    match so_block (short_output d'), so_conn (short_output d'), so_gen (short_output d') with
    | Some [IBlock _; IBlock _], Some [IConn _ _], Some [IGen 2] => true | _, _, _ => false end &&
    str_eqb (simulator d') (s2l "AUTOUGH2.2EW") && str_eqb (filename d') (s2l "MODEL.DAT") &&
    match dget (s2l "eos") (multi d') with Some (MStr e) => str_eqb e (s2l "EW") | _ => false end) = true.
Proof. vm_compute. reflexivity. Qed.
Lemma ex_type_setter : on_ok (set_type (s2l "TOUGH2") ex_au) (fun d' => negb (nonempty (simulator d'))) = true /\
                       on_ok (set_type (s2l "AUTOUGH2") ex_t2) (fun d' => nonempty (simulator d')) = true /\
                       res_ok (set_type (s2l "TOUGH3") ex_au) = false.
Proof. vm_compute. repeat split. Qed.

(** * the finite sweep over MOP digits *)
Definition digits : list Z := [0; 1; 2; 3; 4; 5; 6; 7; 8; 9]%Z.
Definition sweep_options (k : nat) (v : Z) : list Z := opt_set k v (repeat 0%Z 25).
Definition lineq_type_ok (d' : data) : bool :=
  match dget (s2l au_lineq_type_key) (lineq d') with
  | Some (MInt t) => existsb (Z.eqb t) au_lineq_table || Z.eqb t au_lineq_default
  | _ => false
  end.
(** the base models, with and without a LINEQ / SOLVR section (without one MOP(21) itself selects the solver) *)
Definition sweep_case (k : nat) (v : Z) (mp withsolver : bool) : bool :=
  let au := set_options (sweep_options k v) (if withsolver then ex_au else set_lineq [] ex_au) in
  let t2 := set_options (sweep_options k v) (if withsolver then ex_t2 else set_solver [] ex_t2) in
  on_ok (convert_to_TOUGH2 mp au) (fun d' =>
    forallb digitb (options d') && Nat.eqb (length (options d')) 25 && negb (nonempty (simulator d')) &&
    negb (dtruthy (lineq d'))) &&
  on_ok (convert_to_AUTOUGH2 mp (s2l default_simulator) (s2l default_eos) t2) (fun d' =>
    forallb digitb (options d') && Nat.eqb (length (options d')) 25 && nonempty (simulator d') &&
    lineq_type_ok d' && negb (dtruthy (solver d'))).
Definition sweep_all : bool :=
  forallb (fun k => forallb (fun v => forallb (fun mp => forallb (fun ws => sweep_case k v mp ws) [true; false]) [true; false]) digits) (seq 0 25).
Lemma sweep_all_true : sweep_all = true.
Proof. vm_compute. reflexivity. Qed.
Theorem mop_digit_sweep_lemma k v mp ws : k < 25 -> (0 <= v <= 9)%Z -> sweep_case k v mp ws = true.
Proof.
  intros K V. pose proof sweep_all_true as S. unfold sweep_all in S. rewrite forallb_forall in S.
  assert (Ik : In k (seq 0 25)) by (apply in_seq; lia). specialize (S k Ik). rewrite forallb_forall in S.
  assert (Iv : In v digits).
  { assert (v = 0 \/ v = 1 \/ v = 2 \/ v = 3 \/ v = 4 \/ v = 5 \/ v = 6 \/ v = 7 \/ v = 8 \/ v = 9)%Z as D by lia.
    unfold digits. cbn [In]. intuition. }
  specialize (S v Iv). rewrite forallb_forall in S.
  assert (Im : In mp [true; false]) by (destruct mp; cbn; auto). specialize (S mp Im). rewrite forallb_forall in S.
  apply S. destruct ws; cbn; auto.
Qed.

(** * an export example: one (huge) atmosphere block, blocks a and b in two rock types, block c a
      zero-volume boundary block; the EOS is only in the simulator string *)
Definition ex_xin : xin :=
  {| x_d := set_multi [] (set_short_output short_empty ex_au);
     x_geo := map s2l ["atm 0"; "  a 1"; "  b 1"; "  c 1"]%string; x_natm := 1%Z; x_atmos := (1000, 1)%Z;
     x_eos := EANone; x_ninc := 2; x_diff_ok := true;
     x_default := 0%Z; x_indom := [(s2l "rock1", 5%Z)]; x_incon := [(s2l "  a 1", 7%Z)] |}.
Lemma ex_export_ok :
  on_ok (eos_json ex_xin) (fun r => str_eqb (fst r) (s2l "we") && negb (snd r)) = true /\
  on_ok (rocks_cells ex_xin) (fun cl => match cl with [[c0]; [c1]] => Z.eqb c0 0 && Z.eqb c1 1 | _ => false end) = true /\
  NoDup (x_geo ex_xin).
Proof.
  split; [vm_compute; reflexivity|]. split; [vm_compute; reflexivity|].
  vm_compute. repeat constructor; cbn; intuition discriminate.
Qed.
(** sources of the converted model (FEED is unsupported by the export; after conversion it is gone) *)
Lemma ex_sources_ok :
  on_ok (convert_to_TOUGH2 false ex_au) (fun d' =>
    on_ok (sources {| x_d := d'; x_geo := x_geo ex_xin; x_natm := 1%Z; x_atmos := (1000, 1)%Z; x_eos := EANone; x_ninc := 2; x_diff_ok := true;
                    x_default := 0%Z; x_indom := []; x_incon := [] |})
          (fun l => match map snd l with [Some 0%Z; Some 1%Z; Some 1%Z] => true | _ => false end)) = true.
Proof. vm_compute. reflexivity. Qed.

(** * section order: a TOUGH2 model read from a file whose FOFT / COFT / GOFT sections precede ELEME *)
Definition ex_hist_first : data :=
  set_sections (map s2l ["ROCKS"; "PARAM"; "SOLVR"; "MULTI"; "FOFT"; "COFT"; "GOFT"; "ELEME"; "CONNE"; "GENER"]%string) ex_t2.
Lemma ex_hist_first_sorted : sorted_upto (rk kw_short) (sections ex_hist_first) /\ ~ sorted_upto (rk kw_goft) (sections ex_hist_first).
Proof.
  split; [apply sortedb_sound; vm_compute; reflexivity|]. intro PS.
  assert (B : before kw_foft kw_eleme (sections ex_hist_first)) by (vm_compute; intuition).
  destruct (PS _ _ B) as [i [j [Ri [Rj L]]]]; [vm_compute; reflexivity|vm_compute; reflexivity|].
  vm_compute in Ri, Rj. inversion Ri. inversion Rj. subst. lia.
Qed.
Definition str_list_eqb (a b : list str) : bool := Nat.eqb (length a) (length b) && forallb (fun p => str_eqb (fst p) (snd p)) (combine a b).
Lemma ex_hist_first_outcome :
  on_ok (convert_to_AUTOUGH2 false (s2l default_simulator) (s2l default_eos) ex_hist_first) (fun d' =>
    str_list_eqb (written_sections d')
      (map s2l ["SIMUL"; "ROCKS"; "PARAM"; "LINEQ"; "MULTI"; "ELEME"; "CONNE"; "GENER"; "SHORT"]%string)) = true.
Proof. vm_compute. reflexivity. Qed.

(** * the MULKOM compatibility rescaling: a MULKOM model with MOP(23) = 1 (MOP(10) = 0) *)
Definition ex_mulkom : data := set_options (opt_set 23 1%Z (opt_set 10 0%Z ex_options)) (set_simulator (s2l "MULKOM    EW") ex_au).
(** while the source clears the simulator string first, convert_to_TOUGH2 leaves the conductivities alone although the
    parameter conversion it calls would rescale them once *)
Lemma mulkom_rescaling_lost_lemma : t2_clears_simulator_first = true ->
  on_ok (convert_to_TOUGH2 false ex_mulkom) (fun d' => forallb (fun r => Nat.eqb (r_scaled r) 0) (rocks d')) = true /\
  on_ok (params_to_tough2 false ex_mulkom) (fun d' => forallb (fun r => Nat.eqb (r_scaled r) 1) (rocks d')) = true.
Proof. intro F. vm_compute in F. first [discriminate F|vm_compute; split; reflexivity]. Qed.
Lemma mulkom_rescaling_kept_lemma : t2_clears_simulator_first = false ->
  on_ok (convert_to_TOUGH2 false ex_mulkom) (fun d' => forallb (fun r => Nat.eqb (r_scaled r) 1) (rocks d')) = true.
Proof. intro F. vm_compute in F. first [discriminate F|vm_compute; reflexivity]. Qed.

(** * block orders, initial conditions, boundary faces *)
Definition ex_geom (o : border) : geom :=
  {| gm_atm := [s2l "atm 0"]; gm_under := [(s2l "  a 1", 8); (s2l "  b 1", 6); (s2l "  c 1", 8)]; gm_order := o |}.
Lemma ex_block_orders :
  on_ok (block_name_list (ex_geom BODmplex)) (fun l => str_list_eqb l (map s2l ["atm 0"; "  a 1"; "  c 1"; "  b 1"]%string)) = true /\
  on_ok (block_name_list (ex_geom BOLayerColumn)) (fun l => str_list_eqb l (map s2l ["atm 0"; "  a 1"; "  b 1"; "  c 1"]%string)) = true /\
  on_ok (block_name_list (ex_geom BONone)) (fun l => str_list_eqb l (x_geo ex_xin)) = true.
Proof. vm_compute. repeat split. Qed.
Definition z_list_eqb (a b : list Z) : bool := Nat.eqb (length a) (length b) && forallb (fun p => Z.eqb (fst p) (snd p)) (combine a b).
Lemma ex_initial_boundary :
  on_ok (initial_cells ex_xin) (fun l => z_list_eqb l [7; 5; 5]%Z) = true /\
  on_ok (boundary_faces ex_xin) (fun l => match l with
     | [(b1, (v1, c1)); (b2, (v2, c2))] => str_eqb b1 (s2l "atm 0") && Z.eqb v1 0 && z_list_eqb c1 [0%Z] &&
                                           str_eqb b2 (s2l "  c 1") && Z.eqb v2 5 && z_list_eqb c2 [1%Z]
     | _ => false end) = true.
Proof. vm_compute. split; reflexivity. Qed.

(** * source values: the converted example model (MASS producer with a rate table, CO2 -> COM2 injector listed twice) *)
Definition ex_vals : list gval :=
  [ {| v_gx := (-3, 2)%Z; v_ex := (0, 1)%Z; v_fg := (0, 1)%Z; v_hg := Some (-1, 1)%Z; v_time := [(0, 1); (10, 1)]%Z; v_rate := [(-1, 1); (-2, 1)]%Z; v_enth := [] |};
    gval0;
    {| v_gx := (10, 1)%Z; v_ex := (84000, 1)%Z; v_fg := (0, 1)%Z; v_hg := None; v_time := []; v_rate := []; v_enth := [] |};
    gval0 ].
Definition ex_sin (d' : data) : sin :=
  {| s_x := {| x_d := d'; x_geo := x_geo ex_xin; x_natm := 1%Z; x_atmos := (1000, 1)%Z; x_eos := EANone; x_ninc := 2; x_diff_ok := true;
               x_default := 0%Z; x_indom := []; x_incon := [] |};
     s_vals := ex_vals; s_tracer := false; s_numeq := 2%Z; s_mop12 := 1%Z |}.
Definition jv_is_num (v : option jv) (q : Z * Z) : bool := match v with Some (JNum p) => Z.eqb (fst p) (fst q) && Z.eqb (snd p) (snd q) | _ => false end.
Lemma ex_source_values :
  on_ok (convert_to_TOUGH2 false ex_au) (fun d' => on_ok (sources_full (ex_sin d')) (fun l =>
    match l with
    | [a; b; c] =>
        match jget "rate" a with Some (JTable [_; _]) => true | _ => false end &&
        match jget "separator" a with Some (JObj _) => true | _ => false end &&
        match jget "interpolation" a with Some (JStr "step") => true | _ => false end &&
        jv_is_num (jget "rate" b) (10, 1)%Z && jv_is_num (jget "enthalpy" b) (84000, 1)%Z &&
        match jget "component" b, jget "cell" b, jget "cell" c with Some (JInt 2), Some (JInt 1), Some (JInt 1) => true | _, _, _ => false end
    | _ => false end)) = true.
Proof. vm_compute. reflexivity. Qed.
