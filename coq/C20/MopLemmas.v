(** C20 -- lemmas about the MOP rewriting programs (Lang.v, interpreted by Convert.run_prog):
    for EVERY program of the language, hence for the two programs regenerated from t2data.py.
    - the interpreter is total (it is a Gallina function) and keeps the length of the option array;
    - an option the program never assigns keeps its value;
    - the number of conductivity rescalings is bounded by the number of [ORescale] statements;
    - digits stay digits when every assigned constant is a digit. *)
From Coq Require Import Ascii String List Bool Arith ZArith Lia.
From PTBase Require Import Exn PyStr.
From P Require Import Lang Convert.
From Gen Require Import GenConvert.
Import ListNotations.

(** induction principle for the nested statement type *)
Section OstmtInd.
  Variable P : ostmt -> Prop.
  Hypothesis HSet : forall k e, P (OSet k e).
  Hypothesis HResc : P ORescale.
  Hypothesis HIf : forall t body, Forall P body -> P (OIf t body).
  Fixpoint ostmt_ind2 (s : ostmt) : P s :=
    match s with
    | OSet k e => HSet k e
    | ORescale => HResc
    | OIf t body => HIf t body ((fix go (l : list ostmt) : Forall P l :=
                                   match l with [] => Forall_nil P | x :: r => Forall_cons x (ostmt_ind2 x) (go r) end) body)
    end.
End OstmtInd.

Lemma run_body_eq c body st :
  (fix go (l : list ostmt) (st : list Z * nat) : list Z * nat :=
     match l with [] => st | s' :: r => go r (run_stmt c s' st) end) body st = run_prog c body st.
Proof. revert st. induction body as [|s r IH]; intro st; [reflexivity|]. cbn [run_prog]. apply IH. Qed.
Lemma run_stmt_if c t body st :
  run_stmt c (OIf t body) st = if eval_test c (fun k => opt_get k (fst st)) t then run_prog c body st else st.
Proof. cbn [run_stmt]. destruct (eval_test c _ t); [apply run_body_eq|reflexivity]. Qed.

(** a property of states kept by every statement is kept by every program *)
Lemma run_prog_Forall c (Q : list Z * nat -> Prop) p :
  Forall (fun s => forall st, Q st -> Q (run_stmt c s st)) p -> forall st, Q st -> Q (run_prog c p st).
Proof. induction 1 as [|s r Hs _ IH]; intros st H; [exact H|]. cbn [run_prog]. apply IH. apply Hs. exact H. Qed.

(** * length *)
Lemma opt_set_length k v o : length (opt_set k v o) = length o.
Proof. revert k. induction o as [|x r IH]; intro k; [destruct k; reflexivity|]. destruct k; cbn [opt_set length]; [reflexivity|]. rewrite IH. reflexivity. Qed.
Lemma run_stmt_length c s : forall st, length (fst (run_stmt c s st)) = length (fst st).
Proof.
  induction s as [k e| |t body IH] using ostmt_ind2; intro st.
  - cbn [run_stmt fst]. apply opt_set_length.
  - reflexivity.
  - rewrite run_stmt_if. destruct (eval_test c _ t); [|reflexivity].
    apply (run_prog_Forall c (fun st' => length (fst st') = length (fst st))); [|reflexivity].
    eapply Forall_impl; [|exact IH]. cbn beta. intros s Hs st' E. rewrite Hs. exact E.
Qed.
Lemma run_prog_length c p st : length (fst (run_prog c p st)) = length (fst st).
Proof.
  apply (run_prog_Forall c (fun st' => length (fst st') = length (fst st))); [|reflexivity].
  apply Forall_forall. intros s _ st' E. rewrite run_stmt_length. exact E.
Qed.

(** * options never assigned keep their value *)
Fixpoint writes_stmt (s : ostmt) : list nat :=
  match s with
  | OSet k _ => [k]
  | ORescale => []
  | OIf _ body => (fix go (l : list ostmt) : list nat := match l with [] => [] | x :: r => writes_stmt x ++ go r end) body
  end.
Definition writes (p : list ostmt) : list nat := flat_map writes_stmt p.
Lemma writes_body_eq body :
  (fix go (l : list ostmt) : list nat := match l with [] => [] | x :: r => writes_stmt x ++ go r end) body = writes body.
Proof. induction body as [|s r IH]; [reflexivity|]. cbn [writes flat_map]. f_equal; try exact IH. Qed.
Lemma opt_get_set_other k k' v o : k <> k' -> opt_get k (opt_set k' v o) = opt_get k o.
Proof.
  unfold opt_get. revert k k'. induction o as [|x r IH]; intros k k' N; [destruct k'; reflexivity|].
  destruct k' as [|k'], k as [|k]; cbn [opt_set nth]; [congruence|reflexivity|reflexivity|]. apply IH. congruence.
Qed.
Lemma run_stmt_unwritten c k s : ~ In k (writes_stmt s) -> forall st, opt_get k (fst (run_stmt c s st)) = opt_get k (fst st).
Proof.
  induction s as [k' e| |t body IH] using ostmt_ind2; intros N st.
  - cbn [run_stmt fst]. apply opt_get_set_other. intro E. apply N. left. symmetry. exact E.
  - reflexivity.
  - rewrite run_stmt_if. destruct (eval_test c _ t); [|reflexivity].
    cbn [writes_stmt] in N. rewrite writes_body_eq in N.
    apply (run_prog_Forall c (fun st' => opt_get k (fst st') = opt_get k (fst st))); [|reflexivity].
    apply Forall_forall. intros s Hs st' E. rewrite Forall_forall in IH. rewrite (IH s Hs); [exact E|].
    intro I. apply N. unfold writes. apply in_flat_map. exists s. split; assumption.
Qed.
Lemma run_prog_unwritten c k p st : ~ In k (writes p) -> opt_get k (fst (run_prog c p st)) = opt_get k (fst st).
Proof.
  intro N. apply (run_prog_Forall c (fun st' => opt_get k (fst st') = opt_get k (fst st))); [|reflexivity].
  apply Forall_forall. intros s Hs st' E. rewrite run_stmt_unwritten; [exact E|].
  intro I. apply N. unfold writes. apply in_flat_map. exists s. split; assumption.
Qed.

(** * the number of conductivity rescalings *)
Fixpoint nresc_stmt (s : ostmt) : nat :=
  match s with
  | OSet _ _ => 0
  | ORescale => 1
  | OIf _ body => (fix go (l : list ostmt) : nat := match l with [] => 0 | x :: r => nresc_stmt x + go r end) body
  end.
Fixpoint nresc (p : list ostmt) : nat := match p with [] => 0 | s :: r => nresc_stmt s + nresc r end.
Lemma nresc_body_eq body :
  (fix go (l : list ostmt) : nat := match l with [] => 0 | x :: r => nresc_stmt x + go r end) body = nresc body.
Proof. induction body as [|s r IH]; [reflexivity|]. cbn [nresc]. f_equal; try exact IH. Qed.
Lemma run_prog_resc_gen c p :
  Forall (fun s => forall st, snd st <= snd (run_stmt c s st) <= snd st + nresc_stmt s) p ->
  forall st, snd st <= snd (run_prog c p st) <= snd st + nresc p.
Proof.
  induction 1 as [|s r Hs _ IH]; intro st; cbn [run_prog nresc]; [lia|].
  specialize (IH (run_stmt c s st)). specialize (Hs st). lia.
Qed.
Lemma run_stmt_resc c s : forall st, snd st <= snd (run_stmt c s st) <= snd st + nresc_stmt s.
Proof.
  induction s as [k e| |t body IH] using ostmt_ind2; intro st.
  - cbn [run_stmt snd nresc_stmt]. lia.
  - cbn [run_stmt snd nresc_stmt]. lia.
  - rewrite run_stmt_if. cbn [nresc_stmt]. rewrite nresc_body_eq. destruct (eval_test c _ t); [|lia].
    apply run_prog_resc_gen. exact IH.
Qed.
Lemma run_prog_resc c p st : snd st <= snd (run_prog c p st) <= snd st + nresc p.
Proof. apply run_prog_resc_gen. apply Forall_forall. intros s _. apply run_stmt_resc. Qed.

(** * digits stay digits *)
Definition digit (z : Z) : Prop := (0 <= z <= 9)%Z.
Definition digitb (z : Z) : bool := ((0 <=? z) && (z <=? 9))%Z.
Lemma digitb_digit z : digitb z = true <-> digit z.
Proof. unfold digitb, digit. rewrite andb_true_iff, !Z.leb_le. tauto. Qed.
(** [sv]: may the program store the solver type into an option? *)
Fixpoint consts_ok_stmt (sv : bool) (s : ostmt) : bool :=
  match s with
  | OSet _ (EConst z) => digitb z
  | OSet _ ESolver => sv
  | ORescale => true
  | OIf _ body => (fix go (l : list ostmt) : bool := match l with [] => true | x :: r => consts_ok_stmt sv x && go r end) body
  end.
Definition consts_ok (sv : bool) (p : list ostmt) : bool := forallb (consts_ok_stmt sv) p.
Lemma consts_body_eq sv body :
  (fix go (l : list ostmt) : bool := match l with [] => true | x :: r => consts_ok_stmt sv x && go r end) body = consts_ok sv body.
Proof. induction body as [|s r IH]; [reflexivity|]. cbn [consts_ok forallb]. f_equal; try exact IH. Qed.
Lemma opt_set_Forall (Q : Z -> Prop) k v o : Q v -> Forall Q o -> Forall Q (opt_set k v o).
Proof.
  intros Hv. revert k. induction o as [|x r IH]; intros k H; [destruct k; constructor|].
  inversion H; subst. destruct k; cbn [opt_set]; constructor; auto.
Qed.
Lemma run_stmt_digits c sv s : (sv = true -> digit (c_solver c)) -> consts_ok_stmt sv s = true ->
  forall st, Forall digit (fst st) -> Forall digit (fst (run_stmt c s st)).
Proof.
  intro Hc. induction s as [k e| |t body IH] using ostmt_ind2; intros Hk st H.
  - cbn [run_stmt fst]. apply opt_set_Forall; [|exact H]. destruct e; cbn [eval_expr]; [|apply Hc; exact Hk].
    apply digitb_digit. exact Hk.
  - exact H.
  - rewrite run_stmt_if. destruct (eval_test c _ t); [|exact H].
    cbn [consts_ok_stmt] in Hk. rewrite consts_body_eq in Hk. unfold consts_ok in Hk. rewrite forallb_forall in Hk.
    apply (run_prog_Forall c (fun st' => Forall digit (fst st'))); [|exact H].
    apply Forall_forall. intros s Hs. rewrite Forall_forall in IH. apply IH; [exact Hs|]. apply Hk. exact Hs.
Qed.
Lemma run_prog_digits c sv p st : (sv = true -> digit (c_solver c)) -> consts_ok sv p = true -> Forall digit (fst st) -> Forall digit (fst (run_prog c p st)).
Proof.
  intros Hc Hk. unfold consts_ok in Hk. rewrite forallb_forall in Hk.
  apply (run_prog_Forall c (fun st' => Forall digit (fst st'))).
  apply Forall_forall. intros s Hs. apply (run_stmt_digits c sv); [exact Hc|]. apply Hk. exact Hs.
Qed.

(** * facts about the two regenerated programs (re-evaluated on every run) *)
Lemma au_never_rescales : nresc mop_prog_au = 0.
Proof. vm_compute. reflexivity. Qed.
Lemma t2_rescales_at_most_twice : nresc mop_prog_t2 <= 2.
Proof. vm_compute. lia. Qed.
(** the AUTOUGH2-bound program never stores the solver type *)
Lemma prog_consts_are_digits : consts_ok true mop_prog_t2 = true /\ consts_ok false mop_prog_au = true.
Proof. split; vm_compute; reflexivity. Qed.
