(** C20 -- the value parts of generators_json: what each generator type becomes as a Waiwera source (rate, enthalpy,
    component, deliverability, separator, limiter, recharge, injectivity, time tables with their interpolation flags).
    Table-driven: the generator-type dictionaries and lists come from Gen/GenConvert.v; the statement lists of the
    nested functions are compared with the source as ASTs by the translator.  Numbers are exact fractions num/den. *)
From Coq Require Import Ascii String List Bool Arith ZArith Lia.
From PTBase Require Import Exn PyStr PyNum PyVal.
From P Require Import Lang Convert ConvertLemmas WaiweraJson JsonLemmas.
From Gen Require Import GenConvert.
Import ListNotations.

Definition Qz := (Z * Z)%type.                       (* num / den, den > 0 *)
Definition qpos (q : Qz) : bool := (0 <? fst q)%Z.
Definition qneg (q : Qz) : bool := (fst q <? 0)%Z.
Definition qzero (q : Qz) : bool := (fst q =? 0)%Z.
Definition qabs (q : Qz) : Qz := (Z.abs (fst q), snd q).

(** JSON values; a time table (list of [t, v] rows) is one value *)
Inductive jv :=
  | JNum (q : Qz) | JInt (z : Z) | JStr (s : string) | JName (s : str) | JNull
  | JTable (rows : list (Qz * Qz))
  | JList (l : list jv)
  | JObj (o : list (string * jv)).
Definition obj := list (string * jv).
Fixpoint jget (k : string) (o : obj) : option jv :=
  match o with [] => None | (k', v) :: r => if String.eqb k k' then Some v else jget k r end.
Fixpoint jset (k : string) (v : jv) (o : obj) : obj :=
  match o with [] => [(k, v)] | (k', v') :: r => if String.eqb k k' then (k', v) :: r else (k', v') :: jset k v r end.
Fixpoint jdel (k : string) (o : obj) : obj :=
  match o with [] => [] | (k', v') :: r => if String.eqb k k' then r else (k', v') :: jdel k r end.
(** g[k][k2] = v  /  del g[k][k2]  on a nested dict *)
Definition jupd (k : string) (f : obj -> obj) (o : obj) : obj :=
  match jget k o with Some (JObj d) => jset k (JObj (f d)) o | _ => o end.

(** the numeric attributes of a generator the export reads *)
Record gval := { v_gx : Qz; v_ex : Qz; v_fg : Qz; v_hg : option Qz; v_time : list Qz; v_rate : list Qz; v_enth : list Qz }.
Definition gval0 : gval := {| v_gx := (0, 1)%Z; v_ex := (0, 1)%Z; v_fg := (0, 1)%Z; v_hg := None; v_time := []; v_rate := []; v_enth := [] |}.
Record sin := { s_x : xin; s_vals : list gval; s_tracer : bool; s_numeq : Z; s_mop12 : Z }.
Definition vget (s : sin) (id : nat) : gval := nth id (s_vals s) gval0.

Definition optq (o : option Qz) : jv := match o with Some q => JNum q | None => JNull end.
Definition separator (p : option Qz) : jv :=
  JObj [("pressure"%string,
         match p with
         | None => JNum sep_default
         | Some q => if qpos q then JNum q else if qneg q then JList [JNum sep_high; JNum sep_default] else JNum sep_default
         end)].
Definition table (t v : list Qz) : jv := JTable (combine t v).
Definition tracer_type (s : sin) (t : str) : bool := s_tracer s && in_types t tracer_source_types.
Definition component_of (s : sin) (t : str) : jv :=
  match assoc_str t mass_component with
  | Some (Some z) => JInt z
  | Some None => JInt (s_numeq s)                     (* HEAT: num_eqns *)
  | None => JNull
  end.
Definition is_type (t : str) (n : string) : bool := str_eqb t (s2l n).
Definition dispatched (fn : string) (t : str) : bool := dispatched_to (s2l fn) t generator_dispatch.

(** specified_injection_generator_json *)
Definition specified_injection (s : sin) (g : genrec) (v : gval) (o : obj) : obj :=
  let t := g_type g in
  if tracer_type s t then jset "tracer" (JNum (v_gx v)) o
  else
    let o := jset "rate" (JNum (v_gx v)) o in
    let injection := if is_type t masd_type then false
                     else qpos (v_gx v) || (nonempty (v_time v) && existsb qpos (v_rate v)) in
    if injection then
      let o := jset "component" (component_of s t) o in
      if is_type t heat_type then o else jset "enthalpy" (JNum (v_ex v)) o
    else if is_type t mass_type then jset "separator" (separator (v_hg v)) o
    else if is_type t masd_type then
      jset "direction" (JStr "production")
        (jset "separator" (separator (Some (v_fg v)))
           (jset "limiter" (JObj [("total"%string, JNum (qabs (v_gx v)))])
              (jset "deliverability" (JObj [("productivity"%string, JNum (v_ex v)); ("pressure"%string, JNum (v_fg v)); ("threshold"%string, optq (v_hg v))]) o)))
    else o.
(** delv_generator_json (ltab > 1 raises) *)
Definition delv (g : genrec) (v : gval) (o : obj) : res obj :=
  if match g_ltab g with Some l => (1 <? l)%Z | None => false end then Raise PlainException
  else
    let o := jset "deliverability" (JObj [("productivity"%string, JNum (v_gx v)); ("pressure"%string, JNum (v_ex v))]) o in
    Ok (if qneg (v_gx v) then jset "enthalpy" (JNum (v_fg v)) (jset "direction" (JStr "injection") o)
        else jset "separator" (separator (Some (v_fg v))) (jset "direction" (JStr "production") o)).
(** geothermal_deliverability_generator_json *)
Definition geothermal (g : genrec) (v : gval) (o : obj) : obj :=
  let t := g_type g in
  let o := jset "separator" (separator (Some (v_fg v)))
             (jset "deliverability" (JObj [("productivity"%string, JNum (v_gx v)); ("pressure"%string, JNum (v_ex v))]) o) in
  let o := match v_hg v with
           | None => o
           | Some h =>
               if qpos h then jset "limiter" (JObj [(match assoc_str t limit_type with Some k => k | None => ""%string end, JNum h)]) o
               else if qneg h && in_types t rate_from_hg_types then
                 jupd "deliverability" (jdel "productivity") (jset "rate" (JNum h) o)
               else o
           end in
  let o := if is_type t dels_type then jset "production_component" (JInt 2) o else o in
  jset "direction" (JStr "production") o.
(** recharge_generator_json *)
Definition recharge (v : gval) (o : obj) : obj :=
  let o := jset "enthalpy" (JNum (v_ex v)) o in
  match v_hg v with
  | Some h =>
      if qzero h then jset "rate" (JNum (v_gx v)) o
      else
        let dir := if qneg (v_fg v) then "out"%string else if qpos (v_fg v) then "in"%string else "both"%string in
        jset "recharge" (JObj [("pressure"%string, if qpos h then JNum h else JStr "initial"); ("coefficient"%string, JNum (v_gx v))])
          (jset "direction" (JStr dir) o)
  | None => jset "rate" (JNum (v_gx v)) o
  end.
(** injectivity_generator_json *)
Definition injectivity (g : genrec) (v : gval) (o : obj) : obj :=
  let o := if is_type (g_type g) xinj_type then jset "enthalpy" (JNum (v_ex v)) o else o in
  let o := jset "injectivity" (JObj [("pressure"%string, optq (v_hg v)); ("coefficient"%string, JNum (qabs (v_fg v)))])
             (jset "direction" (JStr "injection") o) in
  if qpos (v_gx v) then jset "limiter" (JObj [("total"%string, JNum (v_gx v))]) o else o.
(** table_generator_json *)
Definition interp_names (s : sin) : string * string :=
  if (s_mop12 s =? 0)%Z then (interp_linear, avg_endpoint) else if (s_mop12 s =? 1)%Z then (interp_step, avg_endpoint) else (interp_linear, avg_integrate).
Definition table_part (s : sin) (g : genrec) (v : gval) (o : obj) : obj :=
  let t := g_type g in
  let o := jset "averaging" (JStr (snd (interp_names s))) (jset "interpolation" (JStr (fst (interp_names s))) o) in
  let tb := table (v_time v) (v_rate v) in
  if in_types t table_deliverability_types then
    if match g_ltab g with Some l => (0 <? l)%Z | None => false end
    then jupd "deliverability" (jset "productivity" (JObj [("time"%string, tb)])) o
    else jupd "deliverability" (jset "pressure" (JObj [("enthalpy"%string, tb)])) o
  else if tracer_type s t then jset "tracer" tb o
  else
    let o := if nonempty (v_rate v) then jset "rate" tb o else o in
    if nonempty (v_enth v) then jset "enthalpy" (table (v_time v) (v_enth v)) o else o.

Definition cell_jv (c : option Z) : jv := match c with Some z => JInt z | None => JNull end.
(** generator_json: one source from one generator (and the name handed to it) *)
Definition gen_source (s : sin) (g : genrec) (v : gval) (nm : str) : res obj :=
  let o0 : obj := [("name"%string, JName nm); ("cell"%string, cell_jv (source_cell (s_x s) g))] in
  let t := g_type g in
  do o1 <- (if dispatched "specified_injection_generator_json" t then Ok (specified_injection s g v o0)
            else if dispatched "delv_generator_json" t then delv g v o0
            else if dispatched "geothermal_deliverability_generator_json" t then Ok (geothermal g v o0)
            else if dispatched "recharge_generator_json" t then Ok (recharge v o0)
            else if dispatched "injectivity_generator_json" t then Ok (injectivity g v o0)
            else Ok o0);
  Ok (if nonempty (v_time v) then table_part s g v o1 else o1).

Fixpoint sources_full_loop (s : sin) (ubn : bool) (ids : list nat) (used : list (str * nat)) : res (list obj) :=
  match ids with
  | [] => Ok []
  | id :: r =>
      let g := hget id (heap (x_d (s_x s))) in
      if gen_raises g then Raise PlainException
      else let '(nm, used') := unique_name ubn g used in
           do o <- gen_source s g (vget s id) nm;
           do rest <- sources_full_loop s ubn r used';
           Ok (if is_group g then rest else o :: rest)
  end.
Definition sources_full (s : sin) : res (list obj) :=
  sources_full_loop s (use_block_names (x_d (s_x s))) (genlist (x_d (s_x s))) [].

(** * one source per non-group generator, each made from its own generator *)
Definition made_from (s : sin) (id : nat) (o : obj) : Prop :=
  exists nm, gen_source s (hget id (heap (x_d (s_x s)))) (vget s id) nm = Ok o.
Lemma sources_full_loop_spec s ubn ids : forall used l, sources_full_loop s ubn ids used = Ok l ->
  Forall2 (made_from s) (filter (nongroup (s_x s)) ids) l.
Proof.
  induction ids as [|id r IH]; intros used l H; cbn [sources_full_loop] in H.
  - apply Ok_inj in H. subst l. constructor.
  - destruct (gen_raises (hget id (heap (x_d (s_x s))))); [discriminate|].
    destruct (unique_name ubn (hget id (heap (x_d (s_x s)))) used) as [nm used'].
    destruct (gen_source s (hget id (heap (x_d (s_x s)))) (vget s id) nm) as [o|] eqn:G; [|discriminate]. cbn [bind] in H.
    destruct (sources_full_loop s ubn r used') as [rest|] eqn:E; [|discriminate]. cbn [bind] in H. apply Ok_inj in H.
    specialize (IH _ _ E). cbn [filter]. unfold nongroup at 1. destruct (is_group (hget id (heap (x_d (s_x s))))); cbn [negb]; subst l.
    + exact IH.
    + constructor; [exists nm; exact G|exact IH].
Qed.
Theorem sources_full_lemma s l : sources_full s = Ok l ->
  Forall2 (made_from s) (filter (nongroup (s_x s)) (genlist (x_d (s_x s)))) l /\
  length l = length (filter (nongroup (s_x s)) (genlist (x_d (s_x s)))).
Proof.
  intro H. pose proof (sources_full_loop_spec _ _ _ _ _ H) as F. split; [exact F|]. clear H.
  induction F as [|a b la lb _ _ IH]; [reflexivity|cbn [length]; rewrite IH; reflexivity].
Qed.

(** name and cell of a source are those given at the start: no generator type overwrites them *)
Lemma jget_jset_other k k' v o : String.eqb k k' = false -> jget k (jset k' v o) = jget k o.
Proof.
  intro N. induction o as [|[k2 v2] r IH]; cbn [jset jget]; [rewrite N; reflexivity|].
  destruct (String.eqb k' k2) eqn:E; cbn [jget].
  - apply String.eqb_eq in E. subst k2. rewrite N. reflexivity.
  - rewrite IH. reflexivity.
Qed.
Lemma jget_jupd_other k k' f o : String.eqb k k' = false -> jget k (jupd k' f o) = jget k o.
Proof. intro N. unfold jupd. destruct (jget k' o) as [[| | | | | | |d]|]; try reflexivity. apply jget_jset_other. exact N. Qed.
Ltac kept := repeat first
  [ rewrite jget_jset_other by reflexivity
  | rewrite jget_jupd_other by reflexivity
  | match goal with |- context [if ?c then _ else _] => destruct c end
  | match goal with |- context [match ?c with Some _ => _ | None => _ end] => destruct c end ]; try reflexivity.
Definition kept_key (k : string) : Prop := k = "name"%string \/ k = "cell"%string.
Lemma specified_injection_keeps s g v o k : kept_key k -> jget k (specified_injection s g v o) = jget k o.
Proof. intros [-> | ->]; unfold specified_injection; cbv zeta; kept. Qed.
Lemma geothermal_keeps g v o k : kept_key k -> jget k (geothermal g v o) = jget k o.
Proof. intros [-> | ->]; unfold geothermal; cbv zeta; kept. Qed.
Lemma recharge_keeps v o k : kept_key k -> jget k (recharge v o) = jget k o.
Proof. intros [-> | ->]; unfold recharge; cbv zeta; kept. Qed.
Lemma injectivity_keeps g v o k : kept_key k -> jget k (injectivity g v o) = jget k o.
Proof. intros [-> | ->]; unfold injectivity; cbv zeta; kept. Qed.
Lemma table_part_keeps s g v o k : kept_key k -> jget k (table_part s g v o) = jget k o.
Proof. intros [-> | ->]; unfold table_part; cbv zeta; kept. Qed.
Lemma delv_keeps g v o o' k : kept_key k -> delv g v o = Ok o' -> jget k o' = jget k o.
Proof. intros K H. unfold delv in H. destruct (match g_ltab g with Some l => (1 <? l)%Z | None => false end); [discriminate|]. apply Ok_inj in H. subst o'. destruct K as [-> | ->]; kept. Qed.
(** every source carries the name it was given and the cell index of its generator's block, whatever its type *)
Theorem source_name_cell_lemma s g v nm o : gen_source s g v nm = Ok o ->
  jget "name" o = Some (JName nm) /\ jget "cell" o = Some (cell_jv (source_cell (s_x s) g)).
Proof.
  unfold gen_source. cbv zeta. set (o0 := [("name"%string, JName nm); ("cell"%string, cell_jv (source_cell (s_x s) g))]).
  assert (K1 : kept_key "name") by (left; reflexivity). assert (K2 : kept_key "cell") by (right; reflexivity).
  assert (B : forall o1, (jget "name" o1 = jget "name" o0 /\ jget "cell" o1 = jget "cell" o0) ->
              forall o2, Ok (if nonempty (v_time v) then table_part s g v o1 else o1) = Ok o2 ->
              jget "name" o2 = Some (JName nm) /\ jget "cell" o2 = Some (cell_jv (source_cell (s_x s) g))).
  { intros o1 [A1 A2] o2 E. apply Ok_inj in E. subst o2. destruct (nonempty (v_time v)); rewrite ?table_part_keeps by assumption; rewrite ?A1, ?A2; split; reflexivity. }
  destruct (dispatched "specified_injection_generator_json" (g_type g)).
  { cbn [bind]. apply B. split; apply specified_injection_keeps; assumption. }
  destruct (dispatched "delv_generator_json" (g_type g)).
  { destruct (delv g v o0) as [o1|] eqn:D; [|discriminate]. cbn [bind]. apply B. split; eapply delv_keeps; eassumption. }
  destruct (dispatched "geothermal_deliverability_generator_json" (g_type g)).
  { cbn [bind]. apply B. split; apply geothermal_keeps; assumption. }
  destruct (dispatched "recharge_generator_json" (g_type g)).
  { cbn [bind]. apply B. split; apply recharge_keeps; assumption. }
  destruct (dispatched "injectivity_generator_json" (g_type g)).
  { cbn [bind]. apply B. split; apply injectivity_keeps; assumption. }
  cbn [bind]. apply B. split; reflexivity.
Qed.

(** field origins, type by type (read off the model; each is one line of the source) *)
Definition is_mass_type (t : str) : bool := dispatched "specified_injection_generator_json" t.
Lemma jget_jset_same k v o : jget k (jset k v o) = Some v.
Proof. induction o as [|[k2 v2] r IH]; cbn [jset jget]; [rewrite String.eqb_refl; reflexivity|]. destruct (String.eqb k k2) eqn:E; cbn [jget]; rewrite E; [reflexivity|exact IH]. Qed.
Ltac origin := repeat first
  [ rewrite jget_jset_other by reflexivity
  | match goal with |- context [if ?c then _ else _] => destruct c end
  | match goal with |- context [match ?c with Some _ => _ | None => _ end] => destruct c end ]; try apply jget_jset_same.
(** a specified-rate generator that is not a tracer source carries its own GX as rate (a rate table, if any, replaces it later) *)
Theorem specified_rate_lemma s g v o : tracer_type s (g_type g) = false -> jget "rate" (specified_injection s g v o) = Some (JNum (v_gx v)).
Proof. intro T. unfold specified_injection. rewrite T. cbv zeta. origin. Qed.
(** DELV: production for GX >= 0 (with a separator from FG), injection with enthalpy FG otherwise *)
Theorem delv_direction_lemma g v o o' : delv g v o = Ok o' ->
  jget "direction" o' = Some (JStr (if qneg (v_gx v) then "injection" else "production")) /\
  (if qneg (v_gx v) then jget "enthalpy" o' = Some (JNum (v_fg v)) else jget "separator" o' = Some (separator (Some (v_fg v)))).
Proof.
  unfold delv. destruct (match g_ltab g with Some l => (1 <? l)%Z | None => false end); [discriminate|]. intro H. apply Ok_inj in H. subst o'.
  destruct (qneg (v_gx v)); split; origin.
Qed.
(** a time table is written with the interpolation flags chosen by MOP(12) *)
Theorem table_flags_lemma s g v o : jget "interpolation" (table_part s g v o) = Some (JStr (fst (interp_names s))) /\
                                    jget "averaging" (table_part s g v o) = Some (JStr (snd (interp_names s))).
Proof. unfold table_part. cbv zeta. split; repeat first [rewrite jget_jset_other by reflexivity | rewrite jget_jupd_other by reflexivity | match goal with |- context [if ?c then _ else _] => destruct c end]; apply jget_jset_same. Qed.
