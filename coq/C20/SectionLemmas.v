(** C20 -- lemmas about the section list operations and update_sections. *)
From Coq Require Import Ascii String List Bool Arith ZArith Lia.
From PTBase Require Import Exn PyStr.
From P Require Import Lang Convert.
From Gen Require Import GenConvert.
Import ListNotations.

Ltac fld := cbn [simulator filename sections other_present multi lineq solver options heap genlist gendict short_output
                 hist_block hist_conn hist_gen rocks grid_blocks grid_conns
                 set_simulator set_filename set_sections set_other_present set_multi set_lineq set_solver set_options set_heap
                 set_genlist set_gendict set_short_output set_hist_block set_hist_conn set_hist_gen set_rocks
                 delete_section fst snd].

Lemma str_eqb_false_neq a b : str_eqb a b = false <-> a <> b.
Proof. split; intro H. - intro E. subst. rewrite str_eqb_refl in H. discriminate. - destruct (str_eqb a b) eqn:E; [|reflexivity]. apply str_eqb_eq in E. contradiction. Qed.
Lemma smem_In s l : smem s l = true <-> In s l.
Proof.
  unfold smem. rewrite existsb_exists. split.
  - intros [x [I E]]. apply str_eqb_eq in E. subst. exact I.
  - intro I. exists s. split; [exact I|apply str_eqb_refl].
Qed.
Lemma smem_false s l : smem s l = false <-> ~ In s l.
Proof. rewrite <- smem_In. destruct (smem s l); split; intro H; try reflexivity; try discriminate; try (intro; discriminate). exfalso. apply H. reflexivity. Qed.

Lemma In_remove_first x s l : In x (remove_first s l) -> In x l.
Proof.
  induction l as [|y r IH]; cbn [remove_first]; [tauto|]. destruct (str_eqb s y).
  - intro H. right. exact H.
  - intros [H|H]; [left; exact H|right; exact (IH H)].
Qed.
Lemma remove_first_other x s l : x <> s -> In x l -> In x (remove_first s l).
Proof.
  intros N. induction l as [|y r IH]; cbn [remove_first]; [tauto|]. destruct (str_eqb s y) eqn:E.
  - apply str_eqb_eq in E. subst. intros [H|H]; [congruence|exact H].
  - intros [H|H]; [left; exact H|right; exact (IH H)].
Qed.
Lemma remove_first_nodup s l : NoDup l -> ~ In s (remove_first s l).
Proof.
  induction 1 as [|y r NI ND IH]; cbn [remove_first]; [tauto|]. destruct (str_eqb s y) eqn:E.
  - apply str_eqb_eq in E. subst. exact NI.
  - apply str_eqb_false_neq in E. intros [H|H]; [congruence|exact (IH H)].
Qed.
Lemma remove_first_NoDup s l : NoDup l -> NoDup (remove_first s l).
Proof.
  induction 1 as [|y r NI ND IH]; cbn [remove_first]; [constructor|]. destruct (str_eqb s y); [exact ND|].
  constructor; [|exact IH]. intro H. apply NI. eapply In_remove_first. exact H.
Qed.

Lemma In_insert_at {A} i (x : A) l y : In y (insert_at i x l) <-> y = x \/ In y l.
Proof.
  revert l. induction i as [|i IH]; intro l; cbn [insert_at].
  - cbn. split; intros [H|H]; auto.
  - destruct l as [|z r]; cbn [In].
    + split; intros [H|H]; auto.
    + rewrite IH. split; intros H; tauto.
Qed.

Lemma In_ins_sec s secs y : In y (ins_sec s secs) <-> y = s \/ In y secs.
Proof.
  unfold ins_sec. destruct (smem s secs) eqn:E.
  - apply smem_In in E. split; [auto|]. intros [H|H]; [subst; exact E|exact H].
  - rewrite In_insert_at. tauto.
Qed.
Lemma sections_insert s d y : In y (sections (insert_section s d)) <-> y = s \/ In y (sections d).
Proof. unfold insert_section. fld. apply In_ins_sec. Qed.
Lemma insert_section_In s d : In s (sections (insert_section s d)).
Proof. apply sections_insert. left. reflexivity. Qed.

(** deleting, one by one, every listed keyword for which [np] holds leaves exactly the others *)
Definition rm (l : list str) (k : str) := remove_first k l.
Lemma rm_fold_cons_neq ks a m : (forall k, In k ks -> str_eqb k a = false) -> fold_left rm ks (a :: m) = a :: fold_left rm ks m.
Proof.
  revert m. induction ks as [|k ks IH]; intros m H; [reflexivity|]. cbn [fold_left]. unfold rm at 2 4. cbn [remove_first].
  rewrite (H k (or_introl eq_refl)). apply IH. intros k' I. apply H. right. exact I.
Qed.
Lemma rm_fold_filter (np : str -> bool) l : fold_left rm (filter np l) l = filter (fun x => negb (np x)) l.
Proof.
  induction l as [|a l IH]; [reflexivity|]. cbn [filter]. destruct (np a) eqn:E; cbn [negb].
  - cbn [fold_left]. unfold rm at 2. cbn [remove_first]. rewrite str_eqb_refl. exact IH.
  - rewrite rm_fold_cons_neq; [rewrite IH; reflexivity|].
    intros k I. apply filter_In in I as [_ Hk]. apply str_eqb_false_neq. intro; subst. congruence.
Qed.

(** section edits do not change which keywords have data *)
Lemma data_present_sections v d k : data_present (set_sections v d) k = data_present d k.
Proof. reflexivity. Qed.
Lemma present_sections_sections v d : present_sections (set_sections v d) = present_sections d.
Proof. unfold present_sections. apply filter_ext. intro k. apply data_present_sections. Qed.
Lemma present_insert s d : present_sections (insert_section s d) = present_sections d.
Proof. unfold insert_section. apply present_sections_sections. Qed.

Lemma fold_delete_sections ks d : sections (fold_left (fun d k => delete_section k d) ks d) = fold_left rm ks (sections d).
Proof. revert d. induction ks as [|k ks IH]; intro d; [reflexivity|]. cbn [fold_left]. rewrite IH. reflexivity. Qed.

(** the section list after update_sections, in closed form *)
Lemma filter_In_str (f : str -> bool) l k : In k (filter f l) <-> In k l /\ f k = true.
Proof. apply filter_In. Qed.
Lemma sections_update_gen (ps : list str) (d1 : data) :
  sections (fold_left (fun d k => delete_section k d) (filter (fun k => negb (smem k ps)) (sections d1)) d1)
  = filter (fun x => smem x ps) (sections d1).
Proof.
  rewrite fold_delete_sections. rewrite (rm_fold_filter (fun k => negb (smem k ps))).
  apply filter_ext. intro a. apply negb_involutive.
Qed.
Lemma sections_update d : written_sections d = filter (fun x => smem x (present_sections d)) (sections (with_missing d)).
Proof. unfold written_sections, update_sections, extra_sections. apply sections_update_gen. Qed.

(** every section write() emits has data behind it *)
Theorem written_sections_present d k : In k (written_sections d) -> In k all_sections /\ data_present d k = true.
Proof.
  rewrite sections_update. intro H. apply filter_In_str in H. destruct H as [_ H]. apply smem_In in H.
  revert H. unfold present_sections. apply filter_In_str.
Qed.

Lemma fold_insert_In ks d k : In k ks \/ In k (sections d) -> In k (sections (fold_left (fun d k => insert_section k d) ks d)).
Proof.
  revert d. induction ks as [|a ks IH]; intros d H; cbn [fold_left].
  - destruct H as [[]|H]. exact H.
  - apply IH. destruct H as [[H|H]|H]; [right; subst; apply insert_section_In|left; exact H|right; apply sections_insert; right; exact H].
Qed.
(** ... and every keyword with data is written *)
Theorem present_is_written d k : In k all_sections -> data_present d k = true -> In k (written_sections d).
Proof.
  intros A P. rewrite sections_update.
  assert (PS : In k (present_sections d)) by (unfold present_sections; apply filter_In_str; split; assumption).
  apply filter_In_str. split.
  - unfold with_missing. apply fold_insert_In. destruct (smem k (sections d)) eqn:E; [right; apply smem_In; exact E|left].
    unfold missing_sections. apply filter_In_str. split; [exact PS|rewrite E; reflexivity].
  - apply smem_In. exact PS.
Qed.
